"""Equivalence check for refactoring 4 (sar_trailer.read_sar_trailer).

Run as:  PYTHONPATH=/tmp/wt9/e77 /venv/bin/python _eq/4/equiv.py
(or through pytest: the module exposes ``test_equivalence``).

``EXPECTED`` was recorded from the unchanged code (``--record`` prints it).
"""

import datetime
import io
import pprint
import sys

import fsspec
import numpy as np

import ceos_alos2.sar_trailer as sar_trailer
from ceos_alos2.common import record_preamble
from ceos_alos2.hierarchy import Group
from ceos_alos2.sar_trailer import file_descriptor
from ceos_alos2.utils import to_dict


def describe(obj):
    """value + exact types, recursively, as a compact string"""
    if isinstance(obj, dict):
        items = ", ".join(f"{describe(k)}: {describe(v)}" for k, v in obj.items())
        return f"{type(obj).__name__}{{{items}}}"
    if isinstance(obj, (list, tuple)):
        return f"{type(obj).__name__}[{', '.join(describe(v) for v in obj)}]"
    if isinstance(obj, Group):
        return f"Group({obj.path!r}, {obj.url!r}, {describe(dict(obj.data))}, {describe(dict(obj.attrs))})"
    if isinstance(obj, (str, int, float, type(None), datetime.datetime)) and type(obj).__module__ in (
        "builtins",
        "datetime",
    ):
        return ascii(obj)
    return f"{type(obj).__name__}:{obj!a}"


def describe_exception(exc):
    if exc is None:
        return "None"
    bases = ">".join(c.__name__ for c in type(exc).__mro__[1:-2])
    module = "<equiv>" if type(exc).__module__ == __name__ else type(exc).__module__
    text = f"{module}.{type(exc).__qualname__}({bases}) args={exc.args!a} str={str(exc)!a}"
    if exc.__cause__ is None and exc.__context__ is None and not exc.__suppress_context__:
        return text
    cause = describe_exception(exc.__cause__)
    context = "<cause>" if exc.__context__ is exc.__cause__ else describe_exception(exc.__context__)
    return f"{text} [cause={cause}; context={context}; suppress_context={exc.__suppress_context__}]"


def observe(func, *args, **kwargs):
    try:
        result = func(*args, **kwargs)
    except BaseException as e:  # noqa: B902
        return "RAISED " + describe_exception(e)
    return "RETURNED " + describe(result)


def describe_array(arr):
    if not isinstance(arr, np.ndarray):
        return describe(arr)
    return (
        f"{type(arr).__name__}(dtype={arr.dtype.str}, shape={arr.shape}, writeable={arr.flags.writeable}, "
        f"c={arr.flags.c_contiguous}, owndata={arr.flags.owndata}, base={type(arr.base).__name__}, values={arr.tolist()})"
    )


def describe_result(result):
    header, images = result
    return [
        type(result).__name__,
        type(header).__name__,
        describe(to_dict(header)),
        type(images).__name__,
        [describe_array(image) for image in images],
    ]


def observe_trailer(f):
    try:
        result = sar_trailer.read_sar_trailer(f)
    except BaseException as e:  # noqa: B902
        return "RAISED " + describe_exception(e)
    return describe_result(result)


# --------------------------------------------------------------------------------------
# synthetic trailer files


def build_header(images, *, count=None, total=720, fields=None, fill=b" "):
    """``images``: (record_length, n_pixels, n_lines, n_bytes) as numbers or raw text"""
    fields = fields or {}
    chunks = [
        record_preamble.build(
            {
                "record_sequence_number": 1,
                "first_record_subtype": 63,
                "record_type": 192,
                "second_record_subtype": 18,
                "third_record_subtype": 18,
                "record_length": 720,
            }
        )
    ]
    for subcon in file_descriptor.file_descriptor_record.subcons[1:]:
        if subcon.name == "number_of_low_resolution_images":
            break
        size = subcon.sizeof()
        chunks.append(str(fields.get(subcon.name, "")).ljust(size).encode("ascii"))

    if count is None:
        count = len(images)
    chunks.append(str(count).rjust(6).encode("ascii"))
    for image in images:
        for value, width in zip(image, [8, 6, 6, 6]):
            chunks.append(str(value).rjust(width).encode("ascii"))

    header = b"".join(chunks)
    if total is not None:
        header = header.ljust(total, fill)[:total]
    return header


def pixels(n, n_bytes, start=0, signed=True):
    dtype = np.dtype(f">i{n_bytes}")
    values = (np.arange(n, dtype="int64") * 37 + start) * (-1) ** np.arange(n)
    return values.astype(dtype).tobytes()


class RecordingFile:
    """file-like object that logs every request"""

    def __init__(self, content, log, *, position=0, short_reads=False, fail_on=None):
        self.buffer = io.BytesIO(content)
        self.buffer.seek(position)
        self.log = log
        self.short_reads = short_reads
        self.fail_on = fail_on
        self.n_reads = 0

    def read(self, size=-1):
        self.n_reads += 1
        self.log.append(("read", size, self.buffer.tell()))
        if self.fail_on == self.n_reads:
            raise OSError(f"read #{self.n_reads} failed")
        if self.short_reads and size is not None and size > 0:
            size = min(size, 100)
        return self.buffer.read(size)

    def __getattr__(self, name):
        self.log.append(("getattr", name))
        raise AttributeError(name)


def cases():
    yield "no-images", build_header([]), b""
    yield "no-images-trailing-data", build_header([]), b"unused bytes"
    yield "one-image-i2", build_header([(24, 4, 3, 2)]), pixels(12, 2)
    yield "one-image-i1", build_header([(12, 4, 3, 1)]), pixels(12, 1)
    yield "one-image-i4", build_header([(48, 3, 4, 4)]), pixels(12, 4)
    yield "one-image-i8", build_header([(96, 6, 2, 8)]), pixels(12, 8)
    yield "one-image-1x1", build_header([(2, 1, 1, 2)]), pixels(1, 2, start=-5)
    yield "one-image-empty", build_header([(0, 0, 0, 2)]), b""
    yield "one-image-empty-rows", build_header([(0, 0, 5, 2)]), b""
    yield "one-image-trailing-data", build_header([(24, 4, 3, 2)]), pixels(12, 2) + b"more"
    yield "two-images", build_header([(24, 4, 3, 2), (40, 2, 5, 4)]), pixels(12, 2) + pixels(10, 4, start=1000)
    yield (
        "three-images-mixed",
        build_header([(6, 3, 2, 1), (32, 2, 2, 8), (12, 1, 6, 2)]),
        pixels(6, 1) + pixels(4, 8, start=2**40) + pixels(6, 2, start=7),
    )
    seven = [(2 * (index + 1) * 2, index + 1, 2, 2) for index in range(7)]
    yield "seven-images", build_header(seven), b"".join(pixels(size // 2, 2, start=index) for index, (size, *_) in enumerate(seven))
    eight = seven + [(4, 1, 2, 2)]
    yield "eight-images", build_header(eight, total=None), pixels(100, 2)
    yield "eight-images-padded", build_header(eight, total=None) + b" " * 40, pixels(100, 2)

    # sizes and layout disagree
    yield "record-longer-than-image", build_header([(30, 4, 3, 2)]), pixels(15, 2)
    yield "record-shorter-than-image", build_header([(20, 4, 3, 2)]), pixels(12, 2)
    yield "record-odd-length", build_header([(25, 4, 3, 2)]), pixels(12, 2) + b"x"
    yield "data-truncated", build_header([(24, 4, 3, 2)]), pixels(12, 2)[:20]
    yield "data-truncated-odd", build_header([(24, 4, 3, 2)]), pixels(12, 2)[:19]
    yield "data-missing", build_header([(24, 4, 3, 2)]), b""
    yield "second-data-missing", build_header([(24, 4, 3, 2), (24, 4, 3, 2)]), pixels(12, 2)
    yield "second-data-truncated", build_header([(24, 4, 3, 2), (24, 4, 3, 2)]), pixels(12, 2) + pixels(12, 2)[:10]
    yield "shape-transposed", build_header([(24, 3, 4, 2)]), pixels(12, 2)
    yield "zero-record-length", build_header([(0, 4, 3, 2)]), pixels(12, 2)
    yield "zero-then-image", build_header([(0, 0, 0, 2), (24, 4, 3, 2)]), pixels(12, 2)

    # blank / negative / odd numbers
    yield "blank-record-length", build_header([("", 4, 3, 2)]), pixels(12, 2) + b"zz"
    yield "blank-record-length-13", build_header([("", 4, 3, 2)]), pixels(12, 2) + b"z"
    yield "blank-then-image", build_header([("", 1, 1, 1), (24, 4, 3, 2)]), pixels(12, 2) + b"z"
    yield "image-then-blank", build_header([(24, 4, 3, 2), ("", 23, 1, 1)]), pixels(12, 2) + b"z"
    yield "negative-record-length", build_header([(-4, 4, 2, 2)]), pixels(10, 2)
    yield "negative-then-positive", build_header([(-4, 3, 1, 2), (8, 2, 2, 2)]), pixels(10, 2)
    yield "blank-shape", build_header([(24, "", "", 2)]), pixels(12, 2)
    yield "blank-pixels", build_header([(24, "", 3, 2)]), pixels(12, 2)
    yield "blank-lines", build_header([(24, 4, "", 2)]), pixels(12, 2)
    yield "blank-sample-size", build_header([(24, 4, 3, "")]), pixels(12, 2)
    yield "zero-sample-size", build_header([(24, 4, 3, 0)]), pixels(12, 2)
    yield "sample-size-3", build_header([(24, 4, 2, 3)]), pixels(12, 2)
    yield "sample-size-16", build_header([(32, 2, 1, 16)]), pixels(16, 2)
    yield "all-blank-record", build_header([("", "", "", "")]), pixels(12, 2)
    yield "bad-number", build_header([("12ab", 4, 3, 2)]), pixels(12, 2)
    yield "bad-number-in-second", build_header([(24, 4, 3, 2), (24, "x", 3, 2)]), pixels(24, 2)

    # which error is reported when several images are broken
    yield "first-bad-dtype-second-bad-shape", build_header([(24, 4, 3, 3), (24, 5, 5, 2)]), pixels(24, 2)
    yield "first-bad-shape-second-bad-dtype", build_header([(24, 5, 5, 2), (24, 4, 3, 3)]), pixels(24, 2)
    yield "first-ok-second-bad-dtype", build_header([(24, 4, 3, 2), (24, 4, 3, 5)]), pixels(24, 2)
    yield "first-bad-size-second-bad-dtype", build_header([(23, 4, 3, 2), (24, 4, 3, 7)]), pixels(24, 2)

    # the count and the header itself
    yield "count-smaller", build_header([(24, 4, 3, 2), (24, 4, 3, 2)], count=1), pixels(24, 2)
    yield "count-larger", build_header([(24, 4, 3, 2)], count=2), pixels(24, 2)
    yield "count-blank", build_header([(24, 4, 3, 2)], count=""), pixels(24, 2)
    yield "count-negative", build_header([], count=-1), b""
    yield "count-bad", build_header([], count="many"), b""
    yield "count-9", build_header([(2, 1, 1, 2)] * 9, count=9, total=None), pixels(9, 2)
    yield "header-empty", b"", b""
    yield "header-short-11", build_header([])[:11], b""
    yield "header-short-300", build_header([(24, 4, 3, 2)])[:300], b""
    yield "header-short-510", build_header([(24, 4, 3, 2)])[:510], b""
    yield "header-short-600", build_header([(24, 4, 3, 2)])[:600], b""
    yield "header-short-719", build_header([(24, 4, 3, 2)])[:719], b""
    yield "header-zero-filled", build_header([(24, 4, 3, 2)], fill=b"\x00"), pixels(12, 2)
    yield "header-non-ascii", build_header([(24, 4, 3, 2)], fill=b"\xff"), pixels(12, 2)
    yield "header-all-zero", bytes(720), b""
    yield (
        "header-fields",
        build_header(
            [(24, 4, 3, 2)],
            fields={
                "ascii_ebcdic_code": "A",
                "format_control_document_id": "CEOS-SAR",
                "file_number": "   4",
                "file_id": "TRL-FILE",
                "record_sequence_and_location_type_flag": "FSEQ",
                "sequence_number_of_location": "       1",
                "field_length_of_sequence_number": "   4",
            },
        ),
        pixels(12, 2),
    )


def run():
    observations = []

    for name, header, data in cases():
        log = []
        outcome = observe_trailer(RecordingFile(header + data, log))
        observations.append(("case", name, outcome, list(log)))

    good_header = build_header([(24, 4, 3, 2), (40, 2, 5, 4)])
    good_data = pixels(12, 2) + pixels(10, 4, start=1000)
    good = good_header + good_data

    # other kinds of file objects
    observations.append(("bytesio", observe_trailer(io.BytesIO(good))))
    stream = io.BytesIO(b"prefix" + good)
    stream.seek(6)
    observations.append(("bytesio-offset", observe_trailer(stream), stream.tell(), stream.closed))
    stream = io.BytesIO(good)
    observations.append(("bytesio-twice", observe_trailer(stream), observe_trailer(stream), stream.tell()))
    observations.append(("buffered", observe_trailer(io.BufferedReader(io.BytesIO(good), buffer_size=64))))

    fs = fsspec.filesystem("memory")
    fs.store.clear()
    fs.pipe("/trailer/TRL-ALOS2225333100-180726-WWDR1.1__D", good)
    with fs.open("/trailer/TRL-ALOS2225333100-180726-WWDR1.1__D", mode="rb") as f:
        observations.append(("fsspec", observe_trailer(f), f.tell(), f.closed))
    fs.store.clear()

    closed = io.BytesIO(good)
    closed.close()
    observations.append(("closed", observe_trailer(closed)))
    observations.append(("text-file", observe_trailer(io.StringIO(good.decode("latin-1")))))
    observations.append(("none", observe_trailer(None)))
    observations.append(("bytes", observe_trailer(good)))

    # requests made to the file in unusual situations
    for label, kwargs in [
        ("position", {"position": 0}),
        ("short-reads", {"short_reads": True}),
        ("first-read-fails", {"fail_on": 1}),
        ("second-read-fails", {"fail_on": 2}),
    ]:
        log = []
        observations.append(("file", label, observe_trailer(RecordingFile(good, log, **kwargs)), list(log)))

    class Chunks:
        """returns other things than bytes"""

        def __init__(self, *results):
            self.results = list(results)
            self.log = []

        def read(self, *args):
            self.log.append(args)
            return self.results.pop(0)

    for label, second in [
        ("bytearray", bytearray(good_data)),
        ("memoryview", memoryview(good_data)),
        ("str", good_data.decode("latin-1")),
        ("none", None),
        ("list", list(good_data)),
        ("array", np.frombuffer(good_data, dtype="uint8")),
    ]:
        f = Chunks(good_header, second)
        observations.append(("second-read-returns", label, observe_trailer(f), list(f.log)))
    f = Chunks(bytearray(good_header), good_data)
    observations.append(("first-read-returns", "bytearray", observe_trailer(f), list(f.log)))
    f = Chunks(None, good_data)
    observations.append(("first-read-returns", "none", observe_trailer(f), list(f.log)))

    # module globals are looked up when reading
    saved = {name: getattr(sar_trailer, name) for name in ["parse_image_data", "file_descriptor_record"]}
    calls = []
    try:
        def recording(content, shape, n_bytes):
            calls.append((bytes(content), shape, n_bytes, type(content).__name__, type(shape).__name__, type(n_bytes).__name__))
            if n_bytes == 4:
                raise RuntimeError("no 4 byte samples")
            return len(calls)

        sar_trailer.parse_image_data = recording
        observations.append(("patched-parser", observe(sar_trailer.read_sar_trailer, io.BytesIO(good))[:60], list(calls)))
        del calls[:]
        ok = build_header([(3, 3, 1, 1), (4, 1, 2, 2), (1, 1, 1, 1)]) + b"abcdefgh"
        header, images = sar_trailer.read_sar_trailer(io.BytesIO(ok))
        observations.append(("patched-parser-ok", images, list(calls)))
        del calls[:]
    finally:
        for name, value in saved.items():
            setattr(sar_trailer, name, value)

    # the image parser on its own
    for content, shape, n_bytes in [
        (pixels(6, 2), (2, 3), 2),
        (pixels(6, 2), (3, 2), 2),
        (pixels(6, 2), (6,), 2),
        (pixels(6, 2), (12,), 1),
        (pixels(6, 2), (4, 3), 2),
        (pixels(6, 2), (-1, 3), 2),
        (b"", (0, 0), 2),
        (pixels(6, 2), (2, 3), 3),
        (pixels(6, 2), (2, 3), -1),
    ]:
        outcome = observe(sar_trailer.parse_image_data, content, shape, n_bytes)
        if outcome.startswith("RETURNED"):
            outcome = describe_array(sar_trailer.parse_image_data(content, shape, n_bytes))
        observations.append(("parse_image_data", shape, n_bytes, outcome))

    for name in ["read_sar_trailer", "parse_image_data", "file_descriptor_record", "itertools"]:
        observations.append(("name", name, hasattr(sar_trailer, name)))
    func = sar_trailer.read_sar_trailer
    observations.append(("function", func.__module__, func.__name__, func.__code__.co_varnames[: func.__code__.co_argcount]))
    observations.append(("kw", observe_trailer.__name__, describe_result(sar_trailer.read_sar_trailer(f=io.BytesIO(good)))[4]))

    return observations


# EXPECTED-BEGIN
EXPECTED = [['case',
  'no-images',
  ['tuple',
   'Container',
   "dict{'preamble': dict{'record_sequence_number': 1, 'first_record_subtype': 63, 'record_type': 192, 'second_record_subtype': 18, 'third_record_subtype': "
   "18, 'record_length': 720}, 'ascii_ebcdic_code': '', 'blanks1': '', 'format_control_document_id': '', 'format_control_document_revision_number': '', "
   "'record_format_revision_level': '', 'software_release_and_revision_number': '', 'file_number': -1, 'file_id': '', "
   "'record_sequence_and_location_type_flag': '', 'sequence_number_of_location': -1, 'field_length_of_sequence_number': -1, "
   "'record_code_and_location_type_flag': '', 'location_of_record_code': -1, 'field_length_of_record_code': -1, 'record_length_and_location_type_flag': '', "
   "'location_of_record_length': -1, 'field_length_of_record_length': -1, 'dataset_summary': dict{'number_of_records': -1, 'record_length': -1}, "
   "'map_projection': dict{'number_of_records': -1, 'record_length': -1}, 'platform_position': dict{'number_of_records': -1, 'record_length': -1}, 'attitude': "
   "dict{'number_of_records': -1, 'record_length': -1}, 'radiometric_data': dict{'number_of_records': -1, 'record_length': -1}, 'radiometric_compensation': "
   "dict{'number_of_records': -1, 'record_length': -1}, 'data_quality_summary': dict{'number_of_records': -1, 'record_length': -1}, 'data_histogram': "
   "dict{'number_of_records': -1, 'record_length': -1}, 'range_spectra': dict{'number_of_records': -1, 'record_length': -1}, 'dem_descriptor': "
   "dict{'number_of_records': -1, 'record_length': -1}, 'radar_parameter_update': dict{'number_of_records': -1, 'record_length': -1}, 'annotation_data': "
   "dict{'number_of_records': -1, 'record_length': -1}, 'detail_processing': dict{'number_of_records': -1, 'record_length': -1}, 'calibration': "
   "dict{'number_of_records': -1, 'record_length': -1}, 'gcp': dict{'number_of_records': -1, 'record_length': -1}, 'spare': '', 'facility_related_data_1': "
   "dict{'number_of_records': -1, 'record_length': -1}, 'facility_related_data_2': dict{'number_of_records': -1, 'record_length': -1}, "
   "'facility_related_data_3': dict{'number_of_records': -1, 'record_length': -1}, 'facility_related_data_4': dict{'number_of_records': -1, 'record_length': "
   "-1}, 'facility_related_data_5': dict{'number_of_records': -1, 'record_length': -1}, 'number_of_low_resolution_images': 0, 'low_resolution_image_sizes': "
   "list[], 'blanks': ''}",
   'list',
   []],
  [('read', 720, 0), ('read', -1, 720)]],
 ['case',
  'no-images-trailing-data',
  ['tuple',
   'Container',
   "dict{'preamble': dict{'record_sequence_number': 1, 'first_record_subtype': 63, 'record_type': 192, 'second_record_subtype': 18, 'third_record_subtype': "
   "18, 'record_length': 720}, 'ascii_ebcdic_code': '', 'blanks1': '', 'format_control_document_id': '', 'format_control_document_revision_number': '', "
   "'record_format_revision_level': '', 'software_release_and_revision_number': '', 'file_number': -1, 'file_id': '', "
   "'record_sequence_and_location_type_flag': '', 'sequence_number_of_location': -1, 'field_length_of_sequence_number': -1, "
   "'record_code_and_location_type_flag': '', 'location_of_record_code': -1, 'field_length_of_record_code': -1, 'record_length_and_location_type_flag': '', "
   "'location_of_record_length': -1, 'field_length_of_record_length': -1, 'dataset_summary': dict{'number_of_records': -1, 'record_length': -1}, "
   "'map_projection': dict{'number_of_records': -1, 'record_length': -1}, 'platform_position': dict{'number_of_records': -1, 'record_length': -1}, 'attitude': "
   "dict{'number_of_records': -1, 'record_length': -1}, 'radiometric_data': dict{'number_of_records': -1, 'record_length': -1}, 'radiometric_compensation': "
   "dict{'number_of_records': -1, 'record_length': -1}, 'data_quality_summary': dict{'number_of_records': -1, 'record_length': -1}, 'data_histogram': "
   "dict{'number_of_records': -1, 'record_length': -1}, 'range_spectra': dict{'number_of_records': -1, 'record_length': -1}, 'dem_descriptor': "
   "dict{'number_of_records': -1, 'record_length': -1}, 'radar_parameter_update': dict{'number_of_records': -1, 'record_length': -1}, 'annotation_data': "
   "dict{'number_of_records': -1, 'record_length': -1}, 'detail_processing': dict{'number_of_records': -1, 'record_length': -1}, 'calibration': "
   "dict{'number_of_records': -1, 'record_length': -1}, 'gcp': dict{'number_of_records': -1, 'record_length': -1}, 'spare': '', 'facility_related_data_1': "
   "dict{'number_of_records': -1, 'record_length': -1}, 'facility_related_data_2': dict{'number_of_records': -1, 'record_length': -1}, "
   "'facility_related_data_3': dict{'number_of_records': -1, 'record_length': -1}, 'facility_related_data_4': dict{'number_of_records': -1, 'record_length': "
   "-1}, 'facility_related_data_5': dict{'number_of_records': -1, 'record_length': -1}, 'number_of_low_resolution_images': 0, 'low_resolution_image_sizes': "
   "list[], 'blanks': ''}",
   'list',
   []],
  [('read', 720, 0), ('read', -1, 720)]],
 ['case',
  'one-image-i2',
  ['tuple',
   'Container',
   "dict{'preamble': dict{'record_sequence_number': 1, 'first_record_subtype': 63, 'record_type': 192, 'second_record_subtype': 18, 'third_record_subtype': "
   "18, 'record_length': 720}, 'ascii_ebcdic_code': '', 'blanks1': '', 'format_control_document_id': '', 'format_control_document_revision_number': '', "
   "'record_format_revision_level': '', 'software_release_and_revision_number': '', 'file_number': -1, 'file_id': '', "
   "'record_sequence_and_location_type_flag': '', 'sequence_number_of_location': -1, 'field_length_of_sequence_number': -1, "
   "'record_code_and_location_type_flag': '', 'location_of_record_code': -1, 'field_length_of_record_code': -1, 'record_length_and_location_type_flag': '', "
   "'location_of_record_length': -1, 'field_length_of_record_length': -1, 'dataset_summary': dict{'number_of_records': -1, 'record_length': -1}, "
   "'map_projection': dict{'number_of_records': -1, 'record_length': -1}, 'platform_position': dict{'number_of_records': -1, 'record_length': -1}, 'attitude': "
   "dict{'number_of_records': -1, 'record_length': -1}, 'radiometric_data': dict{'number_of_records': -1, 'record_length': -1}, 'radiometric_compensation': "
   "dict{'number_of_records': -1, 'record_length': -1}, 'data_quality_summary': dict{'number_of_records': -1, 'record_length': -1}, 'data_histogram': "
   "dict{'number_of_records': -1, 'record_length': -1}, 'range_spectra': dict{'number_of_records': -1, 'record_length': -1}, 'dem_descriptor': "
   "dict{'number_of_records': -1, 'record_length': -1}, 'radar_parameter_update': dict{'number_of_records': -1, 'record_length': -1}, 'annotation_data': "
   "dict{'number_of_records': -1, 'record_length': -1}, 'detail_processing': dict{'number_of_records': -1, 'record_length': -1}, 'calibration': "
   "dict{'number_of_records': -1, 'record_length': -1}, 'gcp': dict{'number_of_records': -1, 'record_length': -1}, 'spare': '', 'facility_related_data_1': "
   "dict{'number_of_records': -1, 'record_length': -1}, 'facility_related_data_2': dict{'number_of_records': -1, 'record_length': -1}, "
   "'facility_related_data_3': dict{'number_of_records': -1, 'record_length': -1}, 'facility_related_data_4': dict{'number_of_records': -1, 'record_length': "
   "-1}, 'facility_related_data_5': dict{'number_of_records': -1, 'record_length': -1}, 'number_of_low_resolution_images': 1, 'low_resolution_image_sizes': "
   "list[dict{'record_length': 24, 'number_of_pixels': 4, 'number_of_lines': 3, 'number_of_bytes_per_one_sample': 2}], 'blanks': ''}",
   'list',
   ['ndarray(dtype=>i2, shape=(4, 3), writeable=False, c=True, owndata=False, base=ndarray, values=[[0, -37, 74], [-111, 148, -185], [222, -259, 296], [-333, '
    '370, -407]])']],
  [('read', 720, 0), ('read', -1, 720)]],
 ['case',
  'one-image-i1',
  ['tuple',
   'Container',
   "dict{'preamble': dict{'record_sequence_number': 1, 'first_record_subtype': 63, 'record_type': 192, 'second_record_subtype': 18, 'third_record_subtype': "
   "18, 'record_length': 720}, 'ascii_ebcdic_code': '', 'blanks1': '', 'format_control_document_id': '', 'format_control_document_revision_number': '', "
   "'record_format_revision_level': '', 'software_release_and_revision_number': '', 'file_number': -1, 'file_id': '', "
   "'record_sequence_and_location_type_flag': '', 'sequence_number_of_location': -1, 'field_length_of_sequence_number': -1, "
   "'record_code_and_location_type_flag': '', 'location_of_record_code': -1, 'field_length_of_record_code': -1, 'record_length_and_location_type_flag': '', "
   "'location_of_record_length': -1, 'field_length_of_record_length': -1, 'dataset_summary': dict{'number_of_records': -1, 'record_length': -1}, "
   "'map_projection': dict{'number_of_records': -1, 'record_length': -1}, 'platform_position': dict{'number_of_records': -1, 'record_length': -1}, 'attitude': "
   "dict{'number_of_records': -1, 'record_length': -1}, 'radiometric_data': dict{'number_of_records': -1, 'record_length': -1}, 'radiometric_compensation': "
   "dict{'number_of_records': -1, 'record_length': -1}, 'data_quality_summary': dict{'number_of_records': -1, 'record_length': -1}, 'data_histogram': "
   "dict{'number_of_records': -1, 'record_length': -1}, 'range_spectra': dict{'number_of_records': -1, 'record_length': -1}, 'dem_descriptor': "
   "dict{'number_of_records': -1, 'record_length': -1}, 'radar_parameter_update': dict{'number_of_records': -1, 'record_length': -1}, 'annotation_data': "
   "dict{'number_of_records': -1, 'record_length': -1}, 'detail_processing': dict{'number_of_records': -1, 'record_length': -1}, 'calibration': "
   "dict{'number_of_records': -1, 'record_length': -1}, 'gcp': dict{'number_of_records': -1, 'record_length': -1}, 'spare': '', 'facility_related_data_1': "
   "dict{'number_of_records': -1, 'record_length': -1}, 'facility_related_data_2': dict{'number_of_records': -1, 'record_length': -1}, "
   "'facility_related_data_3': dict{'number_of_records': -1, 'record_length': -1}, 'facility_related_data_4': dict{'number_of_records': -1, 'record_length': "
   "-1}, 'facility_related_data_5': dict{'number_of_records': -1, 'record_length': -1}, 'number_of_low_resolution_images': 1, 'low_resolution_image_sizes': "
   "list[dict{'record_length': 12, 'number_of_pixels': 4, 'number_of_lines': 3, 'number_of_bytes_per_one_sample': 1}], 'blanks': ''}",
   'list',
   ['ndarray(dtype=|i1, shape=(4, 3), writeable=False, c=True, owndata=False, base=ndarray, values=[[0, -37, 74], [-111, -108, 71], [-34, -3, 40], [-77, 114, '
    '105]])']],
  [('read', 720, 0), ('read', -1, 720)]],
 ['case',
  'one-image-i4',
  ['tuple',
   'Container',
   "dict{'preamble': dict{'record_sequence_number': 1, 'first_record_subtype': 63, 'record_type': 192, 'second_record_subtype': 18, 'third_record_subtype': "
   "18, 'record_length': 720}, 'ascii_ebcdic_code': '', 'blanks1': '', 'format_control_document_id': '', 'format_control_document_revision_number': '', "
   "'record_format_revision_level': '', 'software_release_and_revision_number': '', 'file_number': -1, 'file_id': '', "
   "'record_sequence_and_location_type_flag': '', 'sequence_number_of_location': -1, 'field_length_of_sequence_number': -1, "
   "'record_code_and_location_type_flag': '', 'location_of_record_code': -1, 'field_length_of_record_code': -1, 'record_length_and_location_type_flag': '', "
   "'location_of_record_length': -1, 'field_length_of_record_length': -1, 'dataset_summary': dict{'number_of_records': -1, 'record_length': -1}, "
   "'map_projection': dict{'number_of_records': -1, 'record_length': -1}, 'platform_position': dict{'number_of_records': -1, 'record_length': -1}, 'attitude': "
   "dict{'number_of_records': -1, 'record_length': -1}, 'radiometric_data': dict{'number_of_records': -1, 'record_length': -1}, 'radiometric_compensation': "
   "dict{'number_of_records': -1, 'record_length': -1}, 'data_quality_summary': dict{'number_of_records': -1, 'record_length': -1}, 'data_histogram': "
   "dict{'number_of_records': -1, 'record_length': -1}, 'range_spectra': dict{'number_of_records': -1, 'record_length': -1}, 'dem_descriptor': "
   "dict{'number_of_records': -1, 'record_length': -1}, 'radar_parameter_update': dict{'number_of_records': -1, 'record_length': -1}, 'annotation_data': "
   "dict{'number_of_records': -1, 'record_length': -1}, 'detail_processing': dict{'number_of_records': -1, 'record_length': -1}, 'calibration': "
   "dict{'number_of_records': -1, 'record_length': -1}, 'gcp': dict{'number_of_records': -1, 'record_length': -1}, 'spare': '', 'facility_related_data_1': "
   "dict{'number_of_records': -1, 'record_length': -1}, 'facility_related_data_2': dict{'number_of_records': -1, 'record_length': -1}, "
   "'facility_related_data_3': dict{'number_of_records': -1, 'record_length': -1}, 'facility_related_data_4': dict{'number_of_records': -1, 'record_length': "
   "-1}, 'facility_related_data_5': dict{'number_of_records': -1, 'record_length': -1}, 'number_of_low_resolution_images': 1, 'low_resolution_image_sizes': "
   "list[dict{'record_length': 48, 'number_of_pixels': 3, 'number_of_lines': 4, 'number_of_bytes_per_one_sample': 4}], 'blanks': ''}",
   'list',
   ['ndarray(dtype=>i4, shape=(3, 4), writeable=False, c=True, owndata=False, base=ndarray, values=[[0, -37, 74, -111], [148, -185, 222, -259], [296, -333, '
    '370, -407]])']],
  [('read', 720, 0), ('read', -1, 720)]],
 ['case',
  'one-image-i8',
  ['tuple',
   'Container',
   "dict{'preamble': dict{'record_sequence_number': 1, 'first_record_subtype': 63, 'record_type': 192, 'second_record_subtype': 18, 'third_record_subtype': "
   "18, 'record_length': 720}, 'ascii_ebcdic_code': '', 'blanks1': '', 'format_control_document_id': '', 'format_control_document_revision_number': '', "
   "'record_format_revision_level': '', 'software_release_and_revision_number': '', 'file_number': -1, 'file_id': '', "
   "'record_sequence_and_location_type_flag': '', 'sequence_number_of_location': -1, 'field_length_of_sequence_number': -1, "
   "'record_code_and_location_type_flag': '', 'location_of_record_code': -1, 'field_length_of_record_code': -1, 'record_length_and_location_type_flag': '', "
   "'location_of_record_length': -1, 'field_length_of_record_length': -1, 'dataset_summary': dict{'number_of_records': -1, 'record_length': -1}, "
   "'map_projection': dict{'number_of_records': -1, 'record_length': -1}, 'platform_position': dict{'number_of_records': -1, 'record_length': -1}, 'attitude': "
   "dict{'number_of_records': -1, 'record_length': -1}, 'radiometric_data': dict{'number_of_records': -1, 'record_length': -1}, 'radiometric_compensation': "
   "dict{'number_of_records': -1, 'record_length': -1}, 'data_quality_summary': dict{'number_of_records': -1, 'record_length': -1}, 'data_histogram': "
   "dict{'number_of_records': -1, 'record_length': -1}, 'range_spectra': dict{'number_of_records': -1, 'record_length': -1}, 'dem_descriptor': "
   "dict{'number_of_records': -1, 'record_length': -1}, 'radar_parameter_update': dict{'number_of_records': -1, 'record_length': -1}, 'annotation_data': "
   "dict{'number_of_records': -1, 'record_length': -1}, 'detail_processing': dict{'number_of_records': -1, 'record_length': -1}, 'calibration': "
   "dict{'number_of_records': -1, 'record_length': -1}, 'gcp': dict{'number_of_records': -1, 'record_length': -1}, 'spare': '', 'facility_related_data_1': "
   "dict{'number_of_records': -1, 'record_length': -1}, 'facility_related_data_2': dict{'number_of_records': -1, 'record_length': -1}, "
   "'facility_related_data_3': dict{'number_of_records': -1, 'record_length': -1}, 'facility_related_data_4': dict{'number_of_records': -1, 'record_length': "
   "-1}, 'facility_related_data_5': dict{'number_of_records': -1, 'record_length': -1}, 'number_of_low_resolution_images': 1, 'low_resolution_image_sizes': "
   "list[dict{'record_length': 96, 'number_of_pixels': 6, 'number_of_lines': 2, 'number_of_bytes_per_one_sample': 8}], 'blanks': ''}",
   'list',
   ['ndarray(dtype=>i8, shape=(6, 2), writeable=False, c=True, owndata=False, base=ndarray, values=[[0, -37], [74, -111], [148, -185], [222, -259], [296, '
    '-333], [370, -407]])']],
  [('read', 720, 0), ('read', -1, 720)]],
 ['case',
  'one-image-1x1',
  ['tuple',
   'Container',
   "dict{'preamble': dict{'record_sequence_number': 1, 'first_record_subtype': 63, 'record_type': 192, 'second_record_subtype': 18, 'third_record_subtype': "
   "18, 'record_length': 720}, 'ascii_ebcdic_code': '', 'blanks1': '', 'format_control_document_id': '', 'format_control_document_revision_number': '', "
   "'record_format_revision_level': '', 'software_release_and_revision_number': '', 'file_number': -1, 'file_id': '', "
   "'record_sequence_and_location_type_flag': '', 'sequence_number_of_location': -1, 'field_length_of_sequence_number': -1, "
   "'record_code_and_location_type_flag': '', 'location_of_record_code': -1, 'field_length_of_record_code': -1, 'record_length_and_location_type_flag': '', "
   "'location_of_record_length': -1, 'field_length_of_record_length': -1, 'dataset_summary': dict{'number_of_records': -1, 'record_length': -1}, "
   "'map_projection': dict{'number_of_records': -1, 'record_length': -1}, 'platform_position': dict{'number_of_records': -1, 'record_length': -1}, 'attitude': "
   "dict{'number_of_records': -1, 'record_length': -1}, 'radiometric_data': dict{'number_of_records': -1, 'record_length': -1}, 'radiometric_compensation': "
   "dict{'number_of_records': -1, 'record_length': -1}, 'data_quality_summary': dict{'number_of_records': -1, 'record_length': -1}, 'data_histogram': "
   "dict{'number_of_records': -1, 'record_length': -1}, 'range_spectra': dict{'number_of_records': -1, 'record_length': -1}, 'dem_descriptor': "
   "dict{'number_of_records': -1, 'record_length': -1}, 'radar_parameter_update': dict{'number_of_records': -1, 'record_length': -1}, 'annotation_data': "
   "dict{'number_of_records': -1, 'record_length': -1}, 'detail_processing': dict{'number_of_records': -1, 'record_length': -1}, 'calibration': "
   "dict{'number_of_records': -1, 'record_length': -1}, 'gcp': dict{'number_of_records': -1, 'record_length': -1}, 'spare': '', 'facility_related_data_1': "
   "dict{'number_of_records': -1, 'record_length': -1}, 'facility_related_data_2': dict{'number_of_records': -1, 'record_length': -1}, "
   "'facility_related_data_3': dict{'number_of_records': -1, 'record_length': -1}, 'facility_related_data_4': dict{'number_of_records': -1, 'record_length': "
   "-1}, 'facility_related_data_5': dict{'number_of_records': -1, 'record_length': -1}, 'number_of_low_resolution_images': 1, 'low_resolution_image_sizes': "
   "list[dict{'record_length': 2, 'number_of_pixels': 1, 'number_of_lines': 1, 'number_of_bytes_per_one_sample': 2}], 'blanks': ''}",
   'list',
   ['ndarray(dtype=>i2, shape=(1, 1), writeable=False, c=True, owndata=False, base=ndarray, values=[[-5]])']],
  [('read', 720, 0), ('read', -1, 720)]],
 ['case',
  'one-image-empty',
  ['tuple',
   'Container',
   "dict{'preamble': dict{'record_sequence_number': 1, 'first_record_subtype': 63, 'record_type': 192, 'second_record_subtype': 18, 'third_record_subtype': "
   "18, 'record_length': 720}, 'ascii_ebcdic_code': '', 'blanks1': '', 'format_control_document_id': '', 'format_control_document_revision_number': '', "
   "'record_format_revision_level': '', 'software_release_and_revision_number': '', 'file_number': -1, 'file_id': '', "
   "'record_sequence_and_location_type_flag': '', 'sequence_number_of_location': -1, 'field_length_of_sequence_number': -1, "
   "'record_code_and_location_type_flag': '', 'location_of_record_code': -1, 'field_length_of_record_code': -1, 'record_length_and_location_type_flag': '', "
   "'location_of_record_length': -1, 'field_length_of_record_length': -1, 'dataset_summary': dict{'number_of_records': -1, 'record_length': -1}, "
   "'map_projection': dict{'number_of_records': -1, 'record_length': -1}, 'platform_position': dict{'number_of_records': -1, 'record_length': -1}, 'attitude': "
   "dict{'number_of_records': -1, 'record_length': -1}, 'radiometric_data': dict{'number_of_records': -1, 'record_length': -1}, 'radiometric_compensation': "
   "dict{'number_of_records': -1, 'record_length': -1}, 'data_quality_summary': dict{'number_of_records': -1, 'record_length': -1}, 'data_histogram': "
   "dict{'number_of_records': -1, 'record_length': -1}, 'range_spectra': dict{'number_of_records': -1, 'record_length': -1}, 'dem_descriptor': "
   "dict{'number_of_records': -1, 'record_length': -1}, 'radar_parameter_update': dict{'number_of_records': -1, 'record_length': -1}, 'annotation_data': "
   "dict{'number_of_records': -1, 'record_length': -1}, 'detail_processing': dict{'number_of_records': -1, 'record_length': -1}, 'calibration': "
   "dict{'number_of_records': -1, 'record_length': -1}, 'gcp': dict{'number_of_records': -1, 'record_length': -1}, 'spare': '', 'facility_related_data_1': "
   "dict{'number_of_records': -1, 'record_length': -1}, 'facility_related_data_2': dict{'number_of_records': -1, 'record_length': -1}, "
   "'facility_related_data_3': dict{'number_of_records': -1, 'record_length': -1}, 'facility_related_data_4': dict{'number_of_records': -1, 'record_length': "
   "-1}, 'facility_related_data_5': dict{'number_of_records': -1, 'record_length': -1}, 'number_of_low_resolution_images': 1, 'low_resolution_image_sizes': "
   "list[dict{'record_length': 0, 'number_of_pixels': 0, 'number_of_lines': 0, 'number_of_bytes_per_one_sample': 2}], 'blanks': ''}",
   'list',
   ['ndarray(dtype=>i2, shape=(0, 0), writeable=False, c=True, owndata=False, base=ndarray, values=[])']],
  [('read', 720, 0), ('read', -1, 720)]],
 ['case',
  'one-image-empty-rows',
  ['tuple',
   'Container',
   "dict{'preamble': dict{'record_sequence_number': 1, 'first_record_subtype': 63, 'record_type': 192, 'second_record_subtype': 18, 'third_record_subtype': "
   "18, 'record_length': 720}, 'ascii_ebcdic_code': '', 'blanks1': '', 'format_control_document_id': '', 'format_control_document_revision_number': '', "
   "'record_format_revision_level': '', 'software_release_and_revision_number': '', 'file_number': -1, 'file_id': '', "
   "'record_sequence_and_location_type_flag': '', 'sequence_number_of_location': -1, 'field_length_of_sequence_number': -1, "
   "'record_code_and_location_type_flag': '', 'location_of_record_code': -1, 'field_length_of_record_code': -1, 'record_length_and_location_type_flag': '', "
   "'location_of_record_length': -1, 'field_length_of_record_length': -1, 'dataset_summary': dict{'number_of_records': -1, 'record_length': -1}, "
   "'map_projection': dict{'number_of_records': -1, 'record_length': -1}, 'platform_position': dict{'number_of_records': -1, 'record_length': -1}, 'attitude': "
   "dict{'number_of_records': -1, 'record_length': -1}, 'radiometric_data': dict{'number_of_records': -1, 'record_length': -1}, 'radiometric_compensation': "
   "dict{'number_of_records': -1, 'record_length': -1}, 'data_quality_summary': dict{'number_of_records': -1, 'record_length': -1}, 'data_histogram': "
   "dict{'number_of_records': -1, 'record_length': -1}, 'range_spectra': dict{'number_of_records': -1, 'record_length': -1}, 'dem_descriptor': "
   "dict{'number_of_records': -1, 'record_length': -1}, 'radar_parameter_update': dict{'number_of_records': -1, 'record_length': -1}, 'annotation_data': "
   "dict{'number_of_records': -1, 'record_length': -1}, 'detail_processing': dict{'number_of_records': -1, 'record_length': -1}, 'calibration': "
   "dict{'number_of_records': -1, 'record_length': -1}, 'gcp': dict{'number_of_records': -1, 'record_length': -1}, 'spare': '', 'facility_related_data_1': "
   "dict{'number_of_records': -1, 'record_length': -1}, 'facility_related_data_2': dict{'number_of_records': -1, 'record_length': -1}, "
   "'facility_related_data_3': dict{'number_of_records': -1, 'record_length': -1}, 'facility_related_data_4': dict{'number_of_records': -1, 'record_length': "
   "-1}, 'facility_related_data_5': dict{'number_of_records': -1, 'record_length': -1}, 'number_of_low_resolution_images': 1, 'low_resolution_image_sizes': "
   "list[dict{'record_length': 0, 'number_of_pixels': 0, 'number_of_lines': 5, 'number_of_bytes_per_one_sample': 2}], 'blanks': ''}",
   'list',
   ['ndarray(dtype=>i2, shape=(0, 5), writeable=False, c=True, owndata=False, base=ndarray, values=[])']],
  [('read', 720, 0), ('read', -1, 720)]],
 ['case',
  'one-image-trailing-data',
  ['tuple',
   'Container',
   "dict{'preamble': dict{'record_sequence_number': 1, 'first_record_subtype': 63, 'record_type': 192, 'second_record_subtype': 18, 'third_record_subtype': "
   "18, 'record_length': 720}, 'ascii_ebcdic_code': '', 'blanks1': '', 'format_control_document_id': '', 'format_control_document_revision_number': '', "
   "'record_format_revision_level': '', 'software_release_and_revision_number': '', 'file_number': -1, 'file_id': '', "
   "'record_sequence_and_location_type_flag': '', 'sequence_number_of_location': -1, 'field_length_of_sequence_number': -1, "
   "'record_code_and_location_type_flag': '', 'location_of_record_code': -1, 'field_length_of_record_code': -1, 'record_length_and_location_type_flag': '', "
   "'location_of_record_length': -1, 'field_length_of_record_length': -1, 'dataset_summary': dict{'number_of_records': -1, 'record_length': -1}, "
   "'map_projection': dict{'number_of_records': -1, 'record_length': -1}, 'platform_position': dict{'number_of_records': -1, 'record_length': -1}, 'attitude': "
   "dict{'number_of_records': -1, 'record_length': -1}, 'radiometric_data': dict{'number_of_records': -1, 'record_length': -1}, 'radiometric_compensation': "
   "dict{'number_of_records': -1, 'record_length': -1}, 'data_quality_summary': dict{'number_of_records': -1, 'record_length': -1}, 'data_histogram': "
   "dict{'number_of_records': -1, 'record_length': -1}, 'range_spectra': dict{'number_of_records': -1, 'record_length': -1}, 'dem_descriptor': "
   "dict{'number_of_records': -1, 'record_length': -1}, 'radar_parameter_update': dict{'number_of_records': -1, 'record_length': -1}, 'annotation_data': "
   "dict{'number_of_records': -1, 'record_length': -1}, 'detail_processing': dict{'number_of_records': -1, 'record_length': -1}, 'calibration': "
   "dict{'number_of_records': -1, 'record_length': -1}, 'gcp': dict{'number_of_records': -1, 'record_length': -1}, 'spare': '', 'facility_related_data_1': "
   "dict{'number_of_records': -1, 'record_length': -1}, 'facility_related_data_2': dict{'number_of_records': -1, 'record_length': -1}, "
   "'facility_related_data_3': dict{'number_of_records': -1, 'record_length': -1}, 'facility_related_data_4': dict{'number_of_records': -1, 'record_length': "
   "-1}, 'facility_related_data_5': dict{'number_of_records': -1, 'record_length': -1}, 'number_of_low_resolution_images': 1, 'low_resolution_image_sizes': "
   "list[dict{'record_length': 24, 'number_of_pixels': 4, 'number_of_lines': 3, 'number_of_bytes_per_one_sample': 2}], 'blanks': ''}",
   'list',
   ['ndarray(dtype=>i2, shape=(4, 3), writeable=False, c=True, owndata=False, base=ndarray, values=[[0, -37, 74], [-111, 148, -185], [222, -259, 296], [-333, '
    '370, -407]])']],
  [('read', 720, 0), ('read', -1, 720)]],
 ['case',
  'two-images',
  ['tuple',
   'Container',
   "dict{'preamble': dict{'record_sequence_number': 1, 'first_record_subtype': 63, 'record_type': 192, 'second_record_subtype': 18, 'third_record_subtype': "
   "18, 'record_length': 720}, 'ascii_ebcdic_code': '', 'blanks1': '', 'format_control_document_id': '', 'format_control_document_revision_number': '', "
   "'record_format_revision_level': '', 'software_release_and_revision_number': '', 'file_number': -1, 'file_id': '', "
   "'record_sequence_and_location_type_flag': '', 'sequence_number_of_location': -1, 'field_length_of_sequence_number': -1, "
   "'record_code_and_location_type_flag': '', 'location_of_record_code': -1, 'field_length_of_record_code': -1, 'record_length_and_location_type_flag': '', "
   "'location_of_record_length': -1, 'field_length_of_record_length': -1, 'dataset_summary': dict{'number_of_records': -1, 'record_length': -1}, "
   "'map_projection': dict{'number_of_records': -1, 'record_length': -1}, 'platform_position': dict{'number_of_records': -1, 'record_length': -1}, 'attitude': "
   "dict{'number_of_records': -1, 'record_length': -1}, 'radiometric_data': dict{'number_of_records': -1, 'record_length': -1}, 'radiometric_compensation': "
   "dict{'number_of_records': -1, 'record_length': -1}, 'data_quality_summary': dict{'number_of_records': -1, 'record_length': -1}, 'data_histogram': "
   "dict{'number_of_records': -1, 'record_length': -1}, 'range_spectra': dict{'number_of_records': -1, 'record_length': -1}, 'dem_descriptor': "
   "dict{'number_of_records': -1, 'record_length': -1}, 'radar_parameter_update': dict{'number_of_records': -1, 'record_length': -1}, 'annotation_data': "
   "dict{'number_of_records': -1, 'record_length': -1}, 'detail_processing': dict{'number_of_records': -1, 'record_length': -1}, 'calibration': "
   "dict{'number_of_records': -1, 'record_length': -1}, 'gcp': dict{'number_of_records': -1, 'record_length': -1}, 'spare': '', 'facility_related_data_1': "
   "dict{'number_of_records': -1, 'record_length': -1}, 'facility_related_data_2': dict{'number_of_records': -1, 'record_length': -1}, "
   "'facility_related_data_3': dict{'number_of_records': -1, 'record_length': -1}, 'facility_related_data_4': dict{'number_of_records': -1, 'record_length': "
   "-1}, 'facility_related_data_5': dict{'number_of_records': -1, 'record_length': -1}, 'number_of_low_resolution_images': 2, 'low_resolution_image_sizes': "
   "list[dict{'record_length': 24, 'number_of_pixels': 4, 'number_of_lines': 3, 'number_of_bytes_per_one_sample': 2}, dict{'record_length': 40, "
   "'number_of_pixels': 2, 'number_of_lines': 5, 'number_of_bytes_per_one_sample': 4}], 'blanks': ''}",
   'list',
   ['ndarray(dtype=>i2, shape=(4, 3), writeable=False, c=True, owndata=False, base=ndarray, values=[[0, -37, 74], [-111, 148, -185], [222, -259, 296], [-333, '
    '370, -407]])',
    'ndarray(dtype=>i4, shape=(2, 5), writeable=False, c=True, owndata=False, base=ndarray, values=[[1000, -1037, 1074, -1111, 1148], [-1185, 1222, -1259, '
    '1296, -1333]])']],
  [('read', 720, 0), ('read', -1, 720)]],
 ['case',
  'three-images-mixed',
  ['tuple',
   'Container',
   "dict{'preamble': dict{'record_sequence_number': 1, 'first_record_subtype': 63, 'record_type': 192, 'second_record_subtype': 18, 'third_record_subtype': "
   "18, 'record_length': 720}, 'ascii_ebcdic_code': '', 'blanks1': '', 'format_control_document_id': '', 'format_control_document_revision_number': '', "
   "'record_format_revision_level': '', 'software_release_and_revision_number': '', 'file_number': -1, 'file_id': '', "
   "'record_sequence_and_location_type_flag': '', 'sequence_number_of_location': -1, 'field_length_of_sequence_number': -1, "
   "'record_code_and_location_type_flag': '', 'location_of_record_code': -1, 'field_length_of_record_code': -1, 'record_length_and_location_type_flag': '', "
   "'location_of_record_length': -1, 'field_length_of_record_length': -1, 'dataset_summary': dict{'number_of_records': -1, 'record_length': -1}, "
   "'map_projection': dict{'number_of_records': -1, 'record_length': -1}, 'platform_position': dict{'number_of_records': -1, 'record_length': -1}, 'attitude': "
   "dict{'number_of_records': -1, 'record_length': -1}, 'radiometric_data': dict{'number_of_records': -1, 'record_length': -1}, 'radiometric_compensation': "
   "dict{'number_of_records': -1, 'record_length': -1}, 'data_quality_summary': dict{'number_of_records': -1, 'record_length': -1}, 'data_histogram': "
   "dict{'number_of_records': -1, 'record_length': -1}, 'range_spectra': dict{'number_of_records': -1, 'record_length': -1}, 'dem_descriptor': "
   "dict{'number_of_records': -1, 'record_length': -1}, 'radar_parameter_update': dict{'number_of_records': -1, 'record_length': -1}, 'annotation_data': "
   "dict{'number_of_records': -1, 'record_length': -1}, 'detail_processing': dict{'number_of_records': -1, 'record_length': -1}, 'calibration': "
   "dict{'number_of_records': -1, 'record_length': -1}, 'gcp': dict{'number_of_records': -1, 'record_length': -1}, 'spare': '', 'facility_related_data_1': "
   "dict{'number_of_records': -1, 'record_length': -1}, 'facility_related_data_2': dict{'number_of_records': -1, 'record_length': -1}, "
   "'facility_related_data_3': dict{'number_of_records': -1, 'record_length': -1}, 'facility_related_data_4': dict{'number_of_records': -1, 'record_length': "
   "-1}, 'facility_related_data_5': dict{'number_of_records': -1, 'record_length': -1}, 'number_of_low_resolution_images': 3, 'low_resolution_image_sizes': "
   "list[dict{'record_length': 6, 'number_of_pixels': 3, 'number_of_lines': 2, 'number_of_bytes_per_one_sample': 1}, dict{'record_length': 32, "
   "'number_of_pixels': 2, 'number_of_lines': 2, 'number_of_bytes_per_one_sample': 8}, dict{'record_length': 12, 'number_of_pixels': 1, 'number_of_lines': 6, "
   "'number_of_bytes_per_one_sample': 2}], 'blanks': ''}",
   'list',
   ['ndarray(dtype=|i1, shape=(3, 2), writeable=False, c=True, owndata=False, base=ndarray, values=[[0, -37], [74, -111], [-108, 71]])',
    'ndarray(dtype=>i8, shape=(2, 2), writeable=False, c=True, owndata=False, base=ndarray, values=[[1099511627776, -1099511627813], [1099511627850, '
    '-1099511627887]])',
    'ndarray(dtype=>i2, shape=(1, 6), writeable=False, c=True, owndata=False, base=ndarray, values=[[7, -44, 81, -118, 155, -192]])']],
  [('read', 720, 0), ('read', -1, 720)]],
 ['case',
  'seven-images',
  ['tuple',
   'Container',
   "dict{'preamble': dict{'record_sequence_number': 1, 'first_record_subtype': 63, 'record_type': 192, 'second_record_subtype': 18, 'third_record_subtype': "
   "18, 'record_length': 720}, 'ascii_ebcdic_code': '', 'blanks1': '', 'format_control_document_id': '', 'format_control_document_revision_number': '', "
   "'record_format_revision_level': '', 'software_release_and_revision_number': '', 'file_number': -1, 'file_id': '', "
   "'record_sequence_and_location_type_flag': '', 'sequence_number_of_location': -1, 'field_length_of_sequence_number': -1, "
   "'record_code_and_location_type_flag': '', 'location_of_record_code': -1, 'field_length_of_record_code': -1, 'record_length_and_location_type_flag': '', "
   "'location_of_record_length': -1, 'field_length_of_record_length': -1, 'dataset_summary': dict{'number_of_records': -1, 'record_length': -1}, "
   "'map_projection': dict{'number_of_records': -1, 'record_length': -1}, 'platform_position': dict{'number_of_records': -1, 'record_length': -1}, 'attitude': "
   "dict{'number_of_records': -1, 'record_length': -1}, 'radiometric_data': dict{'number_of_records': -1, 'record_length': -1}, 'radiometric_compensation': "
   "dict{'number_of_records': -1, 'record_length': -1}, 'data_quality_summary': dict{'number_of_records': -1, 'record_length': -1}, 'data_histogram': "
   "dict{'number_of_records': -1, 'record_length': -1}, 'range_spectra': dict{'number_of_records': -1, 'record_length': -1}, 'dem_descriptor': "
   "dict{'number_of_records': -1, 'record_length': -1}, 'radar_parameter_update': dict{'number_of_records': -1, 'record_length': -1}, 'annotation_data': "
   "dict{'number_of_records': -1, 'record_length': -1}, 'detail_processing': dict{'number_of_records': -1, 'record_length': -1}, 'calibration': "
   "dict{'number_of_records': -1, 'record_length': -1}, 'gcp': dict{'number_of_records': -1, 'record_length': -1}, 'spare': '', 'facility_related_data_1': "
   "dict{'number_of_records': -1, 'record_length': -1}, 'facility_related_data_2': dict{'number_of_records': -1, 'record_length': -1}, "
   "'facility_related_data_3': dict{'number_of_records': -1, 'record_length': -1}, 'facility_related_data_4': dict{'number_of_records': -1, 'record_length': "
   "-1}, 'facility_related_data_5': dict{'number_of_records': -1, 'record_length': -1}, 'number_of_low_resolution_images': 7, 'low_resolution_image_sizes': "
   "list[dict{'record_length': 4, 'number_of_pixels': 1, 'number_of_lines': 2, 'number_of_bytes_per_one_sample': 2}, dict{'record_length': 8, "
   "'number_of_pixels': 2, 'number_of_lines': 2, 'number_of_bytes_per_one_sample': 2}, dict{'record_length': 12, 'number_of_pixels': 3, 'number_of_lines': 2, "
   "'number_of_bytes_per_one_sample': 2}, dict{'record_length': 16, 'number_of_pixels': 4, 'number_of_lines': 2, 'number_of_bytes_per_one_sample': 2}, "
   "dict{'record_length': 20, 'number_of_pixels': 5, 'number_of_lines': 2, 'number_of_bytes_per_one_sample': 2}, dict{'record_length': 24, 'number_of_pixels': "
   "6, 'number_of_lines': 2, 'number_of_bytes_per_one_sample': 2}, dict{'record_length': 28, 'number_of_pixels': 7, 'number_of_lines': 2, "
   "'number_of_bytes_per_one_sample': 2}], 'blanks': ''}",
   'list',
   ['ndarray(dtype=>i2, shape=(1, 2), writeable=False, c=True, owndata=False, base=ndarray, values=[[0, -37]])',
    'ndarray(dtype=>i2, shape=(2, 2), writeable=False, c=True, owndata=False, base=ndarray, values=[[1, -38], [75, -112]])',
    'ndarray(dtype=>i2, shape=(3, 2), writeable=False, c=True, owndata=False, base=ndarray, values=[[2, -39], [76, -113], [150, -187]])',
    'ndarray(dtype=>i2, shape=(4, 2), writeable=False, c=True, owndata=False, base=ndarray, values=[[3, -40], [77, -114], [151, -188], [225, -262]])',
    'ndarray(dtype=>i2, shape=(5, 2), writeable=False, c=True, owndata=False, base=ndarray, values=[[4, -41], [78, -115], [152, -189], [226, -263], [300, '
    '-337]])',
    'ndarray(dtype=>i2, shape=(6, 2), writeable=False, c=True, owndata=False, base=ndarray, values=[[5, -42], [79, -116], [153, -190], [227, -264], [301, '
    '-338], [375, -412]])',
    'ndarray(dtype=>i2, shape=(7, 2), writeable=False, c=True, owndata=False, base=ndarray, values=[[6, -43], [80, -117], [154, -191], [228, -265], [302, '
    '-339], [376, -413], [450, -487]])']],
  [('read', 720, 0), ('read', -1, 720)]],
 ['case',
  'eight-images',
  "RAISED construct.core.PaddingError(ConstructError>Exception) args=('Error in path (parsing) -> blanks\\nlength cannot be negative',) str='Error in path "
  "(parsing) -> blanks\\nlength cannot be negative'",
  [('read', 720, 0)]],
 ['case',
  'eight-images-padded',
  "RAISED construct.core.PaddingError(ConstructError>Exception) args=('Error in path (parsing) -> blanks\\nlength cannot be negative',) str='Error in path "
  "(parsing) -> blanks\\nlength cannot be negative'",
  [('read', 720, 0)]],
 ['case',
  'record-longer-than-image',
  "RAISED builtins.ValueError(Exception) args=('cannot reshape array of size 15 into shape (4,3)',) str='cannot reshape array of size 15 into shape (4,3)'",
  [('read', 720, 0), ('read', -1, 720)]],
 ['case',
  'record-shorter-than-image',
  "RAISED builtins.ValueError(Exception) args=('cannot reshape array of size 10 into shape (4,3)',) str='cannot reshape array of size 10 into shape (4,3)'",
  [('read', 720, 0), ('read', -1, 720)]],
 ['case',
  'record-odd-length',
  "RAISED builtins.ValueError(Exception) args=('buffer size must be a multiple of element size',) str='buffer size must be a multiple of element size'",
  [('read', 720, 0), ('read', -1, 720)]],
 ['case',
  'data-truncated',
  "RAISED builtins.ValueError(Exception) args=('cannot reshape array of size 10 into shape (4,3)',) str='cannot reshape array of size 10 into shape (4,3)'",
  [('read', 720, 0), ('read', -1, 720)]],
 ['case',
  'data-truncated-odd',
  "RAISED builtins.ValueError(Exception) args=('buffer size must be a multiple of element size',) str='buffer size must be a multiple of element size'",
  [('read', 720, 0), ('read', -1, 720)]],
 ['case',
  'data-missing',
  "RAISED builtins.ValueError(Exception) args=('cannot reshape array of size 0 into shape (4,3)',) str='cannot reshape array of size 0 into shape (4,3)'",
  [('read', 720, 0), ('read', -1, 720)]],
 ['case',
  'second-data-missing',
  "RAISED builtins.ValueError(Exception) args=('cannot reshape array of size 0 into shape (4,3)',) str='cannot reshape array of size 0 into shape (4,3)'",
  [('read', 720, 0), ('read', -1, 720)]],
 ['case',
  'second-data-truncated',
  "RAISED builtins.ValueError(Exception) args=('cannot reshape array of size 5 into shape (4,3)',) str='cannot reshape array of size 5 into shape (4,3)'",
  [('read', 720, 0), ('read', -1, 720)]],
 ['case',
  'shape-transposed',
  ['tuple',
   'Container',
   "dict{'preamble': dict{'record_sequence_number': 1, 'first_record_subtype': 63, 'record_type': 192, 'second_record_subtype': 18, 'third_record_subtype': "
   "18, 'record_length': 720}, 'ascii_ebcdic_code': '', 'blanks1': '', 'format_control_document_id': '', 'format_control_document_revision_number': '', "
   "'record_format_revision_level': '', 'software_release_and_revision_number': '', 'file_number': -1, 'file_id': '', "
   "'record_sequence_and_location_type_flag': '', 'sequence_number_of_location': -1, 'field_length_of_sequence_number': -1, "
   "'record_code_and_location_type_flag': '', 'location_of_record_code': -1, 'field_length_of_record_code': -1, 'record_length_and_location_type_flag': '', "
   "'location_of_record_length': -1, 'field_length_of_record_length': -1, 'dataset_summary': dict{'number_of_records': -1, 'record_length': -1}, "
   "'map_projection': dict{'number_of_records': -1, 'record_length': -1}, 'platform_position': dict{'number_of_records': -1, 'record_length': -1}, 'attitude': "
   "dict{'number_of_records': -1, 'record_length': -1}, 'radiometric_data': dict{'number_of_records': -1, 'record_length': -1}, 'radiometric_compensation': "
   "dict{'number_of_records': -1, 'record_length': -1}, 'data_quality_summary': dict{'number_of_records': -1, 'record_length': -1}, 'data_histogram': "
   "dict{'number_of_records': -1, 'record_length': -1}, 'range_spectra': dict{'number_of_records': -1, 'record_length': -1}, 'dem_descriptor': "
   "dict{'number_of_records': -1, 'record_length': -1}, 'radar_parameter_update': dict{'number_of_records': -1, 'record_length': -1}, 'annotation_data': "
   "dict{'number_of_records': -1, 'record_length': -1}, 'detail_processing': dict{'number_of_records': -1, 'record_length': -1}, 'calibration': "
   "dict{'number_of_records': -1, 'record_length': -1}, 'gcp': dict{'number_of_records': -1, 'record_length': -1}, 'spare': '', 'facility_related_data_1': "
   "dict{'number_of_records': -1, 'record_length': -1}, 'facility_related_data_2': dict{'number_of_records': -1, 'record_length': -1}, "
   "'facility_related_data_3': dict{'number_of_records': -1, 'record_length': -1}, 'facility_related_data_4': dict{'number_of_records': -1, 'record_length': "
   "-1}, 'facility_related_data_5': dict{'number_of_records': -1, 'record_length': -1}, 'number_of_low_resolution_images': 1, 'low_resolution_image_sizes': "
   "list[dict{'record_length': 24, 'number_of_pixels': 3, 'number_of_lines': 4, 'number_of_bytes_per_one_sample': 2}], 'blanks': ''}",
   'list',
   ['ndarray(dtype=>i2, shape=(3, 4), writeable=False, c=True, owndata=False, base=ndarray, values=[[0, -37, 74, -111], [148, -185, 222, -259], [296, -333, '
    '370, -407]])']],
  [('read', 720, 0), ('read', -1, 720)]],
 ['case',
  'zero-record-length',
  "RAISED builtins.ValueError(Exception) args=('cannot reshape array of size 0 into shape (4,3)',) str='cannot reshape array of size 0 into shape (4,3)'",
  [('read', 720, 0), ('read', -1, 720)]],
 ['case',
  'zero-then-image',
  ['tuple',
   'Container',
   "dict{'preamble': dict{'record_sequence_number': 1, 'first_record_subtype': 63, 'record_type': 192, 'second_record_subtype': 18, 'third_record_subtype': "
   "18, 'record_length': 720}, 'ascii_ebcdic_code': '', 'blanks1': '', 'format_control_document_id': '', 'format_control_document_revision_number': '', "
   "'record_format_revision_level': '', 'software_release_and_revision_number': '', 'file_number': -1, 'file_id': '', "
   "'record_sequence_and_location_type_flag': '', 'sequence_number_of_location': -1, 'field_length_of_sequence_number': -1, "
   "'record_code_and_location_type_flag': '', 'location_of_record_code': -1, 'field_length_of_record_code': -1, 'record_length_and_location_type_flag': '', "
   "'location_of_record_length': -1, 'field_length_of_record_length': -1, 'dataset_summary': dict{'number_of_records': -1, 'record_length': -1}, "
   "'map_projection': dict{'number_of_records': -1, 'record_length': -1}, 'platform_position': dict{'number_of_records': -1, 'record_length': -1}, 'attitude': "
   "dict{'number_of_records': -1, 'record_length': -1}, 'radiometric_data': dict{'number_of_records': -1, 'record_length': -1}, 'radiometric_compensation': "
   "dict{'number_of_records': -1, 'record_length': -1}, 'data_quality_summary': dict{'number_of_records': -1, 'record_length': -1}, 'data_histogram': "
   "dict{'number_of_records': -1, 'record_length': -1}, 'range_spectra': dict{'number_of_records': -1, 'record_length': -1}, 'dem_descriptor': "
   "dict{'number_of_records': -1, 'record_length': -1}, 'radar_parameter_update': dict{'number_of_records': -1, 'record_length': -1}, 'annotation_data': "
   "dict{'number_of_records': -1, 'record_length': -1}, 'detail_processing': dict{'number_of_records': -1, 'record_length': -1}, 'calibration': "
   "dict{'number_of_records': -1, 'record_length': -1}, 'gcp': dict{'number_of_records': -1, 'record_length': -1}, 'spare': '', 'facility_related_data_1': "
   "dict{'number_of_records': -1, 'record_length': -1}, 'facility_related_data_2': dict{'number_of_records': -1, 'record_length': -1}, "
   "'facility_related_data_3': dict{'number_of_records': -1, 'record_length': -1}, 'facility_related_data_4': dict{'number_of_records': -1, 'record_length': "
   "-1}, 'facility_related_data_5': dict{'number_of_records': -1, 'record_length': -1}, 'number_of_low_resolution_images': 2, 'low_resolution_image_sizes': "
   "list[dict{'record_length': 0, 'number_of_pixels': 0, 'number_of_lines': 0, 'number_of_bytes_per_one_sample': 2}, dict{'record_length': 24, "
   "'number_of_pixels': 4, 'number_of_lines': 3, 'number_of_bytes_per_one_sample': 2}], 'blanks': ''}",
   'list',
   ['ndarray(dtype=>i2, shape=(0, 0), writeable=False, c=True, owndata=False, base=ndarray, values=[])',
    'ndarray(dtype=>i2, shape=(4, 3), writeable=False, c=True, owndata=False, base=ndarray, values=[[0, -37, 74], [-111, 148, -185], [222, -259, 296], [-333, '
    '370, -407]])']],
  [('read', 720, 0), ('read', -1, 720)]],
 ['case',
  'blank-record-length',
  "RAISED builtins.ValueError(Exception) args=('buffer size must be a multiple of element size',) str='buffer size must be a multiple of element size'",
  [('read', 720, 0), ('read', -1, 720)]],
 ['case',
  'blank-record-length-13',
  ['tuple',
   'Container',
   "dict{'preamble': dict{'record_sequence_number': 1, 'first_record_subtype': 63, 'record_type': 192, 'second_record_subtype': 18, 'third_record_subtype': "
   "18, 'record_length': 720}, 'ascii_ebcdic_code': '', 'blanks1': '', 'format_control_document_id': '', 'format_control_document_revision_number': '', "
   "'record_format_revision_level': '', 'software_release_and_revision_number': '', 'file_number': -1, 'file_id': '', "
   "'record_sequence_and_location_type_flag': '', 'sequence_number_of_location': -1, 'field_length_of_sequence_number': -1, "
   "'record_code_and_location_type_flag': '', 'location_of_record_code': -1, 'field_length_of_record_code': -1, 'record_length_and_location_type_flag': '', "
   "'location_of_record_length': -1, 'field_length_of_record_length': -1, 'dataset_summary': dict{'number_of_records': -1, 'record_length': -1}, "
   "'map_projection': dict{'number_of_records': -1, 'record_length': -1}, 'platform_position': dict{'number_of_records': -1, 'record_length': -1}, 'attitude': "
   "dict{'number_of_records': -1, 'record_length': -1}, 'radiometric_data': dict{'number_of_records': -1, 'record_length': -1}, 'radiometric_compensation': "
   "dict{'number_of_records': -1, 'record_length': -1}, 'data_quality_summary': dict{'number_of_records': -1, 'record_length': -1}, 'data_histogram': "
   "dict{'number_of_records': -1, 'record_length': -1}, 'range_spectra': dict{'number_of_records': -1, 'record_length': -1}, 'dem_descriptor': "
   "dict{'number_of_records': -1, 'record_length': -1}, 'radar_parameter_update': dict{'number_of_records': -1, 'record_length': -1}, 'annotation_data': "
   "dict{'number_of_records': -1, 'record_length': -1}, 'detail_processing': dict{'number_of_records': -1, 'record_length': -1}, 'calibration': "
   "dict{'number_of_records': -1, 'record_length': -1}, 'gcp': dict{'number_of_records': -1, 'record_length': -1}, 'spare': '', 'facility_related_data_1': "
   "dict{'number_of_records': -1, 'record_length': -1}, 'facility_related_data_2': dict{'number_of_records': -1, 'record_length': -1}, "
   "'facility_related_data_3': dict{'number_of_records': -1, 'record_length': -1}, 'facility_related_data_4': dict{'number_of_records': -1, 'record_length': "
   "-1}, 'facility_related_data_5': dict{'number_of_records': -1, 'record_length': -1}, 'number_of_low_resolution_images': 1, 'low_resolution_image_sizes': "
   "list[dict{'record_length': -1, 'number_of_pixels': 4, 'number_of_lines': 3, 'number_of_bytes_per_one_sample': 2}], 'blanks': ''}",
   'list',
   ['ndarray(dtype=>i2, shape=(4, 3), writeable=False, c=True, owndata=False, base=ndarray, values=[[0, -37, 74], [-111, 148, -185], [222, -259, 296], [-333, '
    '370, -407]])']],
  [('read', 720, 0), ('read', -1, 720)]],
 ['case',
  'blank-then-image',
  "RAISED builtins.ValueError(Exception) args=('cannot reshape array of size 24 into shape (1,1)',) str='cannot reshape array of size 24 into shape (1,1)'",
  [('read', 720, 0), ('read', -1, 720)]],
 ['case',
  'image-then-blank',
  "RAISED builtins.ValueError(Exception) args=('cannot reshape array of size 0 into shape (23,1)',) str='cannot reshape array of size 0 into shape (23,1)'",
  [('read', 720, 0), ('read', -1, 720)]],
 ['case',
  'negative-record-length',
  ['tuple',
   'Container',
   "dict{'preamble': dict{'record_sequence_number': 1, 'first_record_subtype': 63, 'record_type': 192, 'second_record_subtype': 18, 'third_record_subtype': "
   "18, 'record_length': 720}, 'ascii_ebcdic_code': '', 'blanks1': '', 'format_control_document_id': '', 'format_control_document_revision_number': '', "
   "'record_format_revision_level': '', 'software_release_and_revision_number': '', 'file_number': -1, 'file_id': '', "
   "'record_sequence_and_location_type_flag': '', 'sequence_number_of_location': -1, 'field_length_of_sequence_number': -1, "
   "'record_code_and_location_type_flag': '', 'location_of_record_code': -1, 'field_length_of_record_code': -1, 'record_length_and_location_type_flag': '', "
   "'location_of_record_length': -1, 'field_length_of_record_length': -1, 'dataset_summary': dict{'number_of_records': -1, 'record_length': -1}, "
   "'map_projection': dict{'number_of_records': -1, 'record_length': -1}, 'platform_position': dict{'number_of_records': -1, 'record_length': -1}, 'attitude': "
   "dict{'number_of_records': -1, 'record_length': -1}, 'radiometric_data': dict{'number_of_records': -1, 'record_length': -1}, 'radiometric_compensation': "
   "dict{'number_of_records': -1, 'record_length': -1}, 'data_quality_summary': dict{'number_of_records': -1, 'record_length': -1}, 'data_histogram': "
   "dict{'number_of_records': -1, 'record_length': -1}, 'range_spectra': dict{'number_of_records': -1, 'record_length': -1}, 'dem_descriptor': "
   "dict{'number_of_records': -1, 'record_length': -1}, 'radar_parameter_update': dict{'number_of_records': -1, 'record_length': -1}, 'annotation_data': "
   "dict{'number_of_records': -1, 'record_length': -1}, 'detail_processing': dict{'number_of_records': -1, 'record_length': -1}, 'calibration': "
   "dict{'number_of_records': -1, 'record_length': -1}, 'gcp': dict{'number_of_records': -1, 'record_length': -1}, 'spare': '', 'facility_related_data_1': "
   "dict{'number_of_records': -1, 'record_length': -1}, 'facility_related_data_2': dict{'number_of_records': -1, 'record_length': -1}, "
   "'facility_related_data_3': dict{'number_of_records': -1, 'record_length': -1}, 'facility_related_data_4': dict{'number_of_records': -1, 'record_length': "
   "-1}, 'facility_related_data_5': dict{'number_of_records': -1, 'record_length': -1}, 'number_of_low_resolution_images': 1, 'low_resolution_image_sizes': "
   "list[dict{'record_length': -4, 'number_of_pixels': 4, 'number_of_lines': 2, 'number_of_bytes_per_one_sample': 2}], 'blanks': ''}",
   'list',
   ['ndarray(dtype=>i2, shape=(4, 2), writeable=False, c=True, owndata=False, base=ndarray, values=[[0, -37], [74, -111], [148, -185], [222, -259]])']],
  [('read', 720, 0), ('read', -1, 720)]],
 ['case',
  'negative-then-positive',
  "RAISED builtins.ValueError(Exception) args=('cannot reshape array of size 8 into shape (3,1)',) str='cannot reshape array of size 8 into shape (3,1)'",
  [('read', 720, 0), ('read', -1, 720)]],
 ['case',
  'blank-shape',
  "RAISED builtins.ValueError(Exception) args=('can only specify one unknown dimension',) str='can only specify one unknown dimension'",
  [('read', 720, 0), ('read', -1, 720)]],
 ['case',
  'blank-pixels',
  ['tuple',
   'Container',
   "dict{'preamble': dict{'record_sequence_number': 1, 'first_record_subtype': 63, 'record_type': 192, 'second_record_subtype': 18, 'third_record_subtype': "
   "18, 'record_length': 720}, 'ascii_ebcdic_code': '', 'blanks1': '', 'format_control_document_id': '', 'format_control_document_revision_number': '', "
   "'record_format_revision_level': '', 'software_release_and_revision_number': '', 'file_number': -1, 'file_id': '', "
   "'record_sequence_and_location_type_flag': '', 'sequence_number_of_location': -1, 'field_length_of_sequence_number': -1, "
   "'record_code_and_location_type_flag': '', 'location_of_record_code': -1, 'field_length_of_record_code': -1, 'record_length_and_location_type_flag': '', "
   "'location_of_record_length': -1, 'field_length_of_record_length': -1, 'dataset_summary': dict{'number_of_records': -1, 'record_length': -1}, "
   "'map_projection': dict{'number_of_records': -1, 'record_length': -1}, 'platform_position': dict{'number_of_records': -1, 'record_length': -1}, 'attitude': "
   "dict{'number_of_records': -1, 'record_length': -1}, 'radiometric_data': dict{'number_of_records': -1, 'record_length': -1}, 'radiometric_compensation': "
   "dict{'number_of_records': -1, 'record_length': -1}, 'data_quality_summary': dict{'number_of_records': -1, 'record_length': -1}, 'data_histogram': "
   "dict{'number_of_records': -1, 'record_length': -1}, 'range_spectra': dict{'number_of_records': -1, 'record_length': -1}, 'dem_descriptor': "
   "dict{'number_of_records': -1, 'record_length': -1}, 'radar_parameter_update': dict{'number_of_records': -1, 'record_length': -1}, 'annotation_data': "
   "dict{'number_of_records': -1, 'record_length': -1}, 'detail_processing': dict{'number_of_records': -1, 'record_length': -1}, 'calibration': "
   "dict{'number_of_records': -1, 'record_length': -1}, 'gcp': dict{'number_of_records': -1, 'record_length': -1}, 'spare': '', 'facility_related_data_1': "
   "dict{'number_of_records': -1, 'record_length': -1}, 'facility_related_data_2': dict{'number_of_records': -1, 'record_length': -1}, "
   "'facility_related_data_3': dict{'number_of_records': -1, 'record_length': -1}, 'facility_related_data_4': dict{'number_of_records': -1, 'record_length': "
   "-1}, 'facility_related_data_5': dict{'number_of_records': -1, 'record_length': -1}, 'number_of_low_resolution_images': 1, 'low_resolution_image_sizes': "
   "list[dict{'record_length': 24, 'number_of_pixels': -1, 'number_of_lines': 3, 'number_of_bytes_per_one_sample': 2}], 'blanks': ''}",
   'list',
   ['ndarray(dtype=>i2, shape=(4, 3), writeable=False, c=True, owndata=False, base=ndarray, values=[[0, -37, 74], [-111, 148, -185], [222, -259, 296], [-333, '
    '370, -407]])']],
  [('read', 720, 0), ('read', -1, 720)]],
 ['case',
  'blank-lines',
  ['tuple',
   'Container',
   "dict{'preamble': dict{'record_sequence_number': 1, 'first_record_subtype': 63, 'record_type': 192, 'second_record_subtype': 18, 'third_record_subtype': "
   "18, 'record_length': 720}, 'ascii_ebcdic_code': '', 'blanks1': '', 'format_control_document_id': '', 'format_control_document_revision_number': '', "
   "'record_format_revision_level': '', 'software_release_and_revision_number': '', 'file_number': -1, 'file_id': '', "
   "'record_sequence_and_location_type_flag': '', 'sequence_number_of_location': -1, 'field_length_of_sequence_number': -1, "
   "'record_code_and_location_type_flag': '', 'location_of_record_code': -1, 'field_length_of_record_code': -1, 'record_length_and_location_type_flag': '', "
   "'location_of_record_length': -1, 'field_length_of_record_length': -1, 'dataset_summary': dict{'number_of_records': -1, 'record_length': -1}, "
   "'map_projection': dict{'number_of_records': -1, 'record_length': -1}, 'platform_position': dict{'number_of_records': -1, 'record_length': -1}, 'attitude': "
   "dict{'number_of_records': -1, 'record_length': -1}, 'radiometric_data': dict{'number_of_records': -1, 'record_length': -1}, 'radiometric_compensation': "
   "dict{'number_of_records': -1, 'record_length': -1}, 'data_quality_summary': dict{'number_of_records': -1, 'record_length': -1}, 'data_histogram': "
   "dict{'number_of_records': -1, 'record_length': -1}, 'range_spectra': dict{'number_of_records': -1, 'record_length': -1}, 'dem_descriptor': "
   "dict{'number_of_records': -1, 'record_length': -1}, 'radar_parameter_update': dict{'number_of_records': -1, 'record_length': -1}, 'annotation_data': "
   "dict{'number_of_records': -1, 'record_length': -1}, 'detail_processing': dict{'number_of_records': -1, 'record_length': -1}, 'calibration': "
   "dict{'number_of_records': -1, 'record_length': -1}, 'gcp': dict{'number_of_records': -1, 'record_length': -1}, 'spare': '', 'facility_related_data_1': "
   "dict{'number_of_records': -1, 'record_length': -1}, 'facility_related_data_2': dict{'number_of_records': -1, 'record_length': -1}, "
   "'facility_related_data_3': dict{'number_of_records': -1, 'record_length': -1}, 'facility_related_data_4': dict{'number_of_records': -1, 'record_length': "
   "-1}, 'facility_related_data_5': dict{'number_of_records': -1, 'record_length': -1}, 'number_of_low_resolution_images': 1, 'low_resolution_image_sizes': "
   "list[dict{'record_length': 24, 'number_of_pixels': 4, 'number_of_lines': -1, 'number_of_bytes_per_one_sample': 2}], 'blanks': ''}",
   'list',
   ['ndarray(dtype=>i2, shape=(4, 3), writeable=False, c=True, owndata=False, base=ndarray, values=[[0, -37, 74], [-111, 148, -185], [222, -259, 296], [-333, '
    '370, -407]])']],
  [('read', 720, 0), ('read', -1, 720)]],
 ['case',
  'blank-sample-size',
  'RAISED builtins.TypeError(Exception) args=("data type \'>i-1\' not understood",) str="data type \'>i-1\' not understood"',
  [('read', 720, 0), ('read', -1, 720)]],
 ['case',
  'zero-sample-size',
  'RAISED builtins.TypeError(Exception) args=("data type \'>i0\' not understood",) str="data type \'>i0\' not understood"',
  [('read', 720, 0), ('read', -1, 720)]],
 ['case',
  'sample-size-3',
  'RAISED builtins.TypeError(Exception) args=("data type \'>i3\' not understood",) str="data type \'>i3\' not understood"',
  [('read', 720, 0), ('read', -1, 720)]],
 ['case',
  'sample-size-16',
  'RAISED builtins.TypeError(Exception) args=("data type \'>i16\' not understood",) str="data type \'>i16\' not understood"',
  [('read', 720, 0), ('read', -1, 720)]],
 ['case',
  'all-blank-record',
  'RAISED builtins.TypeError(Exception) args=("data type \'>i-1\' not understood",) str="data type \'>i-1\' not understood"',
  [('read', 720, 0), ('read', -1, 720)]],
 ['case',
  'bad-number',
  'RAISED builtins.ValueError(Exception) args=("invalid literal for int() with base 10: \'12ab\'",) str="invalid literal for int() with base 10: \'12ab\'"',
  [('read', 720, 0)]],
 ['case',
  'bad-number-in-second',
  'RAISED builtins.ValueError(Exception) args=("invalid literal for int() with base 10: \'x\'",) str="invalid literal for int() with base 10: \'x\'"',
  [('read', 720, 0)]],
 ['case',
  'first-bad-dtype-second-bad-shape',
  'RAISED builtins.TypeError(Exception) args=("data type \'>i3\' not understood",) str="data type \'>i3\' not understood"',
  [('read', 720, 0), ('read', -1, 720)]],
 ['case',
  'first-bad-shape-second-bad-dtype',
  "RAISED builtins.ValueError(Exception) args=('cannot reshape array of size 12 into shape (5,5)',) str='cannot reshape array of size 12 into shape (5,5)'",
  [('read', 720, 0), ('read', -1, 720)]],
 ['case',
  'first-ok-second-bad-dtype',
  'RAISED builtins.TypeError(Exception) args=("data type \'>i5\' not understood",) str="data type \'>i5\' not understood"',
  [('read', 720, 0), ('read', -1, 720)]],
 ['case',
  'first-bad-size-second-bad-dtype',
  "RAISED builtins.ValueError(Exception) args=('buffer size must be a multiple of element size',) str='buffer size must be a multiple of element size'",
  [('read', 720, 0), ('read', -1, 720)]],
 ['case',
  'count-smaller',
  ['tuple',
   'Container',
   "dict{'preamble': dict{'record_sequence_number': 1, 'first_record_subtype': 63, 'record_type': 192, 'second_record_subtype': 18, 'third_record_subtype': "
   "18, 'record_length': 720}, 'ascii_ebcdic_code': '', 'blanks1': '', 'format_control_document_id': '', 'format_control_document_revision_number': '', "
   "'record_format_revision_level': '', 'software_release_and_revision_number': '', 'file_number': -1, 'file_id': '', "
   "'record_sequence_and_location_type_flag': '', 'sequence_number_of_location': -1, 'field_length_of_sequence_number': -1, "
   "'record_code_and_location_type_flag': '', 'location_of_record_code': -1, 'field_length_of_record_code': -1, 'record_length_and_location_type_flag': '', "
   "'location_of_record_length': -1, 'field_length_of_record_length': -1, 'dataset_summary': dict{'number_of_records': -1, 'record_length': -1}, "
   "'map_projection': dict{'number_of_records': -1, 'record_length': -1}, 'platform_position': dict{'number_of_records': -1, 'record_length': -1}, 'attitude': "
   "dict{'number_of_records': -1, 'record_length': -1}, 'radiometric_data': dict{'number_of_records': -1, 'record_length': -1}, 'radiometric_compensation': "
   "dict{'number_of_records': -1, 'record_length': -1}, 'data_quality_summary': dict{'number_of_records': -1, 'record_length': -1}, 'data_histogram': "
   "dict{'number_of_records': -1, 'record_length': -1}, 'range_spectra': dict{'number_of_records': -1, 'record_length': -1}, 'dem_descriptor': "
   "dict{'number_of_records': -1, 'record_length': -1}, 'radar_parameter_update': dict{'number_of_records': -1, 'record_length': -1}, 'annotation_data': "
   "dict{'number_of_records': -1, 'record_length': -1}, 'detail_processing': dict{'number_of_records': -1, 'record_length': -1}, 'calibration': "
   "dict{'number_of_records': -1, 'record_length': -1}, 'gcp': dict{'number_of_records': -1, 'record_length': -1}, 'spare': '', 'facility_related_data_1': "
   "dict{'number_of_records': -1, 'record_length': -1}, 'facility_related_data_2': dict{'number_of_records': -1, 'record_length': -1}, "
   "'facility_related_data_3': dict{'number_of_records': -1, 'record_length': -1}, 'facility_related_data_4': dict{'number_of_records': -1, 'record_length': "
   "-1}, 'facility_related_data_5': dict{'number_of_records': -1, 'record_length': -1}, 'number_of_low_resolution_images': 1, 'low_resolution_image_sizes': "
   "list[dict{'record_length': 24, 'number_of_pixels': 4, 'number_of_lines': 3, 'number_of_bytes_per_one_sample': 2}], 'blanks': '24     4     3     2'}",
   'list',
   ['ndarray(dtype=>i2, shape=(4, 3), writeable=False, c=True, owndata=False, base=ndarray, values=[[0, -37, 74], [-111, 148, -185], [222, -259, 296], [-333, '
    '370, -407]])']],
  [('read', 720, 0), ('read', -1, 720)]],
 ['case',
  'count-larger',
  'RAISED builtins.TypeError(Exception) args=("data type \'>i-1\' not understood",) str="data type \'>i-1\' not understood"',
  [('read', 720, 0), ('read', -1, 720)]],
 ['case',
  'count-blank',
  "RAISED construct.core.RangeError(ConstructError>Exception) args=('Error in path (parsing) -> low_resolution_image_sizes\\ninvalid count -1',) str='Error in "
  "path (parsing) -> low_resolution_image_sizes\\ninvalid count -1'",
  [('read', 720, 0)]],
 ['case',
  'count-negative',
  "RAISED construct.core.RangeError(ConstructError>Exception) args=('Error in path (parsing) -> low_resolution_image_sizes\\ninvalid count -1',) str='Error in "
  "path (parsing) -> low_resolution_image_sizes\\ninvalid count -1'",
  [('read', 720, 0)]],
 ['case',
  'count-bad',
  'RAISED builtins.ValueError(Exception) args=("invalid literal for int() with base 10: \'many\'",) str="invalid literal for int() with base 10: \'many\'"',
  [('read', 720, 0)]],
 ['case',
  'count-9',
  "RAISED construct.core.StreamError(ConstructError>Exception) args=('Error in path (parsing) -> low_resolution_image_sizes -> number_of_lines\\nstream read "
  "less than specified amount, expected 6, found 2',) str='Error in path (parsing) -> low_resolution_image_sizes -> number_of_lines\\nstream read less than "
  "specified amount, expected 6, found 2'",
  [('read', 720, 0)]],
 ['case',
  'header-empty',
  "RAISED construct.core.StreamError(ConstructError>Exception) args=('Error in path (parsing) -> preamble -> record_sequence_number\\nstream read less than "
  "specified amount, expected 4, found 0',) str='Error in path (parsing) -> preamble -> record_sequence_number\\nstream read less than specified amount, "
  "expected 4, found 0'",
  [('read', 720, 0)]],
 ['case',
  'header-short-11',
  "RAISED construct.core.StreamError(ConstructError>Exception) args=('Error in path (parsing) -> preamble -> record_length\\nstream read less than specified "
  "amount, expected 4, found 3',) str='Error in path (parsing) -> preamble -> record_length\\nstream read less than specified amount, expected 4, found 3'",
  [('read', 720, 0)]],
 ['case',
  'header-short-300',
  "RAISED construct.core.StreamError(ConstructError>Exception) args=('Error in path (parsing) -> radar_parameter_update -> number_of_records\\nstream read "
  "less than specified amount, expected 6, found 0',) str='Error in path (parsing) -> radar_parameter_update -> number_of_records\\nstream read less than "
  "specified amount, expected 6, found 0'",
  [('read', 720, 0)]],
 ['case',
  'header-short-510',
  "RAISED construct.core.StreamError(ConstructError>Exception) args=('Error in path (parsing) -> low_resolution_image_sizes -> number_of_lines\\nstream read "
  "less than specified amount, expected 6, found 0',) str='Error in path (parsing) -> low_resolution_image_sizes -> number_of_lines\\nstream read less than "
  "specified amount, expected 6, found 0'",
  [('read', 720, 0)]],
 ['case',
  'header-short-600',
  "RAISED construct.core.StreamError(ConstructError>Exception) args=('Error in path (parsing) -> blanks\\nstream read less than specified amount, expected "
  "172, found 78',) str='Error in path (parsing) -> blanks\\nstream read less than specified amount, expected 172, found 78'",
  [('read', 720, 0)]],
 ['case',
  'header-short-719',
  "RAISED builtins.ValueError(Exception) args=('cannot reshape array of size 0 into shape (4,3)',) str='cannot reshape array of size 0 into shape (4,3)'",
  [('read', 720, 0), ('read', -1, 719)]],
 ['case',
  'header-zero-filled',
  ['tuple',
   'Container',
   "dict{'preamble': dict{'record_sequence_number': 1, 'first_record_subtype': 63, 'record_type': 192, 'second_record_subtype': 18, 'third_record_subtype': "
   "18, 'record_length': 720}, 'ascii_ebcdic_code': '', 'blanks1': '', 'format_control_document_id': '', 'format_control_document_revision_number': '', "
   "'record_format_revision_level': '', 'software_release_and_revision_number': '', 'file_number': -1, 'file_id': '', "
   "'record_sequence_and_location_type_flag': '', 'sequence_number_of_location': -1, 'field_length_of_sequence_number': -1, "
   "'record_code_and_location_type_flag': '', 'location_of_record_code': -1, 'field_length_of_record_code': -1, 'record_length_and_location_type_flag': '', "
   "'location_of_record_length': -1, 'field_length_of_record_length': -1, 'dataset_summary': dict{'number_of_records': -1, 'record_length': -1}, "
   "'map_projection': dict{'number_of_records': -1, 'record_length': -1}, 'platform_position': dict{'number_of_records': -1, 'record_length': -1}, 'attitude': "
   "dict{'number_of_records': -1, 'record_length': -1}, 'radiometric_data': dict{'number_of_records': -1, 'record_length': -1}, 'radiometric_compensation': "
   "dict{'number_of_records': -1, 'record_length': -1}, 'data_quality_summary': dict{'number_of_records': -1, 'record_length': -1}, 'data_histogram': "
   "dict{'number_of_records': -1, 'record_length': -1}, 'range_spectra': dict{'number_of_records': -1, 'record_length': -1}, 'dem_descriptor': "
   "dict{'number_of_records': -1, 'record_length': -1}, 'radar_parameter_update': dict{'number_of_records': -1, 'record_length': -1}, 'annotation_data': "
   "dict{'number_of_records': -1, 'record_length': -1}, 'detail_processing': dict{'number_of_records': -1, 'record_length': -1}, 'calibration': "
   "dict{'number_of_records': -1, 'record_length': -1}, 'gcp': dict{'number_of_records': -1, 'record_length': -1}, 'spare': '', 'facility_related_data_1': "
   "dict{'number_of_records': -1, 'record_length': -1}, 'facility_related_data_2': dict{'number_of_records': -1, 'record_length': -1}, "
   "'facility_related_data_3': dict{'number_of_records': -1, 'record_length': -1}, 'facility_related_data_4': dict{'number_of_records': -1, 'record_length': "
   "-1}, 'facility_related_data_5': dict{'number_of_records': -1, 'record_length': -1}, 'number_of_low_resolution_images': 1, 'low_resolution_image_sizes': "
   "list[dict{'record_length': 24, 'number_of_pixels': 4, 'number_of_lines': 3, 'number_of_bytes_per_one_sample': 2}], 'blanks': ''}",
   'list',
   ['ndarray(dtype=>i2, shape=(4, 3), writeable=False, c=True, owndata=False, base=ndarray, values=[[0, -37, 74], [-111, 148, -185], [222, -259, 296], [-333, '
    '370, -407]])']],
  [('read', 720, 0), ('read', -1, 720)]],
 ['case',
  'header-non-ascii',
  'RAISED construct.core.StringError(ConstructError>Exception) args=("cannot use encoding \'ascii\' to decode '
  'b\'\\\\xff\\\\xff\\\\xff\\\\xff\\\\xff\\\\xff\\\\xff\\\\xff\\\\xff\\\\xff\\\\xff\\\\xff\\\\xff\\\\xff\\\\xff\\\\xff\\\\xff\\\\xff\\\\xff\\\\xff\\\\xff\\\\xff\\\\xff\\\\xff\\\\xff\\\\xff\\\\xff\\\\xff\\\\xff\\\\xff\\\\xff\\\\xff\\\\xff\\\\xff\\\\xff\\\\xff\\\\xff\\\\xff\\\\xff\\\\xff\\\\xff\\\\xff\\\\xff\\\\xff\\\\xff\\\\xff\\\\xff\\\\xff\\\\xff\\\\xff\\\\xff\\\\xff\\\\xff\\\\xff\\\\xff\\\\xff\\\\xff\\\\xff\\\\xff\\\\xff\\\\xff\\\\xff\\\\xff\\\\xff\\\\xff\\\\xff\\\\xff\\\\xff\\\\xff\\\\xff\\\\xff\\\\xff\\\\xff\\\\xff\\\\xff\\\\xff\\\\xff\\\\xff\\\\xff\\\\xff\\\\xff\\\\xff\\\\xff\\\\xff\\\\xff\\\\xff\\\\xff\\\\xff\\\\xff\\\\xff\\\\xff\\\\xff\\\\xff\\\\xff\\\\xff\\\\xff\\\\xff\\\\xff\\\\xff\\\\xff\\\\xff\\\\xff\\\\xff\\\\xff\\\\xff\\\\xff\\\\xff\\\\xff\\\\xff\\\\xff\\\\xff\\\\xff\\\\xff\\\\xff\\\\xff\\\\xff\\\\xff\\\\xff\\\\xff\\\\xff\\\\xff\\\\xff\\\\xff\\\\xff\\\\xff\\\\xff\\\\xff\\\\xff\\\\xff\\\\xff\\\\xff\\\\xff\\\\xff\\\\xff\\\\xff\\\\xff\\\\xff\\\\xff\\\\xff\\\\xff\\\\xff\\\\xff\\\\xff\\\\xff\\\\xff\\\\xff\\\\xff\\\\xff\\\\xff\\\\xff\\\\xff\\\\xff\\\\xff\\\\xff\\\\xff\\\\xff\\\\xff\\\\xff\\\\xff\\\\xff\\\\xff\\\\xff\\\\xff\\\\xff\\\\xff\\\\xff\\\\xff\\\\xff\\\\xff\\\\xff\\\\xff\\\\xff\'",) '
  'str="cannot use encoding \'ascii\' to decode '
  'b\'\\\\xff\\\\xff\\\\xff\\\\xff\\\\xff\\\\xff\\\\xff\\\\xff\\\\xff\\\\xff\\\\xff\\\\xff\\\\xff\\\\xff\\\\xff\\\\xff\\\\xff\\\\xff\\\\xff\\\\xff\\\\xff\\\\xff\\\\xff\\\\xff\\\\xff\\\\xff\\\\xff\\\\xff\\\\xff\\\\xff\\\\xff\\\\xff\\\\xff\\\\xff\\\\xff\\\\xff\\\\xff\\\\xff\\\\xff\\\\xff\\\\xff\\\\xff\\\\xff\\\\xff\\\\xff\\\\xff\\\\xff\\\\xff\\\\xff\\\\xff\\\\xff\\\\xff\\\\xff\\\\xff\\\\xff\\\\xff\\\\xff\\\\xff\\\\xff\\\\xff\\\\xff\\\\xff\\\\xff\\\\xff\\\\xff\\\\xff\\\\xff\\\\xff\\\\xff\\\\xff\\\\xff\\\\xff\\\\xff\\\\xff\\\\xff\\\\xff\\\\xff\\\\xff\\\\xff\\\\xff\\\\xff\\\\xff\\\\xff\\\\xff\\\\xff\\\\xff\\\\xff\\\\xff\\\\xff\\\\xff\\\\xff\\\\xff\\\\xff\\\\xff\\\\xff\\\\xff\\\\xff\\\\xff\\\\xff\\\\xff\\\\xff\\\\xff\\\\xff\\\\xff\\\\xff\\\\xff\\\\xff\\\\xff\\\\xff\\\\xff\\\\xff\\\\xff\\\\xff\\\\xff\\\\xff\\\\xff\\\\xff\\\\xff\\\\xff\\\\xff\\\\xff\\\\xff\\\\xff\\\\xff\\\\xff\\\\xff\\\\xff\\\\xff\\\\xff\\\\xff\\\\xff\\\\xff\\\\xff\\\\xff\\\\xff\\\\xff\\\\xff\\\\xff\\\\xff\\\\xff\\\\xff\\\\xff\\\\xff\\\\xff\\\\xff\\\\xff\\\\xff\\\\xff\\\\xff\\\\xff\\\\xff\\\\xff\\\\xff\\\\xff\\\\xff\\\\xff\\\\xff\\\\xff\\\\xff\\\\xff\\\\xff\\\\xff\\\\xff\\\\xff\\\\xff\\\\xff\\\\xff\\\\xff\\\\xff\\\\xff\\\\xff\\\\xff\'" '
  "[cause=None; context=builtins.UnicodeDecodeError(UnicodeError>ValueError>Exception) args=('ascii', "
  "b'\\xff\\xff\\xff\\xff\\xff\\xff\\xff\\xff\\xff\\xff\\xff\\xff\\xff\\xff\\xff\\xff\\xff\\xff\\xff\\xff\\xff\\xff\\xff\\xff\\xff\\xff\\xff\\xff\\xff\\xff\\xff\\xff\\xff\\xff\\xff\\xff\\xff\\xff\\xff\\xff\\xff\\xff\\xff\\xff\\xff\\xff\\xff\\xff\\xff\\xff\\xff\\xff\\xff\\xff\\xff\\xff\\xff\\xff\\xff\\xff\\xff\\xff\\xff\\xff\\xff\\xff\\xff\\xff\\xff\\xff\\xff\\xff\\xff\\xff\\xff\\xff\\xff\\xff\\xff\\xff\\xff\\xff\\xff\\xff\\xff\\xff\\xff\\xff\\xff\\xff\\xff\\xff\\xff\\xff\\xff\\xff\\xff\\xff\\xff\\xff\\xff\\xff\\xff\\xff\\xff\\xff\\xff\\xff\\xff\\xff\\xff\\xff\\xff\\xff\\xff\\xff\\xff\\xff\\xff\\xff\\xff\\xff\\xff\\xff\\xff\\xff\\xff\\xff\\xff\\xff\\xff\\xff\\xff\\xff\\xff\\xff\\xff\\xff\\xff\\xff\\xff\\xff\\xff\\xff\\xff\\xff\\xff\\xff\\xff\\xff\\xff\\xff\\xff\\xff\\xff\\xff\\xff\\xff\\xff\\xff\\xff\\xff\\xff\\xff\\xff\\xff\\xff\\xff\\xff\\xff\\xff\\xff', "
  '0, 1, \'ordinal not in range(128)\') str="\'ascii\' codec can\'t decode byte 0xff in position 0: ordinal not in range(128)"; suppress_context=False]',
  [('read', 720, 0)]],
 ['case',
  'header-all-zero',
  "RAISED construct.core.RangeError(ConstructError>Exception) args=('Error in path (parsing) -> low_resolution_image_sizes\\ninvalid count -1',) str='Error in "
  "path (parsing) -> low_resolution_image_sizes\\ninvalid count -1'",
  [('read', 720, 0)]],
 ['case',
  'header-fields',
  ['tuple',
   'Container',
   "dict{'preamble': dict{'record_sequence_number': 1, 'first_record_subtype': 63, 'record_type': 192, 'second_record_subtype': 18, 'third_record_subtype': "
   "18, 'record_length': 720}, 'ascii_ebcdic_code': 'A', 'blanks1': '', 'format_control_document_id': 'CEOS-SAR', 'format_control_document_revision_number': "
   "'', 'record_format_revision_level': '', 'software_release_and_revision_number': '', 'file_number': 4, 'file_id': 'TRL-FILE', "
   "'record_sequence_and_location_type_flag': 'FSEQ', 'sequence_number_of_location': 1, 'field_length_of_sequence_number': 4, "
   "'record_code_and_location_type_flag': '', 'location_of_record_code': -1, 'field_length_of_record_code': -1, 'record_length_and_location_type_flag': '', "
   "'location_of_record_length': -1, 'field_length_of_record_length': -1, 'dataset_summary': dict{'number_of_records': -1, 'record_length': -1}, "
   "'map_projection': dict{'number_of_records': -1, 'record_length': -1}, 'platform_position': dict{'number_of_records': -1, 'record_length': -1}, 'attitude': "
   "dict{'number_of_records': -1, 'record_length': -1}, 'radiometric_data': dict{'number_of_records': -1, 'record_length': -1}, 'radiometric_compensation': "
   "dict{'number_of_records': -1, 'record_length': -1}, 'data_quality_summary': dict{'number_of_records': -1, 'record_length': -1}, 'data_histogram': "
   "dict{'number_of_records': -1, 'record_length': -1}, 'range_spectra': dict{'number_of_records': -1, 'record_length': -1}, 'dem_descriptor': "
   "dict{'number_of_records': -1, 'record_length': -1}, 'radar_parameter_update': dict{'number_of_records': -1, 'record_length': -1}, 'annotation_data': "
   "dict{'number_of_records': -1, 'record_length': -1}, 'detail_processing': dict{'number_of_records': -1, 'record_length': -1}, 'calibration': "
   "dict{'number_of_records': -1, 'record_length': -1}, 'gcp': dict{'number_of_records': -1, 'record_length': -1}, 'spare': '', 'facility_related_data_1': "
   "dict{'number_of_records': -1, 'record_length': -1}, 'facility_related_data_2': dict{'number_of_records': -1, 'record_length': -1}, "
   "'facility_related_data_3': dict{'number_of_records': -1, 'record_length': -1}, 'facility_related_data_4': dict{'number_of_records': -1, 'record_length': "
   "-1}, 'facility_related_data_5': dict{'number_of_records': -1, 'record_length': -1}, 'number_of_low_resolution_images': 1, 'low_resolution_image_sizes': "
   "list[dict{'record_length': 24, 'number_of_pixels': 4, 'number_of_lines': 3, 'number_of_bytes_per_one_sample': 2}], 'blanks': ''}",
   'list',
   ['ndarray(dtype=>i2, shape=(4, 3), writeable=False, c=True, owndata=False, base=ndarray, values=[[0, -37, 74], [-111, 148, -185], [222, -259, 296], [-333, '
    '370, -407]])']],
  [('read', 720, 0), ('read', -1, 720)]],
 ['bytesio',
  ['tuple',
   'Container',
   "dict{'preamble': dict{'record_sequence_number': 1, 'first_record_subtype': 63, 'record_type': 192, 'second_record_subtype': 18, 'third_record_subtype': "
   "18, 'record_length': 720}, 'ascii_ebcdic_code': '', 'blanks1': '', 'format_control_document_id': '', 'format_control_document_revision_number': '', "
   "'record_format_revision_level': '', 'software_release_and_revision_number': '', 'file_number': -1, 'file_id': '', "
   "'record_sequence_and_location_type_flag': '', 'sequence_number_of_location': -1, 'field_length_of_sequence_number': -1, "
   "'record_code_and_location_type_flag': '', 'location_of_record_code': -1, 'field_length_of_record_code': -1, 'record_length_and_location_type_flag': '', "
   "'location_of_record_length': -1, 'field_length_of_record_length': -1, 'dataset_summary': dict{'number_of_records': -1, 'record_length': -1}, "
   "'map_projection': dict{'number_of_records': -1, 'record_length': -1}, 'platform_position': dict{'number_of_records': -1, 'record_length': -1}, 'attitude': "
   "dict{'number_of_records': -1, 'record_length': -1}, 'radiometric_data': dict{'number_of_records': -1, 'record_length': -1}, 'radiometric_compensation': "
   "dict{'number_of_records': -1, 'record_length': -1}, 'data_quality_summary': dict{'number_of_records': -1, 'record_length': -1}, 'data_histogram': "
   "dict{'number_of_records': -1, 'record_length': -1}, 'range_spectra': dict{'number_of_records': -1, 'record_length': -1}, 'dem_descriptor': "
   "dict{'number_of_records': -1, 'record_length': -1}, 'radar_parameter_update': dict{'number_of_records': -1, 'record_length': -1}, 'annotation_data': "
   "dict{'number_of_records': -1, 'record_length': -1}, 'detail_processing': dict{'number_of_records': -1, 'record_length': -1}, 'calibration': "
   "dict{'number_of_records': -1, 'record_length': -1}, 'gcp': dict{'number_of_records': -1, 'record_length': -1}, 'spare': '', 'facility_related_data_1': "
   "dict{'number_of_records': -1, 'record_length': -1}, 'facility_related_data_2': dict{'number_of_records': -1, 'record_length': -1}, "
   "'facility_related_data_3': dict{'number_of_records': -1, 'record_length': -1}, 'facility_related_data_4': dict{'number_of_records': -1, 'record_length': "
   "-1}, 'facility_related_data_5': dict{'number_of_records': -1, 'record_length': -1}, 'number_of_low_resolution_images': 2, 'low_resolution_image_sizes': "
   "list[dict{'record_length': 24, 'number_of_pixels': 4, 'number_of_lines': 3, 'number_of_bytes_per_one_sample': 2}, dict{'record_length': 40, "
   "'number_of_pixels': 2, 'number_of_lines': 5, 'number_of_bytes_per_one_sample': 4}], 'blanks': ''}",
   'list',
   ['ndarray(dtype=>i2, shape=(4, 3), writeable=False, c=True, owndata=False, base=ndarray, values=[[0, -37, 74], [-111, 148, -185], [222, -259, 296], [-333, '
    '370, -407]])',
    'ndarray(dtype=>i4, shape=(2, 5), writeable=False, c=True, owndata=False, base=ndarray, values=[[1000, -1037, 1074, -1111, 1148], [-1185, 1222, -1259, '
    '1296, -1333]])']]],
 ['bytesio-offset',
  ['tuple',
   'Container',
   "dict{'preamble': dict{'record_sequence_number': 1, 'first_record_subtype': 63, 'record_type': 192, 'second_record_subtype': 18, 'third_record_subtype': "
   "18, 'record_length': 720}, 'ascii_ebcdic_code': '', 'blanks1': '', 'format_control_document_id': '', 'format_control_document_revision_number': '', "
   "'record_format_revision_level': '', 'software_release_and_revision_number': '', 'file_number': -1, 'file_id': '', "
   "'record_sequence_and_location_type_flag': '', 'sequence_number_of_location': -1, 'field_length_of_sequence_number': -1, "
   "'record_code_and_location_type_flag': '', 'location_of_record_code': -1, 'field_length_of_record_code': -1, 'record_length_and_location_type_flag': '', "
   "'location_of_record_length': -1, 'field_length_of_record_length': -1, 'dataset_summary': dict{'number_of_records': -1, 'record_length': -1}, "
   "'map_projection': dict{'number_of_records': -1, 'record_length': -1}, 'platform_position': dict{'number_of_records': -1, 'record_length': -1}, 'attitude': "
   "dict{'number_of_records': -1, 'record_length': -1}, 'radiometric_data': dict{'number_of_records': -1, 'record_length': -1}, 'radiometric_compensation': "
   "dict{'number_of_records': -1, 'record_length': -1}, 'data_quality_summary': dict{'number_of_records': -1, 'record_length': -1}, 'data_histogram': "
   "dict{'number_of_records': -1, 'record_length': -1}, 'range_spectra': dict{'number_of_records': -1, 'record_length': -1}, 'dem_descriptor': "
   "dict{'number_of_records': -1, 'record_length': -1}, 'radar_parameter_update': dict{'number_of_records': -1, 'record_length': -1}, 'annotation_data': "
   "dict{'number_of_records': -1, 'record_length': -1}, 'detail_processing': dict{'number_of_records': -1, 'record_length': -1}, 'calibration': "
   "dict{'number_of_records': -1, 'record_length': -1}, 'gcp': dict{'number_of_records': -1, 'record_length': -1}, 'spare': '', 'facility_related_data_1': "
   "dict{'number_of_records': -1, 'record_length': -1}, 'facility_related_data_2': dict{'number_of_records': -1, 'record_length': -1}, "
   "'facility_related_data_3': dict{'number_of_records': -1, 'record_length': -1}, 'facility_related_data_4': dict{'number_of_records': -1, 'record_length': "
   "-1}, 'facility_related_data_5': dict{'number_of_records': -1, 'record_length': -1}, 'number_of_low_resolution_images': 2, 'low_resolution_image_sizes': "
   "list[dict{'record_length': 24, 'number_of_pixels': 4, 'number_of_lines': 3, 'number_of_bytes_per_one_sample': 2}, dict{'record_length': 40, "
   "'number_of_pixels': 2, 'number_of_lines': 5, 'number_of_bytes_per_one_sample': 4}], 'blanks': ''}",
   'list',
   ['ndarray(dtype=>i2, shape=(4, 3), writeable=False, c=True, owndata=False, base=ndarray, values=[[0, -37, 74], [-111, 148, -185], [222, -259, 296], [-333, '
    '370, -407]])',
    'ndarray(dtype=>i4, shape=(2, 5), writeable=False, c=True, owndata=False, base=ndarray, values=[[1000, -1037, 1074, -1111, 1148], [-1185, 1222, -1259, '
    '1296, -1333]])']],
  790,
  False],
 ['bytesio-twice',
  ['tuple',
   'Container',
   "dict{'preamble': dict{'record_sequence_number': 1, 'first_record_subtype': 63, 'record_type': 192, 'second_record_subtype': 18, 'third_record_subtype': "
   "18, 'record_length': 720}, 'ascii_ebcdic_code': '', 'blanks1': '', 'format_control_document_id': '', 'format_control_document_revision_number': '', "
   "'record_format_revision_level': '', 'software_release_and_revision_number': '', 'file_number': -1, 'file_id': '', "
   "'record_sequence_and_location_type_flag': '', 'sequence_number_of_location': -1, 'field_length_of_sequence_number': -1, "
   "'record_code_and_location_type_flag': '', 'location_of_record_code': -1, 'field_length_of_record_code': -1, 'record_length_and_location_type_flag': '', "
   "'location_of_record_length': -1, 'field_length_of_record_length': -1, 'dataset_summary': dict{'number_of_records': -1, 'record_length': -1}, "
   "'map_projection': dict{'number_of_records': -1, 'record_length': -1}, 'platform_position': dict{'number_of_records': -1, 'record_length': -1}, 'attitude': "
   "dict{'number_of_records': -1, 'record_length': -1}, 'radiometric_data': dict{'number_of_records': -1, 'record_length': -1}, 'radiometric_compensation': "
   "dict{'number_of_records': -1, 'record_length': -1}, 'data_quality_summary': dict{'number_of_records': -1, 'record_length': -1}, 'data_histogram': "
   "dict{'number_of_records': -1, 'record_length': -1}, 'range_spectra': dict{'number_of_records': -1, 'record_length': -1}, 'dem_descriptor': "
   "dict{'number_of_records': -1, 'record_length': -1}, 'radar_parameter_update': dict{'number_of_records': -1, 'record_length': -1}, 'annotation_data': "
   "dict{'number_of_records': -1, 'record_length': -1}, 'detail_processing': dict{'number_of_records': -1, 'record_length': -1}, 'calibration': "
   "dict{'number_of_records': -1, 'record_length': -1}, 'gcp': dict{'number_of_records': -1, 'record_length': -1}, 'spare': '', 'facility_related_data_1': "
   "dict{'number_of_records': -1, 'record_length': -1}, 'facility_related_data_2': dict{'number_of_records': -1, 'record_length': -1}, "
   "'facility_related_data_3': dict{'number_of_records': -1, 'record_length': -1}, 'facility_related_data_4': dict{'number_of_records': -1, 'record_length': "
   "-1}, 'facility_related_data_5': dict{'number_of_records': -1, 'record_length': -1}, 'number_of_low_resolution_images': 2, 'low_resolution_image_sizes': "
   "list[dict{'record_length': 24, 'number_of_pixels': 4, 'number_of_lines': 3, 'number_of_bytes_per_one_sample': 2}, dict{'record_length': 40, "
   "'number_of_pixels': 2, 'number_of_lines': 5, 'number_of_bytes_per_one_sample': 4}], 'blanks': ''}",
   'list',
   ['ndarray(dtype=>i2, shape=(4, 3), writeable=False, c=True, owndata=False, base=ndarray, values=[[0, -37, 74], [-111, 148, -185], [222, -259, 296], [-333, '
    '370, -407]])',
    'ndarray(dtype=>i4, shape=(2, 5), writeable=False, c=True, owndata=False, base=ndarray, values=[[1000, -1037, 1074, -1111, 1148], [-1185, 1222, -1259, '
    '1296, -1333]])']],
  "RAISED construct.core.StreamError(ConstructError>Exception) args=('Error in path (parsing) -> preamble -> record_sequence_number\\nstream read less than "
  "specified amount, expected 4, found 0',) str='Error in path (parsing) -> preamble -> record_sequence_number\\nstream read less than specified amount, "
  "expected 4, found 0'",
  784],
 ['buffered',
  ['tuple',
   'Container',
   "dict{'preamble': dict{'record_sequence_number': 1, 'first_record_subtype': 63, 'record_type': 192, 'second_record_subtype': 18, 'third_record_subtype': "
   "18, 'record_length': 720}, 'ascii_ebcdic_code': '', 'blanks1': '', 'format_control_document_id': '', 'format_control_document_revision_number': '', "
   "'record_format_revision_level': '', 'software_release_and_revision_number': '', 'file_number': -1, 'file_id': '', "
   "'record_sequence_and_location_type_flag': '', 'sequence_number_of_location': -1, 'field_length_of_sequence_number': -1, "
   "'record_code_and_location_type_flag': '', 'location_of_record_code': -1, 'field_length_of_record_code': -1, 'record_length_and_location_type_flag': '', "
   "'location_of_record_length': -1, 'field_length_of_record_length': -1, 'dataset_summary': dict{'number_of_records': -1, 'record_length': -1}, "
   "'map_projection': dict{'number_of_records': -1, 'record_length': -1}, 'platform_position': dict{'number_of_records': -1, 'record_length': -1}, 'attitude': "
   "dict{'number_of_records': -1, 'record_length': -1}, 'radiometric_data': dict{'number_of_records': -1, 'record_length': -1}, 'radiometric_compensation': "
   "dict{'number_of_records': -1, 'record_length': -1}, 'data_quality_summary': dict{'number_of_records': -1, 'record_length': -1}, 'data_histogram': "
   "dict{'number_of_records': -1, 'record_length': -1}, 'range_spectra': dict{'number_of_records': -1, 'record_length': -1}, 'dem_descriptor': "
   "dict{'number_of_records': -1, 'record_length': -1}, 'radar_parameter_update': dict{'number_of_records': -1, 'record_length': -1}, 'annotation_data': "
   "dict{'number_of_records': -1, 'record_length': -1}, 'detail_processing': dict{'number_of_records': -1, 'record_length': -1}, 'calibration': "
   "dict{'number_of_records': -1, 'record_length': -1}, 'gcp': dict{'number_of_records': -1, 'record_length': -1}, 'spare': '', 'facility_related_data_1': "
   "dict{'number_of_records': -1, 'record_length': -1}, 'facility_related_data_2': dict{'number_of_records': -1, 'record_length': -1}, "
   "'facility_related_data_3': dict{'number_of_records': -1, 'record_length': -1}, 'facility_related_data_4': dict{'number_of_records': -1, 'record_length': "
   "-1}, 'facility_related_data_5': dict{'number_of_records': -1, 'record_length': -1}, 'number_of_low_resolution_images': 2, 'low_resolution_image_sizes': "
   "list[dict{'record_length': 24, 'number_of_pixels': 4, 'number_of_lines': 3, 'number_of_bytes_per_one_sample': 2}, dict{'record_length': 40, "
   "'number_of_pixels': 2, 'number_of_lines': 5, 'number_of_bytes_per_one_sample': 4}], 'blanks': ''}",
   'list',
   ['ndarray(dtype=>i2, shape=(4, 3), writeable=False, c=True, owndata=False, base=ndarray, values=[[0, -37, 74], [-111, 148, -185], [222, -259, 296], [-333, '
    '370, -407]])',
    'ndarray(dtype=>i4, shape=(2, 5), writeable=False, c=True, owndata=False, base=ndarray, values=[[1000, -1037, 1074, -1111, 1148], [-1185, 1222, -1259, '
    '1296, -1333]])']]],
 ['fsspec',
  ['tuple',
   'Container',
   "dict{'preamble': dict{'record_sequence_number': 1, 'first_record_subtype': 63, 'record_type': 192, 'second_record_subtype': 18, 'third_record_subtype': "
   "18, 'record_length': 720}, 'ascii_ebcdic_code': '', 'blanks1': '', 'format_control_document_id': '', 'format_control_document_revision_number': '', "
   "'record_format_revision_level': '', 'software_release_and_revision_number': '', 'file_number': -1, 'file_id': '', "
   "'record_sequence_and_location_type_flag': '', 'sequence_number_of_location': -1, 'field_length_of_sequence_number': -1, "
   "'record_code_and_location_type_flag': '', 'location_of_record_code': -1, 'field_length_of_record_code': -1, 'record_length_and_location_type_flag': '', "
   "'location_of_record_length': -1, 'field_length_of_record_length': -1, 'dataset_summary': dict{'number_of_records': -1, 'record_length': -1}, "
   "'map_projection': dict{'number_of_records': -1, 'record_length': -1}, 'platform_position': dict{'number_of_records': -1, 'record_length': -1}, 'attitude': "
   "dict{'number_of_records': -1, 'record_length': -1}, 'radiometric_data': dict{'number_of_records': -1, 'record_length': -1}, 'radiometric_compensation': "
   "dict{'number_of_records': -1, 'record_length': -1}, 'data_quality_summary': dict{'number_of_records': -1, 'record_length': -1}, 'data_histogram': "
   "dict{'number_of_records': -1, 'record_length': -1}, 'range_spectra': dict{'number_of_records': -1, 'record_length': -1}, 'dem_descriptor': "
   "dict{'number_of_records': -1, 'record_length': -1}, 'radar_parameter_update': dict{'number_of_records': -1, 'record_length': -1}, 'annotation_data': "
   "dict{'number_of_records': -1, 'record_length': -1}, 'detail_processing': dict{'number_of_records': -1, 'record_length': -1}, 'calibration': "
   "dict{'number_of_records': -1, 'record_length': -1}, 'gcp': dict{'number_of_records': -1, 'record_length': -1}, 'spare': '', 'facility_related_data_1': "
   "dict{'number_of_records': -1, 'record_length': -1}, 'facility_related_data_2': dict{'number_of_records': -1, 'record_length': -1}, "
   "'facility_related_data_3': dict{'number_of_records': -1, 'record_length': -1}, 'facility_related_data_4': dict{'number_of_records': -1, 'record_length': "
   "-1}, 'facility_related_data_5': dict{'number_of_records': -1, 'record_length': -1}, 'number_of_low_resolution_images': 2, 'low_resolution_image_sizes': "
   "list[dict{'record_length': 24, 'number_of_pixels': 4, 'number_of_lines': 3, 'number_of_bytes_per_one_sample': 2}, dict{'record_length': 40, "
   "'number_of_pixels': 2, 'number_of_lines': 5, 'number_of_bytes_per_one_sample': 4}], 'blanks': ''}",
   'list',
   ['ndarray(dtype=>i2, shape=(4, 3), writeable=False, c=True, owndata=False, base=ndarray, values=[[0, -37, 74], [-111, 148, -185], [222, -259, 296], [-333, '
    '370, -407]])',
    'ndarray(dtype=>i4, shape=(2, 5), writeable=False, c=True, owndata=False, base=ndarray, values=[[1000, -1037, 1074, -1111, 1148], [-1185, 1222, -1259, '
    '1296, -1333]])']],
  784,
  False],
 ['closed', "RAISED builtins.ValueError(Exception) args=('I/O operation on closed file.',) str='I/O operation on closed file.'"],
 ['text-file',
  'RAISED builtins.TypeError(Exception) args=("a bytes-like object is required, not \'str\'",) str="a bytes-like object is required, not \'str\'"'],
 ['none',
  'RAISED builtins.AttributeError(Exception) args=("\'NoneType\' object has no attribute \'read\'",) str="\'NoneType\' object has no attribute \'read\'"'],
 ['bytes', 'RAISED builtins.AttributeError(Exception) args=("\'bytes\' object has no attribute \'read\'",) str="\'bytes\' object has no attribute \'read\'"'],
 ['file',
  'position',
  ['tuple',
   'Container',
   "dict{'preamble': dict{'record_sequence_number': 1, 'first_record_subtype': 63, 'record_type': 192, 'second_record_subtype': 18, 'third_record_subtype': "
   "18, 'record_length': 720}, 'ascii_ebcdic_code': '', 'blanks1': '', 'format_control_document_id': '', 'format_control_document_revision_number': '', "
   "'record_format_revision_level': '', 'software_release_and_revision_number': '', 'file_number': -1, 'file_id': '', "
   "'record_sequence_and_location_type_flag': '', 'sequence_number_of_location': -1, 'field_length_of_sequence_number': -1, "
   "'record_code_and_location_type_flag': '', 'location_of_record_code': -1, 'field_length_of_record_code': -1, 'record_length_and_location_type_flag': '', "
   "'location_of_record_length': -1, 'field_length_of_record_length': -1, 'dataset_summary': dict{'number_of_records': -1, 'record_length': -1}, "
   "'map_projection': dict{'number_of_records': -1, 'record_length': -1}, 'platform_position': dict{'number_of_records': -1, 'record_length': -1}, 'attitude': "
   "dict{'number_of_records': -1, 'record_length': -1}, 'radiometric_data': dict{'number_of_records': -1, 'record_length': -1}, 'radiometric_compensation': "
   "dict{'number_of_records': -1, 'record_length': -1}, 'data_quality_summary': dict{'number_of_records': -1, 'record_length': -1}, 'data_histogram': "
   "dict{'number_of_records': -1, 'record_length': -1}, 'range_spectra': dict{'number_of_records': -1, 'record_length': -1}, 'dem_descriptor': "
   "dict{'number_of_records': -1, 'record_length': -1}, 'radar_parameter_update': dict{'number_of_records': -1, 'record_length': -1}, 'annotation_data': "
   "dict{'number_of_records': -1, 'record_length': -1}, 'detail_processing': dict{'number_of_records': -1, 'record_length': -1}, 'calibration': "
   "dict{'number_of_records': -1, 'record_length': -1}, 'gcp': dict{'number_of_records': -1, 'record_length': -1}, 'spare': '', 'facility_related_data_1': "
   "dict{'number_of_records': -1, 'record_length': -1}, 'facility_related_data_2': dict{'number_of_records': -1, 'record_length': -1}, "
   "'facility_related_data_3': dict{'number_of_records': -1, 'record_length': -1}, 'facility_related_data_4': dict{'number_of_records': -1, 'record_length': "
   "-1}, 'facility_related_data_5': dict{'number_of_records': -1, 'record_length': -1}, 'number_of_low_resolution_images': 2, 'low_resolution_image_sizes': "
   "list[dict{'record_length': 24, 'number_of_pixels': 4, 'number_of_lines': 3, 'number_of_bytes_per_one_sample': 2}, dict{'record_length': 40, "
   "'number_of_pixels': 2, 'number_of_lines': 5, 'number_of_bytes_per_one_sample': 4}], 'blanks': ''}",
   'list',
   ['ndarray(dtype=>i2, shape=(4, 3), writeable=False, c=True, owndata=False, base=ndarray, values=[[0, -37, 74], [-111, 148, -185], [222, -259, 296], [-333, '
    '370, -407]])',
    'ndarray(dtype=>i4, shape=(2, 5), writeable=False, c=True, owndata=False, base=ndarray, values=[[1000, -1037, 1074, -1111, 1148], [-1185, 1222, -1259, '
    '1296, -1333]])']],
  [('read', 720, 0), ('read', -1, 720)]],
 ['file',
  'short-reads',
  "RAISED construct.core.StreamError(ConstructError>Exception) args=('Error in path (parsing) -> location_of_record_length\\nstream read less than specified "
  "amount, expected 8, found 0',) str='Error in path (parsing) -> location_of_record_length\\nstream read less than specified amount, expected 8, found 0'",
  [('read', 720, 0)]],
 ['file', 'first-read-fails', "RAISED builtins.OSError(Exception) args=('read #1 failed',) str='read #1 failed'", [('read', 720, 0)]],
 ['file', 'second-read-fails', "RAISED builtins.OSError(Exception) args=('read #2 failed',) str='read #2 failed'", [('read', 720, 0), ('read', -1, 720)]],
 ['second-read-returns',
  'bytearray',
  ['tuple',
   'Container',
   "dict{'preamble': dict{'record_sequence_number': 1, 'first_record_subtype': 63, 'record_type': 192, 'second_record_subtype': 18, 'third_record_subtype': "
   "18, 'record_length': 720}, 'ascii_ebcdic_code': '', 'blanks1': '', 'format_control_document_id': '', 'format_control_document_revision_number': '', "
   "'record_format_revision_level': '', 'software_release_and_revision_number': '', 'file_number': -1, 'file_id': '', "
   "'record_sequence_and_location_type_flag': '', 'sequence_number_of_location': -1, 'field_length_of_sequence_number': -1, "
   "'record_code_and_location_type_flag': '', 'location_of_record_code': -1, 'field_length_of_record_code': -1, 'record_length_and_location_type_flag': '', "
   "'location_of_record_length': -1, 'field_length_of_record_length': -1, 'dataset_summary': dict{'number_of_records': -1, 'record_length': -1}, "
   "'map_projection': dict{'number_of_records': -1, 'record_length': -1}, 'platform_position': dict{'number_of_records': -1, 'record_length': -1}, 'attitude': "
   "dict{'number_of_records': -1, 'record_length': -1}, 'radiometric_data': dict{'number_of_records': -1, 'record_length': -1}, 'radiometric_compensation': "
   "dict{'number_of_records': -1, 'record_length': -1}, 'data_quality_summary': dict{'number_of_records': -1, 'record_length': -1}, 'data_histogram': "
   "dict{'number_of_records': -1, 'record_length': -1}, 'range_spectra': dict{'number_of_records': -1, 'record_length': -1}, 'dem_descriptor': "
   "dict{'number_of_records': -1, 'record_length': -1}, 'radar_parameter_update': dict{'number_of_records': -1, 'record_length': -1}, 'annotation_data': "
   "dict{'number_of_records': -1, 'record_length': -1}, 'detail_processing': dict{'number_of_records': -1, 'record_length': -1}, 'calibration': "
   "dict{'number_of_records': -1, 'record_length': -1}, 'gcp': dict{'number_of_records': -1, 'record_length': -1}, 'spare': '', 'facility_related_data_1': "
   "dict{'number_of_records': -1, 'record_length': -1}, 'facility_related_data_2': dict{'number_of_records': -1, 'record_length': -1}, "
   "'facility_related_data_3': dict{'number_of_records': -1, 'record_length': -1}, 'facility_related_data_4': dict{'number_of_records': -1, 'record_length': "
   "-1}, 'facility_related_data_5': dict{'number_of_records': -1, 'record_length': -1}, 'number_of_low_resolution_images': 2, 'low_resolution_image_sizes': "
   "list[dict{'record_length': 24, 'number_of_pixels': 4, 'number_of_lines': 3, 'number_of_bytes_per_one_sample': 2}, dict{'record_length': 40, "
   "'number_of_pixels': 2, 'number_of_lines': 5, 'number_of_bytes_per_one_sample': 4}], 'blanks': ''}",
   'list',
   ['ndarray(dtype=>i2, shape=(4, 3), writeable=True, c=True, owndata=False, base=ndarray, values=[[0, -37, 74], [-111, 148, -185], [222, -259, 296], [-333, '
    '370, -407]])',
    'ndarray(dtype=>i4, shape=(2, 5), writeable=True, c=True, owndata=False, base=ndarray, values=[[1000, -1037, 1074, -1111, 1148], [-1185, 1222, -1259, '
    '1296, -1333]])']],
  [(720,), ()]],
 ['second-read-returns',
  'memoryview',
  ['tuple',
   'Container',
   "dict{'preamble': dict{'record_sequence_number': 1, 'first_record_subtype': 63, 'record_type': 192, 'second_record_subtype': 18, 'third_record_subtype': "
   "18, 'record_length': 720}, 'ascii_ebcdic_code': '', 'blanks1': '', 'format_control_document_id': '', 'format_control_document_revision_number': '', "
   "'record_format_revision_level': '', 'software_release_and_revision_number': '', 'file_number': -1, 'file_id': '', "
   "'record_sequence_and_location_type_flag': '', 'sequence_number_of_location': -1, 'field_length_of_sequence_number': -1, "
   "'record_code_and_location_type_flag': '', 'location_of_record_code': -1, 'field_length_of_record_code': -1, 'record_length_and_location_type_flag': '', "
   "'location_of_record_length': -1, 'field_length_of_record_length': -1, 'dataset_summary': dict{'number_of_records': -1, 'record_length': -1}, "
   "'map_projection': dict{'number_of_records': -1, 'record_length': -1}, 'platform_position': dict{'number_of_records': -1, 'record_length': -1}, 'attitude': "
   "dict{'number_of_records': -1, 'record_length': -1}, 'radiometric_data': dict{'number_of_records': -1, 'record_length': -1}, 'radiometric_compensation': "
   "dict{'number_of_records': -1, 'record_length': -1}, 'data_quality_summary': dict{'number_of_records': -1, 'record_length': -1}, 'data_histogram': "
   "dict{'number_of_records': -1, 'record_length': -1}, 'range_spectra': dict{'number_of_records': -1, 'record_length': -1}, 'dem_descriptor': "
   "dict{'number_of_records': -1, 'record_length': -1}, 'radar_parameter_update': dict{'number_of_records': -1, 'record_length': -1}, 'annotation_data': "
   "dict{'number_of_records': -1, 'record_length': -1}, 'detail_processing': dict{'number_of_records': -1, 'record_length': -1}, 'calibration': "
   "dict{'number_of_records': -1, 'record_length': -1}, 'gcp': dict{'number_of_records': -1, 'record_length': -1}, 'spare': '', 'facility_related_data_1': "
   "dict{'number_of_records': -1, 'record_length': -1}, 'facility_related_data_2': dict{'number_of_records': -1, 'record_length': -1}, "
   "'facility_related_data_3': dict{'number_of_records': -1, 'record_length': -1}, 'facility_related_data_4': dict{'number_of_records': -1, 'record_length': "
   "-1}, 'facility_related_data_5': dict{'number_of_records': -1, 'record_length': -1}, 'number_of_low_resolution_images': 2, 'low_resolution_image_sizes': "
   "list[dict{'record_length': 24, 'number_of_pixels': 4, 'number_of_lines': 3, 'number_of_bytes_per_one_sample': 2}, dict{'record_length': 40, "
   "'number_of_pixels': 2, 'number_of_lines': 5, 'number_of_bytes_per_one_sample': 4}], 'blanks': ''}",
   'list',
   ['ndarray(dtype=>i2, shape=(4, 3), writeable=False, c=True, owndata=False, base=ndarray, values=[[0, -37, 74], [-111, 148, -185], [222, -259, 296], [-333, '
    '370, -407]])',
    'ndarray(dtype=>i4, shape=(2, 5), writeable=False, c=True, owndata=False, base=ndarray, values=[[1000, -1037, 1074, -1111, 1148], [-1185, 1222, -1259, '
    '1296, -1333]])']],
  [(720,), ()]],
 ['second-read-returns',
  'str',
  'RAISED builtins.TypeError(Exception) args=("a bytes-like object is required, not \'str\'",) str="a bytes-like object is required, not \'str\'"',
  [(720,), ()]],
 ['second-read-returns',
  'none',
  'RAISED builtins.TypeError(Exception) args=("\'NoneType\' object is not subscriptable",) str="\'NoneType\' object is not subscriptable"',
  [(720,), ()]],
 ['second-read-returns',
  'list',
  'RAISED builtins.TypeError(Exception) args=("a bytes-like object is required, not \'list\'",) str="a bytes-like object is required, not \'list\'"',
  [(720,), ()]],
 ['second-read-returns',
  'array',
  ['tuple',
   'Container',
   "dict{'preamble': dict{'record_sequence_number': 1, 'first_record_subtype': 63, 'record_type': 192, 'second_record_subtype': 18, 'third_record_subtype': "
   "18, 'record_length': 720}, 'ascii_ebcdic_code': '', 'blanks1': '', 'format_control_document_id': '', 'format_control_document_revision_number': '', "
   "'record_format_revision_level': '', 'software_release_and_revision_number': '', 'file_number': -1, 'file_id': '', "
   "'record_sequence_and_location_type_flag': '', 'sequence_number_of_location': -1, 'field_length_of_sequence_number': -1, "
   "'record_code_and_location_type_flag': '', 'location_of_record_code': -1, 'field_length_of_record_code': -1, 'record_length_and_location_type_flag': '', "
   "'location_of_record_length': -1, 'field_length_of_record_length': -1, 'dataset_summary': dict{'number_of_records': -1, 'record_length': -1}, "
   "'map_projection': dict{'number_of_records': -1, 'record_length': -1}, 'platform_position': dict{'number_of_records': -1, 'record_length': -1}, 'attitude': "
   "dict{'number_of_records': -1, 'record_length': -1}, 'radiometric_data': dict{'number_of_records': -1, 'record_length': -1}, 'radiometric_compensation': "
   "dict{'number_of_records': -1, 'record_length': -1}, 'data_quality_summary': dict{'number_of_records': -1, 'record_length': -1}, 'data_histogram': "
   "dict{'number_of_records': -1, 'record_length': -1}, 'range_spectra': dict{'number_of_records': -1, 'record_length': -1}, 'dem_descriptor': "
   "dict{'number_of_records': -1, 'record_length': -1}, 'radar_parameter_update': dict{'number_of_records': -1, 'record_length': -1}, 'annotation_data': "
   "dict{'number_of_records': -1, 'record_length': -1}, 'detail_processing': dict{'number_of_records': -1, 'record_length': -1}, 'calibration': "
   "dict{'number_of_records': -1, 'record_length': -1}, 'gcp': dict{'number_of_records': -1, 'record_length': -1}, 'spare': '', 'facility_related_data_1': "
   "dict{'number_of_records': -1, 'record_length': -1}, 'facility_related_data_2': dict{'number_of_records': -1, 'record_length': -1}, "
   "'facility_related_data_3': dict{'number_of_records': -1, 'record_length': -1}, 'facility_related_data_4': dict{'number_of_records': -1, 'record_length': "
   "-1}, 'facility_related_data_5': dict{'number_of_records': -1, 'record_length': -1}, 'number_of_low_resolution_images': 2, 'low_resolution_image_sizes': "
   "list[dict{'record_length': 24, 'number_of_pixels': 4, 'number_of_lines': 3, 'number_of_bytes_per_one_sample': 2}, dict{'record_length': 40, "
   "'number_of_pixels': 2, 'number_of_lines': 5, 'number_of_bytes_per_one_sample': 4}], 'blanks': ''}",
   'list',
   ['ndarray(dtype=>i2, shape=(4, 3), writeable=False, c=True, owndata=False, base=ndarray, values=[[0, -37, 74], [-111, 148, -185], [222, -259, 296], [-333, '
    '370, -407]])',
    'ndarray(dtype=>i4, shape=(2, 5), writeable=False, c=True, owndata=False, base=ndarray, values=[[1000, -1037, 1074, -1111, 1148], [-1185, 1222, -1259, '
    '1296, -1333]])']],
  [(720,), ()]],
 ['first-read-returns',
  'bytearray',
  ['tuple',
   'Container',
   "dict{'preamble': dict{'record_sequence_number': 1, 'first_record_subtype': 63, 'record_type': 192, 'second_record_subtype': 18, 'third_record_subtype': "
   "18, 'record_length': 720}, 'ascii_ebcdic_code': '', 'blanks1': '', 'format_control_document_id': '', 'format_control_document_revision_number': '', "
   "'record_format_revision_level': '', 'software_release_and_revision_number': '', 'file_number': -1, 'file_id': '', "
   "'record_sequence_and_location_type_flag': '', 'sequence_number_of_location': -1, 'field_length_of_sequence_number': -1, "
   "'record_code_and_location_type_flag': '', 'location_of_record_code': -1, 'field_length_of_record_code': -1, 'record_length_and_location_type_flag': '', "
   "'location_of_record_length': -1, 'field_length_of_record_length': -1, 'dataset_summary': dict{'number_of_records': -1, 'record_length': -1}, "
   "'map_projection': dict{'number_of_records': -1, 'record_length': -1}, 'platform_position': dict{'number_of_records': -1, 'record_length': -1}, 'attitude': "
   "dict{'number_of_records': -1, 'record_length': -1}, 'radiometric_data': dict{'number_of_records': -1, 'record_length': -1}, 'radiometric_compensation': "
   "dict{'number_of_records': -1, 'record_length': -1}, 'data_quality_summary': dict{'number_of_records': -1, 'record_length': -1}, 'data_histogram': "
   "dict{'number_of_records': -1, 'record_length': -1}, 'range_spectra': dict{'number_of_records': -1, 'record_length': -1}, 'dem_descriptor': "
   "dict{'number_of_records': -1, 'record_length': -1}, 'radar_parameter_update': dict{'number_of_records': -1, 'record_length': -1}, 'annotation_data': "
   "dict{'number_of_records': -1, 'record_length': -1}, 'detail_processing': dict{'number_of_records': -1, 'record_length': -1}, 'calibration': "
   "dict{'number_of_records': -1, 'record_length': -1}, 'gcp': dict{'number_of_records': -1, 'record_length': -1}, 'spare': '', 'facility_related_data_1': "
   "dict{'number_of_records': -1, 'record_length': -1}, 'facility_related_data_2': dict{'number_of_records': -1, 'record_length': -1}, "
   "'facility_related_data_3': dict{'number_of_records': -1, 'record_length': -1}, 'facility_related_data_4': dict{'number_of_records': -1, 'record_length': "
   "-1}, 'facility_related_data_5': dict{'number_of_records': -1, 'record_length': -1}, 'number_of_low_resolution_images': 2, 'low_resolution_image_sizes': "
   "list[dict{'record_length': 24, 'number_of_pixels': 4, 'number_of_lines': 3, 'number_of_bytes_per_one_sample': 2}, dict{'record_length': 40, "
   "'number_of_pixels': 2, 'number_of_lines': 5, 'number_of_bytes_per_one_sample': 4}], 'blanks': ''}",
   'list',
   ['ndarray(dtype=>i2, shape=(4, 3), writeable=False, c=True, owndata=False, base=ndarray, values=[[0, -37, 74], [-111, 148, -185], [222, -259, 296], [-333, '
    '370, -407]])',
    'ndarray(dtype=>i4, shape=(2, 5), writeable=False, c=True, owndata=False, base=ndarray, values=[[1000, -1037, 1074, -1111, 1148], [-1185, 1222, -1259, '
    '1296, -1333]])']],
  [(720,), ()]],
 ['first-read-returns',
  'none',
  "RAISED construct.core.StreamError(ConstructError>Exception) args=('Error in path (parsing) -> preamble -> record_sequence_number\\nstream read less than "
  "specified amount, expected 4, found 0',) str='Error in path (parsing) -> preamble -> record_sequence_number\\nstream read less than specified amount, "
  "expected 4, found 0'",
  [(720,)]],
 ['patched-parser',
  "RAISED builtins.RuntimeError(Exception) args=('no 4 byte sam",
  [(b'\x00\x00\xff\xdb\x00J\xff\x91\x00\x94\xffG\x00\xde\xfe\xfd\x01(\xfe\xb3\x01r\xfei', (4, 3), 2, 'bytes', 'tuple', 'int'),
   (b'\x00\x00\x03\xe8\xff\xff\xfb\xf3\x00\x00\x042\xff\xff\xfb\xa9\x00\x00\x04|\xff\xff\xfb_\x00\x00\x04\xc6\xff\xff\xfb\x15\x00\x00\x05\x10\xff\xff\xfa\xcb',
    (2, 5),
    4,
    'bytes',
    'tuple',
    'int')]],
 ['patched-parser-ok',
  [1, 2, 3],
  [(b'abc', (3, 1), 1, 'bytes', 'tuple', 'int'), (b'defg', (1, 2), 2, 'bytes', 'tuple', 'int'), (b'h', (1, 1), 1, 'bytes', 'tuple', 'int')]],
 ['parse_image_data',
  [2, 3],
  2,
  'ndarray(dtype=>i2, shape=(2, 3), writeable=False, c=True, owndata=False, base=ndarray, values=[[0, -37, 74], [-111, 148, -185]])'],
 ['parse_image_data',
  [3, 2],
  2,
  'ndarray(dtype=>i2, shape=(3, 2), writeable=False, c=True, owndata=False, base=ndarray, values=[[0, -37], [74, -111], [148, -185]])'],
 ['parse_image_data', [6], 2, 'ndarray(dtype=>i2, shape=(6,), writeable=False, c=True, owndata=False, base=ndarray, values=[0, -37, 74, -111, 148, -185])'],
 ['parse_image_data',
  [12],
  1,
  'ndarray(dtype=|i1, shape=(12,), writeable=False, c=True, owndata=False, base=ndarray, values=[0, 0, -1, -37, 0, 74, -1, -111, 0, -108, -1, 71])'],
 ['parse_image_data',
  [4, 3],
  2,
  "RAISED builtins.ValueError(Exception) args=('cannot reshape array of size 6 into shape (4,3)',) str='cannot reshape array of size 6 into shape (4,3)'"],
 ['parse_image_data',
  [-1, 3],
  2,
  'ndarray(dtype=>i2, shape=(2, 3), writeable=False, c=True, owndata=False, base=ndarray, values=[[0, -37, 74], [-111, 148, -185]])'],
 ['parse_image_data', [0, 0], 2, 'ndarray(dtype=>i2, shape=(0, 0), writeable=False, c=True, owndata=False, base=ndarray, values=[])'],
 ['parse_image_data', [2, 3], 3, 'RAISED builtins.TypeError(Exception) args=("data type \'>i3\' not understood",) str="data type \'>i3\' not understood"'],
 ['parse_image_data', [2, 3], -1, 'RAISED builtins.TypeError(Exception) args=("data type \'>i-1\' not understood",) str="data type \'>i-1\' not understood"'],
 ['name', 'read_sar_trailer', True],
 ['name', 'parse_image_data', True],
 ['name', 'file_descriptor_record', True],
 ['name', 'itertools', True],
 ['function', 'ceos_alos2.sar_trailer', 'read_sar_trailer', ['f']],
 ['kw',
  'observe_trailer',
  ['ndarray(dtype=>i2, shape=(4, 3), writeable=False, c=True, owndata=False, base=ndarray, values=[[0, -37, 74], [-111, 148, -185], [222, -259, 296], [-333, '
   '370, -407]])',
   'ndarray(dtype=>i4, shape=(2, 5), writeable=False, c=True, owndata=False, base=ndarray, values=[[1000, -1037, 1074, -1111, 1148], [-1185, 1222, -1259, '
   '1296, -1333]])']]]
# EXPECTED-END


def normalize(entry):
    return [list(item) if isinstance(item, tuple) else item for item in entry]


def test_equivalence():
    observations = [normalize(entry) for entry in run()]

    assert len(observations) == len(EXPECTED), (len(observations), len(EXPECTED))
    for actual, expected in zip(observations, EXPECTED):
        assert actual == expected, f"\nactual:   {actual}\nexpected: {expected}"

    # literal spot checks on top of the recorded table
    header = build_header([(24, 4, 3, 2), (40, 2, 5, 4)])
    first = np.array([[0, -37, 74], [-111, 148, -185], [222, -259, 296], [-333, 370, -407]], dtype=">i2")
    second = np.arange(10, dtype=">i4").reshape(2, 5)
    log = []
    parsed, images = sar_trailer.read_sar_trailer(RecordingFile(header + first.tobytes() + second.tobytes(), log))
    assert log == [("read", 720, 0), ("read", -1, 720)], log
    assert type(images) is list and len(images) == 2
    assert images[0].dtype == np.dtype(">i2") and images[0].shape == (4, 3) and (images[0] == first).all()
    assert images[1].dtype == np.dtype(">i4") and images[1].shape == (2, 5) and (images[1] == second).all()
    assert not images[0].flags.writeable and not images[1].flags.writeable
    assert parsed.number_of_low_resolution_images == 2
    assert [dict((k, v) for k, v in record.items() if k != "_io") for record in parsed.low_resolution_image_sizes] == [
        {"record_length": 24, "number_of_pixels": 4, "number_of_lines": 3, "number_of_bytes_per_one_sample": 2},
        {"record_length": 40, "number_of_pixels": 2, "number_of_lines": 5, "number_of_bytes_per_one_sample": 4},
    ]

    # the header is parsed before the rest of the file is requested
    log = []
    try:
        sar_trailer.read_sar_trailer(RecordingFile(header[:300], log))
    except Exception as e:
        assert type(e).__name__ == "StreamError", type(e)
    else:
        raise AssertionError("did not raise")
    assert log == [("read", 720, 0)], log


if __name__ == "__main__":
    if "--record" in sys.argv:
        print("EXPECTED = " + pprint.pformat([normalize(entry) for entry in run()], width=160))
    else:
        test_equivalence()
        print("OK", len(EXPECTED), "observations")
