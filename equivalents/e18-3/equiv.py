"""Equivalence check for refactoring 3 (ceos_alos2.volume_directory.metadata:
transform_volume_descriptor, transform_text, transform_record; also exercised through
ceos_alos2.volume_directory.open_volume_directory on synthesised volume directory files).

Run as:  PYTHONPATH=<worktree> python _eq/3/equiv.py           (checks, exit code 0 on success)
         PYTHONPATH=<worktree> python _eq/3/equiv.py --record  (prints the EXPECTED literal)

EXPECTED below was recorded from the unchanged code at HEAD.
"""

import struct
import sys

import fsspec

from ceos_alos2.hierarchy import Group
from ceos_alos2.volume_directory import io, metadata, open_volume_directory
from ceos_alos2.volume_directory import structure


def normalise(obj):
    """Type- and order-preserving, literal-friendly description of a result."""
    if isinstance(obj, Group):
        return (
            "Group",
            [(name, normalise(getattr(obj, name))) for name in ("path", "url", "data", "attrs")],
        )
    if isinstance(obj, dict):
        return (type(obj).__name__, [(normalise(k), normalise(v)) for k, v in obj.items()])
    if isinstance(obj, (list, tuple)):
        return (type(obj).__name__, [normalise(v) for v in obj])
    return (type(obj).__name__, obj)


def describe_exception(e):
    chain = []
    while e is not None:
        chain.append((type(e).__name__, str(e)))
        e = e.__cause__
    return chain


def run(func, *args):
    try:
        result = func(*args)
    except Exception as e:  # noqa: BLE001
        return ("raised", describe_exception(e))
    return ("returned", normalise(result))


# --------------------------------------------------------------------------------------
# inputs for the three transformers


def volume_descriptor_cases():
    full = {
        "preamble": {"record_sequence_number": 1, "record_length": 360},
        "ascii_ebcdic_flag": "A",
        "blanks": "",
        "superstructure_format_control_document_id": "CEOS-SAR",
        "superstructure_format_control_document_revision_level": "A",
        "superstructure_record_format_revision_level": "A",
        "software_release_and_revision_level": "001.001",
        "physical_volume_id": "PV",
        "logical_volume_id": "LV",
        "volume_set_id": "VS",
        "total_number_of_physical_volumes_in_logical_volume": 1,
        "physical_volume_sequence_number_of_the_first_tape": 1,
        "physical_volume_sequence_number_of_the_last_tape": 1,
        "physical_volume_sequence_number_of_the_current_tape": 1,
        "file_number_in_the_logical_volume": 2,
        "logical_volume_within_a_volume_set": 3,
        "logical_volume_number_within_physical_volume": 4,
        "logical_volume_creation_datetime": "2020101117233798",
        "logical_volume_generation_country": "JAPAN",
        "logical_volume_generating_agency": "JAXA",
        "logical_volume_generating_facility": "SCMO",
        "number_of_file_pointer_records": 4,
        "number_of_text_records_in_volume_directory": 1,
        "spare": "",
        "local_use_segment": "",
    }
    mappings = [
        full,
        dict(reversed(list(full.items()))),
        {},
        {"number_of_file_pointer_records": 4, "volume_set_id": "abc"},
        {"logical_volume_creation_datetime": "2020101117233798"},
        {"creation_datetime": "2020101117233798"},
        {"creation_datetime": "20201011172337"},
        {"creation_datetime": "2020101117233798123456"},
        # both the long and the short name: the later value wins, the earlier position is kept
        {"logical_volume_creation_datetime": "2020101117233798", "x": 1,
         "creation_datetime": "1999123123595999"},
        {"creation_datetime": "1999123123595999", "x": 1,
         "logical_volume_creation_datetime": "2020101117233798"},
        {"software_version": "a", "software_release_and_revision_level": "b"},
        # already translated names are kept, unknown names are kept
        {"control_document_id": "a", "creation_country": "b", "unknown": [1, 2], "nested": {"a": 1}},
        # bad datetimes
        {"logical_volume_creation_datetime": ""},
        {"logical_volume_creation_datetime": "2020-10-11"},
        {"logical_volume_creation_datetime": "2020131117233798"},
        {"logical_volume_creation_datetime": None},
        {"logical_volume_creation_datetime": 2020101117233798},
        {"creation_datetime": b"2020101117233798"},
        # the postprocessor only applies to the translated name
        {"preamble": "2020", "spare": None, "Creation_Datetime": "x", "creation_datetime ": "y"},
        # non-string keys
        {1: "a", None: "b", ("spare",): "c", "spare": "d"},
    ]
    others = [None, 1, "abc", [], [("spare", 1)], (("a", 1),), object]
    return [(m,) for m in mappings] + [(o,) for o in others]


def text_cases():
    full = {
        "preamble": {"record_sequence_number": 6},
        "ascii_ebcdic_flag": "A",
        "blanks": "",
        "product_id": "PRODUCT:WWDR1.5RUA",
        "location_and_datetime_of_product_creation": "JAXA 20201011 172337",
        "physical_tape_id": "TAPE",
        "scene_id": "ORBIT:ALOS2225333200-180726",
        "scene_location_id": "loc",
    }
    mappings = [
        full,
        dict(reversed(list(full.items()))),
        {},
        {"preamble": {}, "ascii_ebcdic_flag": "a", "blanks": "", "physical_tape_id": 1},
        {"blanks": "", "product_id": "PRODUCT:WWDR1.5RUA"},
        {"product_id": "b", "location_and_datetime_of_product_creation": "a"},
        {"product_creation": "a", "x": 0, "location_and_datetime_of_product_creation": "b"},
        {"location_and_datetime_of_product_creation": "b", "x": 0, "product_creation": "a"},
        {"spare": "kept", "local_use_segment": "kept", "creation_datetime": "not a date"},
        {1: "a", None: "b", ("blanks",): "c"},
    ]
    others = [None, 1, "abc", [], [("blanks", 1)], object]
    return [(m,) for m in mappings] + [(o,) for o in others]


def record_cases():
    mappings = [
        {
            "volume_descriptor": {"a": 1},
            "file_descriptors": [{"b": 2}, {"c": 3}],
            "text_record": {"d": 4},
        },
        {
            "volume_descriptor": {"preamble": "a", "logical_volume_generation_country": "a"},
            "text_record": {"blanks": "", "location_and_datetime_of_product_creation": "b"},
        },
        {"volume_descriptor": {"a": 1, "b": 2}, "text_record": {"c": 3, "d": 4}},
        # different order of the sections
        {"text_record": {"c": 3, "d": 4}, "file_descriptors": [], "volume_descriptor": {"a": 1}},
        # keys shared between the sections and with extra entries
        {
            "volume_descriptor": {"a": 1, "scene_id": "x", "logical_volume_id": "l"},
            "extra": "e",
            "text_record": {"scene_id": "y", "a": 2, "extra": "f"},
            "a": 3,
        },
        {"extra": {"nested": {"deep": 1}, "flat": 2}, "other": [1, 2], "none": None},
        {},
        {"file_descriptors": [{"a": 1}]},
        {"volume_descriptor": {}, "text_record": {}},
        # date handling inside the record
        {"volume_descriptor": {"logical_volume_creation_datetime": "2020101117233798"}},
        {"volume_descriptor": {"logical_volume_creation_datetime": "yesterday"}},
        # not only the volume descriptor may carry this name; only it is post-processed
        {"text_record": {"creation_datetime": "x"}, "volume_descriptor": {}},
        {"creation_datetime": "x"},
        # sections of the wrong type
        {"volume_descriptor": None},
        {"text_record": 1},
        {"volume_descriptor": [("a", 1)]},
        {"volume_descriptor": {"a": 1}, "text_record": "abc"},
        {"file_descriptors": None, "volume_descriptor": {"a": 1}},
    ]
    others = [None, 1, "abc", [], object]
    return [(m,) for m in mappings] + [(o,) for o in others]


# --------------------------------------------------------------------------------------
# synthesised volume directory files


def build(struct_, values):
    """Encode ``values`` (a list parallel to the fields of the struct) as fixed-width ASCII."""
    chunks = []
    for subcon, value in zip(struct_.subcons, values, strict=True):
        size = subcon.sizeof()
        if subcon.name == "preamble":
            chunks.append(struct.pack(">IBBBBI", *value))
            continue
        if isinstance(value, int):
            text = str(value).rjust(size)
        else:
            text = value.ljust(size)
        encoded = text.encode("ascii")
        assert len(encoded) == size, (subcon.name, value)
        chunks.append(encoded)
    return b"".join(chunks)


def volume_descriptor_bytes(n_pointers, creation="2020101117233798", n_text=1, agency="JAXA"):
    values = [
        (1, 192, 192, 18, 18, 360), "A", "", "CEOS-SAR", "A", "A", "001.001", "PHYSVOL", "LOGVOL",
        "VOLSET", 1, 1, 1, 1, 2, 3, 4, creation, "JAPAN", agency, "SCMO", n_pointers, n_text, "", "",
    ]
    return build(structure.volume_descriptor, values)


def file_descriptor_bytes(number):
    values = [
        (number + 1, 219, 192, 18, 18, 360), "A", "", number, f"FILE{number}", "SARLEADER FILE", "SARL",
        "MIXED BINARY AND ASCII", "MBAA", 10, 720, 4680, "VARIABLE LEN", "VARE", 1, 1, 1, 10,
        "", "",
    ]
    return build(structure.file_descriptor, values)


def text_record_bytes(product_id="PRODUCT:WWDR1.5RUA", creation="JAXA 20201011 172337"):
    values = [
        (6, 18, 63, 18, 18, 360), "A", "", product_id, creation, "TAPE 1",
        "ORBIT:ALOS2225333200-180726", "SCENE LOCATION", "",
    ]
    return build(structure.text_record, values)


def volume_directory_bytes(
    n_pointers,
    n_descriptors=None,
    *,
    volume_creation="2020101117233798",
    agency="JAXA",
    product_id="PRODUCT:WWDR1.5RUA",
    product_creation="JAXA 20201011 172337",
):
    if n_descriptors is None:
        n_descriptors = n_pointers
    return (
        volume_descriptor_bytes(n_pointers, creation=volume_creation, agency=agency)
        + b"".join(file_descriptor_bytes(n) for n in range(1, n_descriptors + 1))
        + text_record_bytes(product_id=product_id, creation=product_creation)
    )


def files():
    good = volume_directory_bytes(4)
    return {
        "VOL-good4": good,
        "VOL-good0": volume_directory_bytes(0),
        "VOL-good1": volume_directory_bytes(1, agency=""),
        "VOL-good6": volume_directory_bytes(6, product_id="", product_creation=""),
        "VOL-blank-date": volume_directory_bytes(2, volume_creation=""),
        "VOL-bad-date": volume_directory_bytes(2, volume_creation="2020-10-11 17:23"),
        "VOL-short-date": volume_directory_bytes(2, volume_creation="20201011172337"),
        "VOL-blank-count": volume_directory_bytes("", 0),
        "VOL-bad-count": volume_directory_bytes("four", 4),
        "VOL-too-few-descriptors": volume_directory_bytes(4, 2),
        "VOL-too-many-descriptors": volume_directory_bytes(2, 4),
        "VOL-truncated": good[:1000],
        "VOL-truncated-in-text": good[: 360 * 5 + 100],
        "VOL-trailing-garbage": good + b"garbage" * 10,
        "VOL-empty": b"",
        "VOL-non-ascii": good[:20] + b"\xff\xfe" + good[22:],
        "sub/VOL-nested": good,
    }


class RecordingMapping(dict):
    """A plain dict mapper that records which keys were requested."""

    def __init__(self, *args, **kwargs):
        super().__init__(*args, **kwargs)
        self.requests = []

    def __getitem__(self, key):
        self.requests.append(key)
        return super().__getitem__(key)


def open_cases():
    fs = fsspec.filesystem("memory")
    root = "/_eq3"
    if fs.exists(root):
        fs.rm(root, recursive=True)
    fs_mapper = fsspec.get_mapper(f"memory://{root}")
    dict_mapper = RecordingMapping()
    for name, content in files().items():
        fs_mapper[name] = content
        dict_mapper[name] = content

    paths = list(files()) + ["VOL-missing", "sub", "", "sub/missing"]
    cases = []
    for path in paths:
        cases.append((fs_mapper, path))
        cases.append((dict_mapper, path))
    cases.append((dict_mapper, None))
    cases.append((dict_mapper, ["unhashable"]))
    cases.append((None, "VOL-good4"))
    cases.append(({"VOL": "a str, not bytes"}, "VOL"))
    cases.append(({"VOL": None}, "VOL"))
    return cases, dict_mapper


def compute():
    results = []
    results += [run(metadata.transform_volume_descriptor, *a) for a in volume_descriptor_cases()]
    results += [run(metadata.transform_text, *a) for a in text_cases()]
    results += [run(metadata.transform_record, *a) for a in record_cases()]

    # the inputs must not be modified
    unmodified = []
    for cases, func in [
        (volume_descriptor_cases, metadata.transform_volume_descriptor),
        (text_cases, metadata.transform_text),
        (record_cases, metadata.transform_record),
    ]:
        for (arg,), (pristine,) in zip(cases(), cases()):
            if not isinstance(arg, dict):
                continue
            try:
                func(arg)
            except Exception:  # noqa: BLE001
                pass
            unmodified.append(normalise(arg) == normalise(pristine))
    results.append(("inputs unmodified", unmodified))

    cases, dict_mapper = open_cases()
    results += [run(open_volume_directory, *a) for a in cases]
    results.append(("requests", [repr(r) for r in dict_mapper.requests]))

    # parse_data followed by transform_record (what open_volume_directory does)
    for name, content in files().items():
        results.append(run(lambda c: metadata.transform_record(io.parse_data(c)), content))
    return results


EXPECTED = [('returned',
  ('dict',
   [(('str', 'control_document_id'), ('str', 'CEOS-SAR')),
    (('str', 'control_document_revision_level'), ('str', 'A')),
    (('str', 'record_format_revision_level'), ('str', 'A')),
    (('str', 'software_version'), ('str', '001.001')),
    (('str', 'physical_volume_id'), ('str', 'PV')), (('str', 'logical_volume_id'), ('str', 'LV')),
    (('str', 'volume_set_id'), ('str', 'VS')),
    (('str', 'creation_datetime'), ('str', '2020-10-11T17:23:37.980000')),
    (('str', 'creation_country'), ('str', 'JAPAN')), (('str', 'creation_agency'), ('str', 'JAXA')),
    (('str', 'creation_facility'), ('str', 'SCMO'))])),
 ('returned',
  ('dict',
   [(('str', 'creation_facility'), ('str', 'SCMO')), (('str', 'creation_agency'), ('str', 'JAXA')),
    (('str', 'creation_country'), ('str', 'JAPAN')),
    (('str', 'creation_datetime'), ('str', '2020-10-11T17:23:37.980000')),
    (('str', 'volume_set_id'), ('str', 'VS')), (('str', 'logical_volume_id'), ('str', 'LV')),
    (('str', 'physical_volume_id'), ('str', 'PV')),
    (('str', 'software_version'), ('str', '001.001')),
    (('str', 'record_format_revision_level'), ('str', 'A')),
    (('str', 'control_document_revision_level'), ('str', 'A')),
    (('str', 'control_document_id'), ('str', 'CEOS-SAR'))])),
 ('returned', ('dict', [])), ('returned', ('dict', [(('str', 'volume_set_id'), ('str', 'abc'))])),
 ('returned', ('dict', [(('str', 'creation_datetime'), ('str', '2020-10-11T17:23:37.980000'))])),
 ('returned', ('dict', [(('str', 'creation_datetime'), ('str', '2020-10-11T17:23:37.980000'))])),
 ('returned', ('dict', [(('str', 'creation_datetime'), ('str', '2020-10-11T17:23:03.700000'))])),
 ('raised', [('ValueError', 'unconverted data remains: 56')]),
 ('returned',
  ('dict',
   [(('str', 'creation_datetime'), ('str', '1999-12-31T23:59:59.990000')),
    (('str', 'x'), ('int', 1))])),
 ('returned',
  ('dict',
   [(('str', 'creation_datetime'), ('str', '2020-10-11T17:23:37.980000')),
    (('str', 'x'), ('int', 1))])),
 ('returned', ('dict', [(('str', 'software_version'), ('str', 'b'))])),
 ('returned',
  ('dict',
   [(('str', 'control_document_id'), ('str', 'a')), (('str', 'creation_country'), ('str', 'b')),
    (('str', 'unknown'), ('list', [('int', 1), ('int', 2)])),
    (('str', 'nested'), ('dict', [(('str', 'a'), ('int', 1))]))])),
 ('raised', [('ValueError', "time data '' does not match format '%Y%m%d%H%M%S%f'")]),
 ('raised', [('ValueError', "time data '2020-10-11' does not match format '%Y%m%d%H%M%S%f'")]),
 ('returned', ('dict', [(('str', 'creation_datetime'), ('str', '2020-01-31T11:07:23.379800'))])),
 ('raised', [('TypeError', 'strptime() argument 1 must be str, not None')]),
 ('raised', [('TypeError', 'strptime() argument 1 must be str, not int')]),
 ('raised', [('TypeError', 'strptime() argument 1 must be str, not bytes')]),
 ('returned',
  ('dict',
   [(('str', 'Creation_Datetime'), ('str', 'x')), (('str', 'creation_datetime '), ('str', 'y'))])),
 ('returned',
  ('dict',
   [(('int', 1), ('str', 'a')), (('NoneType', None), ('str', 'b')),
    (('tuple', [('str', 'spare')]), ('str', 'c'))])),
 ('raised', [('AttributeError', "'NoneType' object has no attribute 'items'")]),
 ('raised', [('AttributeError', "'int' object has no attribute 'items'")]),
 ('raised', [('AttributeError', "'str' object has no attribute 'items'")]),
 ('raised', [('AttributeError', "'list' object has no attribute 'items'")]),
 ('raised', [('AttributeError', "'list' object has no attribute 'items'")]),
 ('raised', [('AttributeError', "'tuple' object has no attribute 'items'")]),
 ('raised', [('AttributeError', "type object 'object' has no attribute 'items'")]),
 ('returned',
  ('dict',
   [(('str', 'product_id'), ('str', 'PRODUCT:WWDR1.5RUA')),
    (('str', 'product_creation'), ('str', 'JAXA 20201011 172337')),
    (('str', 'scene_id'), ('str', 'ORBIT:ALOS2225333200-180726')),
    (('str', 'scene_location_id'), ('str', 'loc'))])),
 ('returned',
  ('dict',
   [(('str', 'scene_location_id'), ('str', 'loc')),
    (('str', 'scene_id'), ('str', 'ORBIT:ALOS2225333200-180726')),
    (('str', 'product_creation'), ('str', 'JAXA 20201011 172337')),
    (('str', 'product_id'), ('str', 'PRODUCT:WWDR1.5RUA'))])),
 ('returned', ('dict', [])), ('returned', ('dict', [])),
 ('returned', ('dict', [(('str', 'product_id'), ('str', 'PRODUCT:WWDR1.5RUA'))])),
 ('returned',
  ('dict', [(('str', 'product_id'), ('str', 'b')), (('str', 'product_creation'), ('str', 'a'))])),
 ('returned', ('dict', [(('str', 'product_creation'), ('str', 'b')), (('str', 'x'), ('int', 0))])),
 ('returned', ('dict', [(('str', 'product_creation'), ('str', 'a')), (('str', 'x'), ('int', 0))])),
 ('returned',
  ('dict',
   [(('str', 'spare'), ('str', 'kept')), (('str', 'local_use_segment'), ('str', 'kept')),
    (('str', 'creation_datetime'), ('str', 'not a date'))])),
 ('returned',
  ('dict',
   [(('int', 1), ('str', 'a')), (('NoneType', None), ('str', 'b')),
    (('tuple', [('str', 'blanks')]), ('str', 'c'))])),
 ('raised', [('AttributeError', "'NoneType' object has no attribute 'items'")]),
 ('raised', [('AttributeError', "'int' object has no attribute 'items'")]),
 ('raised', [('AttributeError', "'str' object has no attribute 'items'")]),
 ('raised', [('AttributeError', "'list' object has no attribute 'items'")]),
 ('raised', [('AttributeError', "'list' object has no attribute 'items'")]),
 ('raised', [('AttributeError', "type object 'object' has no attribute 'items'")]),
 ('returned',
  ('Group',
   [('path', ('str', '/')), ('url', ('NoneType', None)), ('data', ('dict', [])),
    ('attrs', ('dict', [(('str', 'a'), ('int', 1)), (('str', 'd'), ('int', 4))]))])),
 ('returned',
  ('Group',
   [('path', ('str', '/')), ('url', ('NoneType', None)), ('data', ('dict', [])),
    ('attrs',
     ('dict',
      [(('str', 'creation_country'), ('str', 'a')),
       (('str', 'product_creation'), ('str', 'b'))]))])),
 ('returned',
  ('Group',
   [('path', ('str', '/')), ('url', ('NoneType', None)), ('data', ('dict', [])),
    ('attrs',
     ('dict',
      [(('str', 'a'), ('int', 1)), (('str', 'b'), ('int', 2)), (('str', 'c'), ('int', 3)),
       (('str', 'd'), ('int', 4))]))])),
 ('returned',
  ('Group',
   [('path', ('str', '/')), ('url', ('NoneType', None)), ('data', ('dict', [])),
    ('attrs',
     ('dict',
      [(('str', 'c'), ('int', 3)), (('str', 'd'), ('int', 4)), (('str', 'a'), ('int', 1))]))])),
 ('returned',
  ('Group',
   [('path', ('str', '/')), ('url', ('NoneType', None)), ('data', ('dict', [])),
    ('attrs',
     ('dict',
      [(('str', 'a'), ('int', 3)), (('str', 'scene_id'), ('str', 'y')),
       (('str', 'logical_volume_id'), ('str', 'l')), (('str', 'extra'), ('str', 'f'))]))])),
 ('returned',
  ('Group',
   [('path', ('str', '/')), ('url', ('NoneType', None)), ('data', ('dict', [])),
    ('attrs',
     ('dict',
      [(('str', 'nested'), ('dict', [(('str', 'deep'), ('int', 1))])),
       (('str', 'flat'), ('int', 2)), (('str', 'other'), ('list', [('int', 1), ('int', 2)])),
       (('str', 'none'), ('NoneType', None))]))])),
 ('returned',
  ('Group',
   [('path', ('str', '/')), ('url', ('NoneType', None)), ('data', ('dict', [])),
    ('attrs', ('dict', []))])),
 ('returned',
  ('Group',
   [('path', ('str', '/')), ('url', ('NoneType', None)), ('data', ('dict', [])),
    ('attrs', ('dict', []))])),
 ('returned',
  ('Group',
   [('path', ('str', '/')), ('url', ('NoneType', None)), ('data', ('dict', [])),
    ('attrs', ('dict', []))])),
 ('returned',
  ('Group',
   [('path', ('str', '/')), ('url', ('NoneType', None)), ('data', ('dict', [])),
    ('attrs', ('dict', [(('str', 'creation_datetime'), ('str', '2020-10-11T17:23:37.980000'))]))])),
 ('raised', [('ValueError', "time data 'yesterday' does not match format '%Y%m%d%H%M%S%f'")]),
 ('returned',
  ('Group',
   [('path', ('str', '/')), ('url', ('NoneType', None)), ('data', ('dict', [])),
    ('attrs', ('dict', [(('str', 'creation_datetime'), ('str', 'x'))]))])),
 ('returned',
  ('Group',
   [('path', ('str', '/')), ('url', ('NoneType', None)), ('data', ('dict', [])),
    ('attrs', ('dict', [(('str', 'creation_datetime'), ('str', 'x'))]))])),
 ('raised', [('AttributeError', "'NoneType' object has no attribute 'items'")]),
 ('raised', [('AttributeError', "'int' object has no attribute 'items'")]),
 ('raised', [('AttributeError', "'list' object has no attribute 'items'")]),
 ('raised', [('AttributeError', "'str' object has no attribute 'items'")]),
 ('returned',
  ('Group',
   [('path', ('str', '/')), ('url', ('NoneType', None)), ('data', ('dict', [])),
    ('attrs', ('dict', [(('str', 'a'), ('int', 1))]))])),
 ('raised', [('AttributeError', "'NoneType' object has no attribute 'items'")]),
 ('raised', [('AttributeError', "'int' object has no attribute 'items'")]),
 ('raised', [('AttributeError', "'str' object has no attribute 'items'")]),
 ('raised', [('AttributeError', "'list' object has no attribute 'items'")]),
 ('raised', [('AttributeError', "type object 'object' has no attribute 'items'")]),
 ('inputs unmodified',
  [True, True, True, True, True, True, True, True, True, True, True, True, True, True, True, True,
   True, True, True, True, True, True, True, True, True, True, True, True, True, True, True, True,
   True, True, True, True, True, True, True, True, True, True, True, True, True, True, True,
   True]),
 ('returned',
  ('Group',
   [('path', ('str', '/')), ('url', ('NoneType', None)), ('data', ('dict', [])),
    ('attrs',
     ('dict',
      [(('str', 'control_document_id'), ('str', 'CEOS-SAR')),
       (('str', 'control_document_revision_level'), ('str', 'A')),
       (('str', 'record_format_revision_level'), ('str', 'A')),
       (('str', 'software_version'), ('str', '001.001')),
       (('str', 'physical_volume_id'), ('str', 'PHYSVOL')),
       (('str', 'logical_volume_id'), ('str', 'LOGVOL')),
       (('str', 'volume_set_id'), ('str', 'VOLSET')),
       (('str', 'creation_datetime'), ('str', '2020-10-11T17:23:37.980000')),
       (('str', 'creation_country'), ('str', 'JAPAN')),
       (('str', 'creation_agency'), ('str', 'JAXA')),
       (('str', 'creation_facility'), ('str', 'SCMO')),
       (('str', 'product_id'), ('str', 'PRODUCT:WWDR1.5RUA')),
       (('str', 'product_creation'), ('str', 'JAXA 20201011 172337')),
       (('str', 'scene_id'), ('str', 'ORBIT:ALOS2225333200-180726')),
       (('str', 'scene_location_id'), ('str', 'SCENE LOCATION'))]))])),
 ('returned',
  ('Group',
   [('path', ('str', '/')), ('url', ('NoneType', None)), ('data', ('dict', [])),
    ('attrs',
     ('dict',
      [(('str', 'control_document_id'), ('str', 'CEOS-SAR')),
       (('str', 'control_document_revision_level'), ('str', 'A')),
       (('str', 'record_format_revision_level'), ('str', 'A')),
       (('str', 'software_version'), ('str', '001.001')),
       (('str', 'physical_volume_id'), ('str', 'PHYSVOL')),
       (('str', 'logical_volume_id'), ('str', 'LOGVOL')),
       (('str', 'volume_set_id'), ('str', 'VOLSET')),
       (('str', 'creation_datetime'), ('str', '2020-10-11T17:23:37.980000')),
       (('str', 'creation_country'), ('str', 'JAPAN')),
       (('str', 'creation_agency'), ('str', 'JAXA')),
       (('str', 'creation_facility'), ('str', 'SCMO')),
       (('str', 'product_id'), ('str', 'PRODUCT:WWDR1.5RUA')),
       (('str', 'product_creation'), ('str', 'JAXA 20201011 172337')),
       (('str', 'scene_id'), ('str', 'ORBIT:ALOS2225333200-180726')),
       (('str', 'scene_location_id'), ('str', 'SCENE LOCATION'))]))])),
 ('returned',
  ('Group',
   [('path', ('str', '/')), ('url', ('NoneType', None)), ('data', ('dict', [])),
    ('attrs',
     ('dict',
      [(('str', 'control_document_id'), ('str', 'CEOS-SAR')),
       (('str', 'control_document_revision_level'), ('str', 'A')),
       (('str', 'record_format_revision_level'), ('str', 'A')),
       (('str', 'software_version'), ('str', '001.001')),
       (('str', 'physical_volume_id'), ('str', 'PHYSVOL')),
       (('str', 'logical_volume_id'), ('str', 'LOGVOL')),
       (('str', 'volume_set_id'), ('str', 'VOLSET')),
       (('str', 'creation_datetime'), ('str', '2020-10-11T17:23:37.980000')),
       (('str', 'creation_country'), ('str', 'JAPAN')),
       (('str', 'creation_agency'), ('str', 'JAXA')),
       (('str', 'creation_facility'), ('str', 'SCMO')),
       (('str', 'product_id'), ('str', 'PRODUCT:WWDR1.5RUA')),
       (('str', 'product_creation'), ('str', 'JAXA 20201011 172337')),
       (('str', 'scene_id'), ('str', 'ORBIT:ALOS2225333200-180726')),
       (('str', 'scene_location_id'), ('str', 'SCENE LOCATION'))]))])),
 ('returned',
  ('Group',
   [('path', ('str', '/')), ('url', ('NoneType', None)), ('data', ('dict', [])),
    ('attrs',
     ('dict',
      [(('str', 'control_document_id'), ('str', 'CEOS-SAR')),
       (('str', 'control_document_revision_level'), ('str', 'A')),
       (('str', 'record_format_revision_level'), ('str', 'A')),
       (('str', 'software_version'), ('str', '001.001')),
       (('str', 'physical_volume_id'), ('str', 'PHYSVOL')),
       (('str', 'logical_volume_id'), ('str', 'LOGVOL')),
       (('str', 'volume_set_id'), ('str', 'VOLSET')),
       (('str', 'creation_datetime'), ('str', '2020-10-11T17:23:37.980000')),
       (('str', 'creation_country'), ('str', 'JAPAN')),
       (('str', 'creation_agency'), ('str', 'JAXA')),
       (('str', 'creation_facility'), ('str', 'SCMO')),
       (('str', 'product_id'), ('str', 'PRODUCT:WWDR1.5RUA')),
       (('str', 'product_creation'), ('str', 'JAXA 20201011 172337')),
       (('str', 'scene_id'), ('str', 'ORBIT:ALOS2225333200-180726')),
       (('str', 'scene_location_id'), ('str', 'SCENE LOCATION'))]))])),
 ('returned',
  ('Group',
   [('path', ('str', '/')), ('url', ('NoneType', None)), ('data', ('dict', [])),
    ('attrs',
     ('dict',
      [(('str', 'control_document_id'), ('str', 'CEOS-SAR')),
       (('str', 'control_document_revision_level'), ('str', 'A')),
       (('str', 'record_format_revision_level'), ('str', 'A')),
       (('str', 'software_version'), ('str', '001.001')),
       (('str', 'physical_volume_id'), ('str', 'PHYSVOL')),
       (('str', 'logical_volume_id'), ('str', 'LOGVOL')),
       (('str', 'volume_set_id'), ('str', 'VOLSET')),
       (('str', 'creation_datetime'), ('str', '2020-10-11T17:23:37.980000')),
       (('str', 'creation_country'), ('str', 'JAPAN')), (('str', 'creation_agency'), ('str', '')),
       (('str', 'creation_facility'), ('str', 'SCMO')),
       (('str', 'product_id'), ('str', 'PRODUCT:WWDR1.5RUA')),
       (('str', 'product_creation'), ('str', 'JAXA 20201011 172337')),
       (('str', 'scene_id'), ('str', 'ORBIT:ALOS2225333200-180726')),
       (('str', 'scene_location_id'), ('str', 'SCENE LOCATION'))]))])),
 ('returned',
  ('Group',
   [('path', ('str', '/')), ('url', ('NoneType', None)), ('data', ('dict', [])),
    ('attrs',
     ('dict',
      [(('str', 'control_document_id'), ('str', 'CEOS-SAR')),
       (('str', 'control_document_revision_level'), ('str', 'A')),
       (('str', 'record_format_revision_level'), ('str', 'A')),
       (('str', 'software_version'), ('str', '001.001')),
       (('str', 'physical_volume_id'), ('str', 'PHYSVOL')),
       (('str', 'logical_volume_id'), ('str', 'LOGVOL')),
       (('str', 'volume_set_id'), ('str', 'VOLSET')),
       (('str', 'creation_datetime'), ('str', '2020-10-11T17:23:37.980000')),
       (('str', 'creation_country'), ('str', 'JAPAN')), (('str', 'creation_agency'), ('str', '')),
       (('str', 'creation_facility'), ('str', 'SCMO')),
       (('str', 'product_id'), ('str', 'PRODUCT:WWDR1.5RUA')),
       (('str', 'product_creation'), ('str', 'JAXA 20201011 172337')),
       (('str', 'scene_id'), ('str', 'ORBIT:ALOS2225333200-180726')),
       (('str', 'scene_location_id'), ('str', 'SCENE LOCATION'))]))])),
 ('returned',
  ('Group',
   [('path', ('str', '/')), ('url', ('NoneType', None)), ('data', ('dict', [])),
    ('attrs',
     ('dict',
      [(('str', 'control_document_id'), ('str', 'CEOS-SAR')),
       (('str', 'control_document_revision_level'), ('str', 'A')),
       (('str', 'record_format_revision_level'), ('str', 'A')),
       (('str', 'software_version'), ('str', '001.001')),
       (('str', 'physical_volume_id'), ('str', 'PHYSVOL')),
       (('str', 'logical_volume_id'), ('str', 'LOGVOL')),
       (('str', 'volume_set_id'), ('str', 'VOLSET')),
       (('str', 'creation_datetime'), ('str', '2020-10-11T17:23:37.980000')),
       (('str', 'creation_country'), ('str', 'JAPAN')),
       (('str', 'creation_agency'), ('str', 'JAXA')),
       (('str', 'creation_facility'), ('str', 'SCMO')), (('str', 'product_id'), ('str', '')),
       (('str', 'product_creation'), ('str', '')),
       (('str', 'scene_id'), ('str', 'ORBIT:ALOS2225333200-180726')),
       (('str', 'scene_location_id'), ('str', 'SCENE LOCATION'))]))])),
 ('returned',
  ('Group',
   [('path', ('str', '/')), ('url', ('NoneType', None)), ('data', ('dict', [])),
    ('attrs',
     ('dict',
      [(('str', 'control_document_id'), ('str', 'CEOS-SAR')),
       (('str', 'control_document_revision_level'), ('str', 'A')),
       (('str', 'record_format_revision_level'), ('str', 'A')),
       (('str', 'software_version'), ('str', '001.001')),
       (('str', 'physical_volume_id'), ('str', 'PHYSVOL')),
       (('str', 'logical_volume_id'), ('str', 'LOGVOL')),
       (('str', 'volume_set_id'), ('str', 'VOLSET')),
       (('str', 'creation_datetime'), ('str', '2020-10-11T17:23:37.980000')),
       (('str', 'creation_country'), ('str', 'JAPAN')),
       (('str', 'creation_agency'), ('str', 'JAXA')),
       (('str', 'creation_facility'), ('str', 'SCMO')), (('str', 'product_id'), ('str', '')),
       (('str', 'product_creation'), ('str', '')),
       (('str', 'scene_id'), ('str', 'ORBIT:ALOS2225333200-180726')),
       (('str', 'scene_location_id'), ('str', 'SCENE LOCATION'))]))])),
 ('raised', [('ValueError', "time data '' does not match format '%Y%m%d%H%M%S%f'")]),
 ('raised', [('ValueError', "time data '' does not match format '%Y%m%d%H%M%S%f'")]),
 ('raised',
  [('ValueError', "time data '2020-10-11 17:23' does not match format '%Y%m%d%H%M%S%f'")]),
 ('raised',
  [('ValueError', "time data '2020-10-11 17:23' does not match format '%Y%m%d%H%M%S%f'")]),
 ('returned',
  ('Group',
   [('path', ('str', '/')), ('url', ('NoneType', None)), ('data', ('dict', [])),
    ('attrs',
     ('dict',
      [(('str', 'control_document_id'), ('str', 'CEOS-SAR')),
       (('str', 'control_document_revision_level'), ('str', 'A')),
       (('str', 'record_format_revision_level'), ('str', 'A')),
       (('str', 'software_version'), ('str', '001.001')),
       (('str', 'physical_volume_id'), ('str', 'PHYSVOL')),
       (('str', 'logical_volume_id'), ('str', 'LOGVOL')),
       (('str', 'volume_set_id'), ('str', 'VOLSET')),
       (('str', 'creation_datetime'), ('str', '2020-10-11T17:23:03.700000')),
       (('str', 'creation_country'), ('str', 'JAPAN')),
       (('str', 'creation_agency'), ('str', 'JAXA')),
       (('str', 'creation_facility'), ('str', 'SCMO')),
       (('str', 'product_id'), ('str', 'PRODUCT:WWDR1.5RUA')),
       (('str', 'product_creation'), ('str', 'JAXA 20201011 172337')),
       (('str', 'scene_id'), ('str', 'ORBIT:ALOS2225333200-180726')),
       (('str', 'scene_location_id'), ('str', 'SCENE LOCATION'))]))])),
 ('returned',
  ('Group',
   [('path', ('str', '/')), ('url', ('NoneType', None)), ('data', ('dict', [])),
    ('attrs',
     ('dict',
      [(('str', 'control_document_id'), ('str', 'CEOS-SAR')),
       (('str', 'control_document_revision_level'), ('str', 'A')),
       (('str', 'record_format_revision_level'), ('str', 'A')),
       (('str', 'software_version'), ('str', '001.001')),
       (('str', 'physical_volume_id'), ('str', 'PHYSVOL')),
       (('str', 'logical_volume_id'), ('str', 'LOGVOL')),
       (('str', 'volume_set_id'), ('str', 'VOLSET')),
       (('str', 'creation_datetime'), ('str', '2020-10-11T17:23:03.700000')),
       (('str', 'creation_country'), ('str', 'JAPAN')),
       (('str', 'creation_agency'), ('str', 'JAXA')),
       (('str', 'creation_facility'), ('str', 'SCMO')),
       (('str', 'product_id'), ('str', 'PRODUCT:WWDR1.5RUA')),
       (('str', 'product_creation'), ('str', 'JAXA 20201011 172337')),
       (('str', 'scene_id'), ('str', 'ORBIT:ALOS2225333200-180726')),
       (('str', 'scene_location_id'), ('str', 'SCENE LOCATION'))]))])),
 ('raised', [('RangeError', 'Error in path (parsing) -> file_descriptors\ninvalid count -1')]),
 ('raised', [('RangeError', 'Error in path (parsing) -> file_descriptors\ninvalid count -1')]),
 ('raised', [('ValueError', "invalid literal for int() with base 10: 'four'")]),
 ('raised', [('ValueError', "invalid literal for int() with base 10: 'four'")]),
 ('raised', [('ValueError', "invalid literal for int() with base 10: 'PROD'")]),
 ('raised', [('ValueError', "invalid literal for int() with base 10: 'PROD'")]),
 ('returned',
  ('Group',
   [('path', ('str', '/')), ('url', ('NoneType', None)), ('data', ('dict', [])),
    ('attrs',
     ('dict',
      [(('str', 'control_document_id'), ('str', 'CEOS-SAR')),
       (('str', 'control_document_revision_level'), ('str', 'A')),
       (('str', 'record_format_revision_level'), ('str', 'A')),
       (('str', 'software_version'), ('str', '001.001')),
       (('str', 'physical_volume_id'), ('str', 'PHYSVOL')),
       (('str', 'logical_volume_id'), ('str', 'LOGVOL')),
       (('str', 'volume_set_id'), ('str', 'VOLSET')),
       (('str', 'creation_datetime'), ('str', '2020-10-11T17:23:37.980000')),
       (('str', 'creation_country'), ('str', 'JAPAN')),
       (('str', 'creation_agency'), ('str', 'JAXA')),
       (('str', 'creation_facility'), ('str', 'SCMO')),
       (('str', 'product_id'), ('str', '3FILE3           SARLEADER FILE')),
       (('str', 'product_creation'),
        ('str', 'SARLMIXED BINARY AND ASCII      MBAA      10     720')),
       (('str', 'scene_id'), ('str', '10')), (('str', 'scene_location_id'), ('str', ''))]))])),
 ('returned',
  ('Group',
   [('path', ('str', '/')), ('url', ('NoneType', None)), ('data', ('dict', [])),
    ('attrs',
     ('dict',
      [(('str', 'control_document_id'), ('str', 'CEOS-SAR')),
       (('str', 'control_document_revision_level'), ('str', 'A')),
       (('str', 'record_format_revision_level'), ('str', 'A')),
       (('str', 'software_version'), ('str', '001.001')),
       (('str', 'physical_volume_id'), ('str', 'PHYSVOL')),
       (('str', 'logical_volume_id'), ('str', 'LOGVOL')),
       (('str', 'volume_set_id'), ('str', 'VOLSET')),
       (('str', 'creation_datetime'), ('str', '2020-10-11T17:23:37.980000')),
       (('str', 'creation_country'), ('str', 'JAPAN')),
       (('str', 'creation_agency'), ('str', 'JAXA')),
       (('str', 'creation_facility'), ('str', 'SCMO')),
       (('str', 'product_id'), ('str', '3FILE3           SARLEADER FILE')),
       (('str', 'product_creation'),
        ('str', 'SARLMIXED BINARY AND ASCII      MBAA      10     720')),
       (('str', 'scene_id'), ('str', '10')), (('str', 'scene_location_id'), ('str', ''))]))])),
 ('raised',
  [('StreamError',
    'Error in path (parsing) -> file_descriptors -> local_use_segment\n'
    'stream read less than specified amount, expected 100, found 20')]),
 ('raised',
  [('StreamError',
    'Error in path (parsing) -> file_descriptors -> local_use_segment\n'
    'stream read less than specified amount, expected 100, found 20')]),
 ('raised',
  [('StreamError',
    'Error in path (parsing) -> text_record -> location_and_datetime_of_product_creation\n'
    'stream read less than specified amount, expected 60, found 44')]),
 ('raised',
  [('StreamError',
    'Error in path (parsing) -> text_record -> location_and_datetime_of_product_creation\n'
    'stream read less than specified amount, expected 60, found 44')]),
 ('returned',
  ('Group',
   [('path', ('str', '/')), ('url', ('NoneType', None)), ('data', ('dict', [])),
    ('attrs',
     ('dict',
      [(('str', 'control_document_id'), ('str', 'CEOS-SAR')),
       (('str', 'control_document_revision_level'), ('str', 'A')),
       (('str', 'record_format_revision_level'), ('str', 'A')),
       (('str', 'software_version'), ('str', '001.001')),
       (('str', 'physical_volume_id'), ('str', 'PHYSVOL')),
       (('str', 'logical_volume_id'), ('str', 'LOGVOL')),
       (('str', 'volume_set_id'), ('str', 'VOLSET')),
       (('str', 'creation_datetime'), ('str', '2020-10-11T17:23:37.980000')),
       (('str', 'creation_country'), ('str', 'JAPAN')),
       (('str', 'creation_agency'), ('str', 'JAXA')),
       (('str', 'creation_facility'), ('str', 'SCMO')),
       (('str', 'product_id'), ('str', 'PRODUCT:WWDR1.5RUA')),
       (('str', 'product_creation'), ('str', 'JAXA 20201011 172337')),
       (('str', 'scene_id'), ('str', 'ORBIT:ALOS2225333200-180726')),
       (('str', 'scene_location_id'), ('str', 'SCENE LOCATION'))]))])),
 ('returned',
  ('Group',
   [('path', ('str', '/')), ('url', ('NoneType', None)), ('data', ('dict', [])),
    ('attrs',
     ('dict',
      [(('str', 'control_document_id'), ('str', 'CEOS-SAR')),
       (('str', 'control_document_revision_level'), ('str', 'A')),
       (('str', 'record_format_revision_level'), ('str', 'A')),
       (('str', 'software_version'), ('str', '001.001')),
       (('str', 'physical_volume_id'), ('str', 'PHYSVOL')),
       (('str', 'logical_volume_id'), ('str', 'LOGVOL')),
       (('str', 'volume_set_id'), ('str', 'VOLSET')),
       (('str', 'creation_datetime'), ('str', '2020-10-11T17:23:37.980000')),
       (('str', 'creation_country'), ('str', 'JAPAN')),
       (('str', 'creation_agency'), ('str', 'JAXA')),
       (('str', 'creation_facility'), ('str', 'SCMO')),
       (('str', 'product_id'), ('str', 'PRODUCT:WWDR1.5RUA')),
       (('str', 'product_creation'), ('str', 'JAXA 20201011 172337')),
       (('str', 'scene_id'), ('str', 'ORBIT:ALOS2225333200-180726')),
       (('str', 'scene_location_id'), ('str', 'SCENE LOCATION'))]))])),
 ('raised',
  [('StreamError',
    'Error in path (parsing) -> volume_descriptor -> preamble -> record_sequence_number\n'
    'stream read less than specified amount, expected 4, found 0')]),
 ('raised',
  [('StreamError',
    'Error in path (parsing) -> volume_descriptor -> preamble -> record_sequence_number\n'
    'stream read less than specified amount, expected 4, found 0')]),
 ('raised', [('StringError', "cannot use encoding 'ascii' to decode b'CEOS\\xff\\xfeAR    '")]),
 ('raised', [('StringError', "cannot use encoding 'ascii' to decode b'CEOS\\xff\\xfeAR    '")]),
 ('returned',
  ('Group',
   [('path', ('str', '/')), ('url', ('NoneType', None)), ('data', ('dict', [])),
    ('attrs',
     ('dict',
      [(('str', 'control_document_id'), ('str', 'CEOS-SAR')),
       (('str', 'control_document_revision_level'), ('str', 'A')),
       (('str', 'record_format_revision_level'), ('str', 'A')),
       (('str', 'software_version'), ('str', '001.001')),
       (('str', 'physical_volume_id'), ('str', 'PHYSVOL')),
       (('str', 'logical_volume_id'), ('str', 'LOGVOL')),
       (('str', 'volume_set_id'), ('str', 'VOLSET')),
       (('str', 'creation_datetime'), ('str', '2020-10-11T17:23:37.980000')),
       (('str', 'creation_country'), ('str', 'JAPAN')),
       (('str', 'creation_agency'), ('str', 'JAXA')),
       (('str', 'creation_facility'), ('str', 'SCMO')),
       (('str', 'product_id'), ('str', 'PRODUCT:WWDR1.5RUA')),
       (('str', 'product_creation'), ('str', 'JAXA 20201011 172337')),
       (('str', 'scene_id'), ('str', 'ORBIT:ALOS2225333200-180726')),
       (('str', 'scene_location_id'), ('str', 'SCENE LOCATION'))]))])),
 ('returned',
  ('Group',
   [('path', ('str', '/')), ('url', ('NoneType', None)), ('data', ('dict', [])),
    ('attrs',
     ('dict',
      [(('str', 'control_document_id'), ('str', 'CEOS-SAR')),
       (('str', 'control_document_revision_level'), ('str', 'A')),
       (('str', 'record_format_revision_level'), ('str', 'A')),
       (('str', 'software_version'), ('str', '001.001')),
       (('str', 'physical_volume_id'), ('str', 'PHYSVOL')),
       (('str', 'logical_volume_id'), ('str', 'LOGVOL')),
       (('str', 'volume_set_id'), ('str', 'VOLSET')),
       (('str', 'creation_datetime'), ('str', '2020-10-11T17:23:37.980000')),
       (('str', 'creation_country'), ('str', 'JAPAN')),
       (('str', 'creation_agency'), ('str', 'JAXA')),
       (('str', 'creation_facility'), ('str', 'SCMO')),
       (('str', 'product_id'), ('str', 'PRODUCT:WWDR1.5RUA')),
       (('str', 'product_creation'), ('str', 'JAXA 20201011 172337')),
       (('str', 'scene_id'), ('str', 'ORBIT:ALOS2225333200-180726')),
       (('str', 'scene_location_id'), ('str', 'SCENE LOCATION'))]))])),
 ('raised',
  [('FileNotFoundError', 'Cannot open VOL-missing'), ('KeyError', "'VOL-missing'"),
   ('FileNotFoundError', '/_eq3/VOL-missing'), ('KeyError', "'/_eq3/VOL-missing'")]),
 ('raised', [('FileNotFoundError', 'Cannot open VOL-missing'), ('KeyError', "'VOL-missing'")]),
 ('raised',
  [('FileNotFoundError', 'Cannot open sub'), ('KeyError', "'sub'"),
   ('FileNotFoundError', '/_eq3/sub'), ('KeyError', "'/_eq3/sub'")]),
 ('raised', [('FileNotFoundError', 'Cannot open sub'), ('KeyError', "'sub'")]),
 ('raised',
  [('FileNotFoundError', 'Cannot open '), ('KeyError', "''"), ('FileNotFoundError', '/_eq3'),
   ('KeyError', "'/_eq3'")]),
 ('raised', [('FileNotFoundError', 'Cannot open '), ('KeyError', "''")]),
 ('raised',
  [('FileNotFoundError', 'Cannot open sub/missing'), ('KeyError', "'sub/missing'"),
   ('FileNotFoundError', '/_eq3/sub/missing'), ('KeyError', "'/_eq3/sub/missing'")]),
 ('raised', [('FileNotFoundError', 'Cannot open sub/missing'), ('KeyError', "'sub/missing'")]),
 ('raised', [('FileNotFoundError', 'Cannot open None'), ('KeyError', 'None')]),
 ('raised', [('TypeError', "unhashable type: 'list'")]),
 ('raised', [('TypeError', "'NoneType' object is not subscriptable")]),
 ('raised', [('TypeError', "a bytes-like object is required, not 'str'")]),
 ('raised',
  [('StreamError',
    'Error in path (parsing) -> volume_descriptor -> preamble -> record_sequence_number\n'
    'stream read less than specified amount, expected 4, found 0')]),
 ('requests',
  ["'VOL-good4'", "'VOL-good0'", "'VOL-good1'", "'VOL-good6'", "'VOL-blank-date'", "'VOL-bad-date'",
   "'VOL-short-date'", "'VOL-blank-count'", "'VOL-bad-count'", "'VOL-too-few-descriptors'",
   "'VOL-too-many-descriptors'", "'VOL-truncated'", "'VOL-truncated-in-text'",
   "'VOL-trailing-garbage'", "'VOL-empty'", "'VOL-non-ascii'", "'sub/VOL-nested'", "'VOL-missing'",
   "'sub'", "''", "'sub/missing'", 'None', "['unhashable']"]),
 ('returned',
  ('Group',
   [('path', ('str', '/')), ('url', ('NoneType', None)), ('data', ('dict', [])),
    ('attrs',
     ('dict',
      [(('str', 'control_document_id'), ('str', 'CEOS-SAR')),
       (('str', 'control_document_revision_level'), ('str', 'A')),
       (('str', 'record_format_revision_level'), ('str', 'A')),
       (('str', 'software_version'), ('str', '001.001')),
       (('str', 'physical_volume_id'), ('str', 'PHYSVOL')),
       (('str', 'logical_volume_id'), ('str', 'LOGVOL')),
       (('str', 'volume_set_id'), ('str', 'VOLSET')),
       (('str', 'creation_datetime'), ('str', '2020-10-11T17:23:37.980000')),
       (('str', 'creation_country'), ('str', 'JAPAN')),
       (('str', 'creation_agency'), ('str', 'JAXA')),
       (('str', 'creation_facility'), ('str', 'SCMO')),
       (('str', 'product_id'), ('str', 'PRODUCT:WWDR1.5RUA')),
       (('str', 'product_creation'), ('str', 'JAXA 20201011 172337')),
       (('str', 'scene_id'), ('str', 'ORBIT:ALOS2225333200-180726')),
       (('str', 'scene_location_id'), ('str', 'SCENE LOCATION'))]))])),
 ('returned',
  ('Group',
   [('path', ('str', '/')), ('url', ('NoneType', None)), ('data', ('dict', [])),
    ('attrs',
     ('dict',
      [(('str', 'control_document_id'), ('str', 'CEOS-SAR')),
       (('str', 'control_document_revision_level'), ('str', 'A')),
       (('str', 'record_format_revision_level'), ('str', 'A')),
       (('str', 'software_version'), ('str', '001.001')),
       (('str', 'physical_volume_id'), ('str', 'PHYSVOL')),
       (('str', 'logical_volume_id'), ('str', 'LOGVOL')),
       (('str', 'volume_set_id'), ('str', 'VOLSET')),
       (('str', 'creation_datetime'), ('str', '2020-10-11T17:23:37.980000')),
       (('str', 'creation_country'), ('str', 'JAPAN')),
       (('str', 'creation_agency'), ('str', 'JAXA')),
       (('str', 'creation_facility'), ('str', 'SCMO')),
       (('str', 'product_id'), ('str', 'PRODUCT:WWDR1.5RUA')),
       (('str', 'product_creation'), ('str', 'JAXA 20201011 172337')),
       (('str', 'scene_id'), ('str', 'ORBIT:ALOS2225333200-180726')),
       (('str', 'scene_location_id'), ('str', 'SCENE LOCATION'))]))])),
 ('returned',
  ('Group',
   [('path', ('str', '/')), ('url', ('NoneType', None)), ('data', ('dict', [])),
    ('attrs',
     ('dict',
      [(('str', 'control_document_id'), ('str', 'CEOS-SAR')),
       (('str', 'control_document_revision_level'), ('str', 'A')),
       (('str', 'record_format_revision_level'), ('str', 'A')),
       (('str', 'software_version'), ('str', '001.001')),
       (('str', 'physical_volume_id'), ('str', 'PHYSVOL')),
       (('str', 'logical_volume_id'), ('str', 'LOGVOL')),
       (('str', 'volume_set_id'), ('str', 'VOLSET')),
       (('str', 'creation_datetime'), ('str', '2020-10-11T17:23:37.980000')),
       (('str', 'creation_country'), ('str', 'JAPAN')), (('str', 'creation_agency'), ('str', '')),
       (('str', 'creation_facility'), ('str', 'SCMO')),
       (('str', 'product_id'), ('str', 'PRODUCT:WWDR1.5RUA')),
       (('str', 'product_creation'), ('str', 'JAXA 20201011 172337')),
       (('str', 'scene_id'), ('str', 'ORBIT:ALOS2225333200-180726')),
       (('str', 'scene_location_id'), ('str', 'SCENE LOCATION'))]))])),
 ('returned',
  ('Group',
   [('path', ('str', '/')), ('url', ('NoneType', None)), ('data', ('dict', [])),
    ('attrs',
     ('dict',
      [(('str', 'control_document_id'), ('str', 'CEOS-SAR')),
       (('str', 'control_document_revision_level'), ('str', 'A')),
       (('str', 'record_format_revision_level'), ('str', 'A')),
       (('str', 'software_version'), ('str', '001.001')),
       (('str', 'physical_volume_id'), ('str', 'PHYSVOL')),
       (('str', 'logical_volume_id'), ('str', 'LOGVOL')),
       (('str', 'volume_set_id'), ('str', 'VOLSET')),
       (('str', 'creation_datetime'), ('str', '2020-10-11T17:23:37.980000')),
       (('str', 'creation_country'), ('str', 'JAPAN')),
       (('str', 'creation_agency'), ('str', 'JAXA')),
       (('str', 'creation_facility'), ('str', 'SCMO')), (('str', 'product_id'), ('str', '')),
       (('str', 'product_creation'), ('str', '')),
       (('str', 'scene_id'), ('str', 'ORBIT:ALOS2225333200-180726')),
       (('str', 'scene_location_id'), ('str', 'SCENE LOCATION'))]))])),
 ('raised', [('ValueError', "time data '' does not match format '%Y%m%d%H%M%S%f'")]),
 ('raised',
  [('ValueError', "time data '2020-10-11 17:23' does not match format '%Y%m%d%H%M%S%f'")]),
 ('returned',
  ('Group',
   [('path', ('str', '/')), ('url', ('NoneType', None)), ('data', ('dict', [])),
    ('attrs',
     ('dict',
      [(('str', 'control_document_id'), ('str', 'CEOS-SAR')),
       (('str', 'control_document_revision_level'), ('str', 'A')),
       (('str', 'record_format_revision_level'), ('str', 'A')),
       (('str', 'software_version'), ('str', '001.001')),
       (('str', 'physical_volume_id'), ('str', 'PHYSVOL')),
       (('str', 'logical_volume_id'), ('str', 'LOGVOL')),
       (('str', 'volume_set_id'), ('str', 'VOLSET')),
       (('str', 'creation_datetime'), ('str', '2020-10-11T17:23:03.700000')),
       (('str', 'creation_country'), ('str', 'JAPAN')),
       (('str', 'creation_agency'), ('str', 'JAXA')),
       (('str', 'creation_facility'), ('str', 'SCMO')),
       (('str', 'product_id'), ('str', 'PRODUCT:WWDR1.5RUA')),
       (('str', 'product_creation'), ('str', 'JAXA 20201011 172337')),
       (('str', 'scene_id'), ('str', 'ORBIT:ALOS2225333200-180726')),
       (('str', 'scene_location_id'), ('str', 'SCENE LOCATION'))]))])),
 ('raised', [('RangeError', 'Error in path (parsing) -> file_descriptors\ninvalid count -1')]),
 ('raised', [('ValueError', "invalid literal for int() with base 10: 'four'")]),
 ('raised', [('ValueError', "invalid literal for int() with base 10: 'PROD'")]),
 ('returned',
  ('Group',
   [('path', ('str', '/')), ('url', ('NoneType', None)), ('data', ('dict', [])),
    ('attrs',
     ('dict',
      [(('str', 'control_document_id'), ('str', 'CEOS-SAR')),
       (('str', 'control_document_revision_level'), ('str', 'A')),
       (('str', 'record_format_revision_level'), ('str', 'A')),
       (('str', 'software_version'), ('str', '001.001')),
       (('str', 'physical_volume_id'), ('str', 'PHYSVOL')),
       (('str', 'logical_volume_id'), ('str', 'LOGVOL')),
       (('str', 'volume_set_id'), ('str', 'VOLSET')),
       (('str', 'creation_datetime'), ('str', '2020-10-11T17:23:37.980000')),
       (('str', 'creation_country'), ('str', 'JAPAN')),
       (('str', 'creation_agency'), ('str', 'JAXA')),
       (('str', 'creation_facility'), ('str', 'SCMO')),
       (('str', 'product_id'), ('str', '3FILE3           SARLEADER FILE')),
       (('str', 'product_creation'),
        ('str', 'SARLMIXED BINARY AND ASCII      MBAA      10     720')),
       (('str', 'scene_id'), ('str', '10')), (('str', 'scene_location_id'), ('str', ''))]))])),
 ('raised',
  [('StreamError',
    'Error in path (parsing) -> file_descriptors -> local_use_segment\n'
    'stream read less than specified amount, expected 100, found 20')]),
 ('raised',
  [('StreamError',
    'Error in path (parsing) -> text_record -> location_and_datetime_of_product_creation\n'
    'stream read less than specified amount, expected 60, found 44')]),
 ('returned',
  ('Group',
   [('path', ('str', '/')), ('url', ('NoneType', None)), ('data', ('dict', [])),
    ('attrs',
     ('dict',
      [(('str', 'control_document_id'), ('str', 'CEOS-SAR')),
       (('str', 'control_document_revision_level'), ('str', 'A')),
       (('str', 'record_format_revision_level'), ('str', 'A')),
       (('str', 'software_version'), ('str', '001.001')),
       (('str', 'physical_volume_id'), ('str', 'PHYSVOL')),
       (('str', 'logical_volume_id'), ('str', 'LOGVOL')),
       (('str', 'volume_set_id'), ('str', 'VOLSET')),
       (('str', 'creation_datetime'), ('str', '2020-10-11T17:23:37.980000')),
       (('str', 'creation_country'), ('str', 'JAPAN')),
       (('str', 'creation_agency'), ('str', 'JAXA')),
       (('str', 'creation_facility'), ('str', 'SCMO')),
       (('str', 'product_id'), ('str', 'PRODUCT:WWDR1.5RUA')),
       (('str', 'product_creation'), ('str', 'JAXA 20201011 172337')),
       (('str', 'scene_id'), ('str', 'ORBIT:ALOS2225333200-180726')),
       (('str', 'scene_location_id'), ('str', 'SCENE LOCATION'))]))])),
 ('raised',
  [('StreamError',
    'Error in path (parsing) -> volume_descriptor -> preamble -> record_sequence_number\n'
    'stream read less than specified amount, expected 4, found 0')]),
 ('raised', [('StringError', "cannot use encoding 'ascii' to decode b'CEOS\\xff\\xfeAR    '")]),
 ('returned',
  ('Group',
   [('path', ('str', '/')), ('url', ('NoneType', None)), ('data', ('dict', [])),
    ('attrs',
     ('dict',
      [(('str', 'control_document_id'), ('str', 'CEOS-SAR')),
       (('str', 'control_document_revision_level'), ('str', 'A')),
       (('str', 'record_format_revision_level'), ('str', 'A')),
       (('str', 'software_version'), ('str', '001.001')),
       (('str', 'physical_volume_id'), ('str', 'PHYSVOL')),
       (('str', 'logical_volume_id'), ('str', 'LOGVOL')),
       (('str', 'volume_set_id'), ('str', 'VOLSET')),
       (('str', 'creation_datetime'), ('str', '2020-10-11T17:23:37.980000')),
       (('str', 'creation_country'), ('str', 'JAPAN')),
       (('str', 'creation_agency'), ('str', 'JAXA')),
       (('str', 'creation_facility'), ('str', 'SCMO')),
       (('str', 'product_id'), ('str', 'PRODUCT:WWDR1.5RUA')),
       (('str', 'product_creation'), ('str', 'JAXA 20201011 172337')),
       (('str', 'scene_id'), ('str', 'ORBIT:ALOS2225333200-180726')),
       (('str', 'scene_location_id'), ('str', 'SCENE LOCATION'))]))]))]


def test_equivalent():
    actual = compute()
    assert len(actual) == len(EXPECTED)
    for index, (a, e) in enumerate(zip(actual, EXPECTED)):
        assert a == e, (index, a, e)


if __name__ == "__main__":
    if "--record" in sys.argv:
        print(repr(compute()))
    else:
        test_equivalent()
        n_err = sum(1 for kind, _ in EXPECTED if kind == "raised")
        print(f"OK: {len(EXPECTED)} cases identical ({n_err} of them exceptions)")
