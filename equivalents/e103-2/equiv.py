"""Equivalence check for refactoring 2 (ceos_alos2/hierarchy.py).

Run: PYTHONPATH=/tmp/wt13/e103 /venv/bin/python _eq/2/equiv.py
(`--record` prints the observed list; EXPECTED below was recorded on unchanged HEAD.)
"""

import sys
import warnings

import fsspec
import numpy as np
from fsspec.implementations.dirfs import DirFileSystem

from ceos_alos2 import hierarchy
from ceos_alos2.array import Array
from ceos_alos2.hierarchy import Group, Variable

warnings.simplefilter("ignore")


def describe(obj):
    if isinstance(obj, dict):
        inner = ", ".join(f"{describe(k)}: {describe(v)}" for k, v in obj.items())
        return f"{type(obj).__name__}{{{inner}}}"
    if isinstance(obj, (list, tuple)):
        inner = ", ".join(describe(v) for v in obj)
        return f"{type(obj).__name__}[{inner}]"
    if isinstance(obj, np.ndarray):
        return f"ndarray<{obj.dtype}|{obj.shape}|{obj.tolist()!r}>"
    return f"{type(obj).__name__}({obj!r})"


def run(func, *args):
    try:
        return "ok: " + describe(func(*args))
    except Exception as e:  # noqa: BLE001
        chain = type(e.__cause__).__name__ if e.__cause__ is not None else None
        return f"err: {type(e).__name__}: {e} (cause={chain})"


def make_array(records_per_chunk=None, url="image", shape=(3, 2)):
    fs = DirFileSystem(path="/root-dir", fs=fsspec.filesystem("memory"))
    return Array(
        fs=fs,
        url=url,
        byte_ranges=[(0, 4), (10, 14), (20, 24)],
        shape=shape,
        dtype="uint16",
        type_code="IU2",
        records_per_chunk=records_per_chunk,
    )


LOG = []


class LoggingVariable(Variable):
    """a variable whose comparisons are traced and have a configurable outcome"""

    def __eq__(self, other):
        LOG.append(("var-eq", self.attrs["id"], getattr(other, "attrs", {}).get("id")))
        outcome = self.attrs["outcome"]
        if isinstance(outcome, Exception):
            raise outcome
        return outcome

    __hash__ = None


class LoggingGroup(Group):
    @property
    def groups(self):
        LOG.append(("groups", self.path))
        return Group.groups.fget(self)

    @property
    def variables(self):
        LOG.append(("variables", self.path))
        return Group.variables.fget(self)

    def __eq__(self, other):
        LOG.append(("group-eq", self.path))
        return Group.__eq__(self, other)

    __hash__ = None


def lvar(id_, outcome):
    return LoggingVariable("x", np.array([1]), {"id": id_, "outcome": outcome})


def traced_tree(outcomes, sub_outcomes, sub2_outcomes):
    def make(ids, outs):
        return {id_: lvar(id_, out) for id_, out in zip(ids, outs)}

    sub = LoggingGroup(path=None, url=None, data=make(["s1", "s2"], sub_outcomes), attrs={})
    sub2 = LoggingGroup(path=None, url=None, data=make(["t1"], sub2_outcomes), attrs={})
    data = {}
    names = ["a", "b", "c"]
    data[names[0]] = lvar(names[0], outcomes[0])
    data["sub"] = sub
    data[names[1]] = lvar(names[1], outcomes[1])
    data["sub2"] = sub2
    data[names[2]] = lvar(names[2], outcomes[2])
    return LoggingGroup(path=None, url="u", data=data, attrs={})


def variable_cases():
    arr = make_array()
    return {
        "ints": Variable("x", np.array([1, 2, 3]), {"a": 1}),
        "ints-same": Variable(["x"], np.array([1, 2, 3]), {"a": 1}),
        "ints-attrs": Variable("x", np.array([1, 2, 3]), {"a": 2}),
        "ints-dims": Variable("y", np.array([1, 2, 3]), {"a": 1}),
        "ints-diff": Variable("x", np.array([1, 2, 4]), {"a": 1}),
        "ints-short": Variable("x", np.array([1, 2]), {"a": 1}),
        "ints-empty": Variable("x", np.array([], dtype=int), {"a": 1}),
        "list": Variable("x", [1, 2, 3], {"a": 1}),
        "list-diff": Variable("x", [1, 2, 4], {"a": 1}),
        "nan": Variable("x", np.array([np.nan]), {}),
        "2d": Variable(["x", "y"], np.zeros((2, 3)), {}),
        "2d-one-dim": Variable(["x"], np.zeros((2, 3)), {}),
        "2d-three-dims": Variable(["x", "y", "z"], np.zeros((2, 3)), {}),
        "no-dims": Variable([], np.zeros((2, 3)), {}),
        "scalar": Variable([], np.array(1), {}),
        "array": Variable(["rows", "cols"], arr, {}),
        "array-same": Variable(["rows", "cols"], make_array(), {}),
        "array-chunked": Variable(["rows", "cols"], make_array(records_per_chunk=2), {}),
        "array-url": Variable(["rows", "cols"], make_array(url="other"), {}),
        "array-one-dim": Variable(["rows"], make_array(records_per_chunk=2), {}),
        "array-three-dims": Variable(["a", "b", "c"], make_array(records_per_chunk=1), {}),
    }


def make_tree(**overrides):
    params = {
        "x": np.array([1, 2, 3]),
        "sub_x": np.array([1.5]),
        "deep": np.array([0]),
        "attrs": {"n": 1},
        "sub_attrs": {},
        "url": "file:///a",
        "sub_url": None,
        "path": None,
        "extra": None,
        "order": False,
    }
    params.update(overrides)

    deep = Group(path=None, url=None, data={"d": Variable("d", params["deep"], {})}, attrs={})
    sub = Group(
        path=None,
        url=params["sub_url"],
        data={"x": Variable("x", params["sub_x"], {}), "deep": deep},
        attrs=params["sub_attrs"],
    )
    data = {
        "x": Variable("x", params["x"], {"u": "m"}),
        "sub": sub,
        "y": Variable("y", [1, 2], {}),
        "empty": Group(path=None, url=None, data={}, attrs={}),
    }
    if params["order"]:
        data = dict(reversed(list(data.items())))
    if params["extra"] is not None:
        data.update(params["extra"])
    return Group(path=params["path"], url=params["url"], data=data, attrs=params["attrs"])


def observe():
    out = []

    # --- Variable
    variables = variable_cases()
    for name, var in variables.items():
        for prop in ["ndim", "shape", "dtype", "chunks", "sizes"]:
            out.append(f"var[{name}].{prop} " + run(lambda v=var, p=prop: getattr(v, p)))
    for name1, var1 in variables.items():
        row = []
        for name2, var2 in variables.items():
            row.append(run(lambda a=var1, b=var2: a == b))
        out.append(f"var[{name1}] == * " + " | ".join(row))
    for other in [1, None, "x", np.array([1, 2, 3]), [1, 2, 3]]:
        out.append(f"var == {other!r} " + run(lambda o=other: Variable.__eq__(variables["ints"], o)))

    # --- Group basics
    for path in [None, "/", "a", "/a", "/a/b", "a/b", "a/b/", "//", "", "/a/b/c.d", 1, b"a/b"]:
        out.append(
            f"name[{path!r}] "
            + run(lambda p=path: Group(path=p, url="u", data={}, attrs={}).name)
        )

    tree = make_tree()
    out.append("tree " + describe(repr(tree)))
    out.append("len " + run(len, tree))
    out.append("iter " + run(list, tree))
    out.append("keys " + run(lambda: list(tree.keys())))
    out.append("groups " + run(lambda: tree.groups))
    out.append("variables " + run(lambda: tree.variables))
    out.append("sub.groups " + run(lambda: tree["sub"].groups))
    out.append("sub.variables " + run(lambda: tree["sub"].variables))
    out.append("empty.groups " + run(lambda: tree["empty"].groups))
    out.append("empty.variables " + run(lambda: tree["empty"].variables))
    out.append("names " + run(lambda: [g.name for _, g in tree.subtree]))
    out.append("subtree " + run(lambda: list(tree.subtree)))
    out.append("decouple " + run(tree.decouple))
    out.append("getitem-missing " + run(lambda: tree["nope"]))
    assert type(tree.groups) is dict and type(tree.variables) is dict
    assert tree.groups is not tree.data and tree.groups["sub"] is tree.data["sub"]
    subtree = tree.subtree
    assert iter(subtree) is subtree  # still a generator
    assert type(subtree).__name__ == "generator"

    # stray entries (neither group nor variable) are in neither view
    stray = Group(path="/", url="u", data={}, attrs={})
    stray.data = {"a": 1, "b": None, "v": variables["ints"], "g": tree["empty"], "c": "s"}
    out.append("stray.groups " + run(lambda: stray.groups))
    out.append("stray.variables " + run(lambda: stray.variables))
    out.append("stray.subtree " + run(lambda: list(stray.subtree)))
    out.append("stray.len " + run(len, stray))
    out.append("stray == stray " + run(lambda: stray == stray))
    broken = Group(path="/", url="u", data={}, attrs={})
    broken.data = None
    out.append("broken.groups " + run(lambda: broken.groups))
    out.append("broken.variables " + run(lambda: broken.variables))
    out.append("broken.subtree " + run(lambda: list(broken.subtree)))
    out.append("broken == broken " + run(lambda: broken == broken))

    # setitem
    target = make_tree()
    target["new"] = Group(path="zzz", url=None, data={"q": tree["sub"]}, attrs={})
    target["v"] = variables["2d"]
    out.append("setitem " + run(lambda: list(target.subtree)))
    out.append("setitem eq " + run(lambda: target == tree))

    # --- Group equality
    trees = {
        "base": make_tree(),
        "same": make_tree(),
        "x": make_tree(x=np.array([1, 2, 4])),
        "x-shape": make_tree(x=np.array([1, 2])),
        "x-type": make_tree(x=[1, 2, 3]),
        "sub_x": make_tree(sub_x=np.array([2.5])),
        "deep": make_tree(deep=np.array([1])),
        "attrs": make_tree(attrs={"n": 2}),
        "sub_attrs": make_tree(sub_attrs={"k": 1}),
        "url": make_tree(url="file:///b"),
        "sub_url": make_tree(sub_url="file:///a"),
        "sub_url2": make_tree(sub_url="file:///c"),
        "path": make_tree(path="/"),
        "path2": make_tree(path="/p"),
        "order": make_tree(order=True),
        "extra-var": make_tree(extra={"z": Variable("z", [0], {})}),
        "extra-group": make_tree(extra={"z": Group(None, None, {}, {})}),
        "swapped": make_tree(
            extra={"x": Group(None, None, {}, {}), "sub": Variable("x", np.array([1, 2, 3]), {})}
        ),
        "empty": Group(path=None, url="file:///a", data={}, attrs={"n": 1}),
        "empty2": Group(path=None, url="file:///a", data={}, attrs={"n": 1}),
    }
    for name1, tree1 in trees.items():
        row = []
        for name2, tree2 in trees.items():
            row.append(run(lambda a=tree1, b=tree2: a == b))
        out.append(f"tree[{name1}] == * " + " | ".join(row))
    for other in [1, None, "x", {}, dict(trees["base"].data), variables["ints"]]:
        out.append(f"tree == {type(other).__name__} " + run(lambda o=other: Group.__eq__(tree, o)))
    result = trees["base"] == trees["same"]
    assert result is True
    result = trees["base"] == trees["deep"]
    assert result is False
    result = trees["empty"] == trees["empty2"]
    assert result is True

    # a stray entry with the same name on both sides is never compared
    left = Group(path="/", url="u", data={}, attrs={})
    right = Group(path="/", url="u", data={}, attrs={})
    left.data = {"a": 1, "v": variables["ints"]}
    right.data = {"a": 2, "v": variables["ints-same"]}
    out.append("stray eq " + run(lambda: left == right))
    right.data = {"a": 2, "v": tree["empty"]}
    out.append("stray eq2 " + run(lambda: left == right))
    right.data = {"a": 2}
    out.append("stray eq3 " + run(lambda: left == right))

    # --- order and number of comparisons, short-circuiting
    scenarios = {
        "all-true": ([True, True, True], [True, True], [True]),
        "first-false": ([False, True, True], [True, True], [True]),
        "second-false": ([True, False, True], [True, True], [True]),
        "last-false": ([True, True, False], [True, True], [True]),
        "sub-first-false": ([True, True, True], [False, True], [True]),
        "sub-last-false": ([True, True, True], [True, False], [True]),
        "sub2-false": ([True, True, True], [True, True], [False]),
        "numpy-true": ([np.bool_(True), np.True_, 1], [np.array([True]), "yes"], [[0]]),
        "numpy-false": ([np.bool_(True), np.False_, 1], [True, True], [True]),
        "falsy-zero": ([True, True, 0], [True, True], [True]),
        "falsy-none": ([True, None, True], [True, True], [True]),
        "falsy-empty": ([True, True, True], [True, ""], [True]),
        "notimplemented-sub": ([True, True, True], [True, True], [[]]),
        "raises": ([True, ValueError("boom"), True], [True, True], [True]),
        "sub-raises": ([True, True, True], [True, KeyError("k")], [True]),
        "ambiguous": ([True, True, np.array([True, False])], [True, True], [True]),
    }
    for name, (outcomes, sub_outcomes, sub2_outcomes) in scenarios.items():
        first = traced_tree(outcomes, sub_outcomes, sub2_outcomes)
        second = traced_tree([True] * 3, [True] * 2, [True])
        del LOG[:]
        result = run(lambda a=first, b=second: Group.__eq__(a, b))
        out.append(f"trace[{name}] {result} :: {LOG!r}")
    del LOG[:]

    for name in ["Variable", "Group", "Array", "valfilter", "Mapping", "copy", "posixpath", "np"]:
        assert hasattr(hierarchy, name), name

    return out


EXPECTED = [
    # fmt: off
    'var[ints].ndim ok: int(1)',
    'var[ints].shape ok: tuple[int(3)]',
    "var[ints].dtype ok: Int64DType(dtype('int64'))",
    'var[ints].chunks ok: dict{}',
    "var[ints].sizes ok: dict{str('x'): int(3)}",
    'var[ints-same].ndim ok: int(1)',
    'var[ints-same].shape ok: tuple[int(3)]',
    "var[ints-same].dtype ok: Int64DType(dtype('int64'))",
    'var[ints-same].chunks ok: dict{}',
    "var[ints-same].sizes ok: dict{str('x'): int(3)}",
    'var[ints-attrs].ndim ok: int(1)',
    'var[ints-attrs].shape ok: tuple[int(3)]',
    "var[ints-attrs].dtype ok: Int64DType(dtype('int64'))",
    'var[ints-attrs].chunks ok: dict{}',
    "var[ints-attrs].sizes ok: dict{str('x'): int(3)}",
    'var[ints-dims].ndim ok: int(1)',
    'var[ints-dims].shape ok: tuple[int(3)]',
    "var[ints-dims].dtype ok: Int64DType(dtype('int64'))",
    'var[ints-dims].chunks ok: dict{}',
    "var[ints-dims].sizes ok: dict{str('y'): int(3)}",
    'var[ints-diff].ndim ok: int(1)',
    'var[ints-diff].shape ok: tuple[int(3)]',
    "var[ints-diff].dtype ok: Int64DType(dtype('int64'))",
    'var[ints-diff].chunks ok: dict{}',
    "var[ints-diff].sizes ok: dict{str('x'): int(3)}",
    'var[ints-short].ndim ok: int(1)',
    'var[ints-short].shape ok: tuple[int(2)]',
    "var[ints-short].dtype ok: Int64DType(dtype('int64'))",
    'var[ints-short].chunks ok: dict{}',
    "var[ints-short].sizes ok: dict{str('x'): int(2)}",
    'var[ints-empty].ndim ok: int(1)',
    'var[ints-empty].shape ok: tuple[int(0)]',
    "var[ints-empty].dtype ok: Int64DType(dtype('int64'))",
    'var[ints-empty].chunks ok: dict{}',
    "var[ints-empty].sizes ok: dict{str('x'): int(0)}",
    "var[list].ndim err: AttributeError: 'list' object has no attribute 'ndim' (cause=None)",
    "var[list].shape err: AttributeError: 'list' object has no attribute 'shape' (cause=None)",
    "var[list].dtype err: AttributeError: 'list' object has no attribute 'dtype' (cause=None)",
    'var[list].chunks ok: dict{}',
    "var[list].sizes err: AttributeError: 'list' object has no attribute 'shape' (cause=None)",
    "var[list-diff].ndim err: AttributeError: 'list' object has no attribute 'ndim' (cause=None)",
    "var[list-diff].shape err: AttributeError: 'list' object has no attribute 'shape' (cause=None)",
    "var[list-diff].dtype err: AttributeError: 'list' object has no attribute 'dtype' (cause=None)",
    'var[list-diff].chunks ok: dict{}',
    "var[list-diff].sizes err: AttributeError: 'list' object has no attribute 'shape' (cause=None)",
    'var[nan].ndim ok: int(1)',
    'var[nan].shape ok: tuple[int(1)]',
    "var[nan].dtype ok: Float64DType(dtype('float64'))",
    'var[nan].chunks ok: dict{}',
    "var[nan].sizes ok: dict{str('x'): int(1)}",
    'var[2d].ndim ok: int(2)',
    'var[2d].shape ok: tuple[int(2), int(3)]',
    "var[2d].dtype ok: Float64DType(dtype('float64'))",
    'var[2d].chunks ok: dict{}',
    "var[2d].sizes ok: dict{str('x'): int(2), str('y'): int(3)}",
    'var[2d-one-dim].ndim ok: int(2)',
    'var[2d-one-dim].shape ok: tuple[int(2), int(3)]',
    "var[2d-one-dim].dtype ok: Float64DType(dtype('float64'))",
    'var[2d-one-dim].chunks ok: dict{}',
    "var[2d-one-dim].sizes ok: dict{str('x'): int(2)}",
    'var[2d-three-dims].ndim ok: int(2)',
    'var[2d-three-dims].shape ok: tuple[int(2), int(3)]',
    "var[2d-three-dims].dtype ok: Float64DType(dtype('float64'))",
    'var[2d-three-dims].chunks ok: dict{}',
    "var[2d-three-dims].sizes ok: dict{str('x'): int(2), str('y'): int(3)}",
    'var[no-dims].ndim ok: int(2)',
    'var[no-dims].shape ok: tuple[int(2), int(3)]',
    "var[no-dims].dtype ok: Float64DType(dtype('float64'))",
    'var[no-dims].chunks ok: dict{}',
    'var[no-dims].sizes ok: dict{}',
    'var[scalar].ndim ok: int(0)',
    'var[scalar].shape ok: tuple[]',
    "var[scalar].dtype ok: Int64DType(dtype('int64'))",
    'var[scalar].chunks ok: dict{}',
    'var[scalar].sizes ok: dict{}',
    'var[array].ndim ok: int(2)',
    'var[array].shape ok: tuple[int(3), int(2)]',
    "var[array].dtype ok: str('uint16')",
    "var[array].chunks ok: dict{str('rows'): int(1024), str('cols'): int(2)}",
    "var[array].sizes ok: dict{str('rows'): int(3), str('cols'): int(2)}",
    'var[array-same].ndim ok: int(2)',
    'var[array-same].shape ok: tuple[int(3), int(2)]',
    "var[array-same].dtype ok: str('uint16')",
    "var[array-same].chunks ok: dict{str('rows'): int(1024), str('cols'): int(2)}",
    "var[array-same].sizes ok: dict{str('rows'): int(3), str('cols'): int(2)}",
    'var[array-chunked].ndim ok: int(2)',
    'var[array-chunked].shape ok: tuple[int(3), int(2)]',
    "var[array-chunked].dtype ok: str('uint16')",
    "var[array-chunked].chunks ok: dict{str('rows'): int(2), str('cols'): int(2)}",
    "var[array-chunked].sizes ok: dict{str('rows'): int(3), str('cols'): int(2)}",
    'var[array-url].ndim ok: int(2)',
    'var[array-url].shape ok: tuple[int(3), int(2)]',
    "var[array-url].dtype ok: str('uint16')",
    "var[array-url].chunks ok: dict{str('rows'): int(1024), str('cols'): int(2)}",
    "var[array-url].sizes ok: dict{str('rows'): int(3), str('cols'): int(2)}",
    'var[array-one-dim].ndim ok: int(2)',
    'var[array-one-dim].shape ok: tuple[int(3), int(2)]',
    "var[array-one-dim].dtype ok: str('uint16')",
    "var[array-one-dim].chunks ok: dict{str('rows'): int(2)}",
    "var[array-one-dim].sizes ok: dict{str('rows'): int(3)}",
    'var[array-three-dims].ndim ok: int(2)',
    'var[array-three-dims].shape ok: tuple[int(3), int(2)]',
    "var[array-three-dims].dtype ok: str('uint16')",
    "var[array-three-dims].chunks ok: dict{str('a'): int(1), str('b'): int(2)}",
    "var[array-three-dims].sizes ok: dict{str('a'): int(3), str('b'): int(2)}",
    'var[ints] == * ok: bool(np.True_) | ok: bool(np.True_) | ok: bool(False) | ok: bool(False) | ok: bool(np.False_) | err: ValueError: operands could not be broadcast together with shapes (3,) (2,)  (cause=None) | err: ValueError: operands could not be broadcast together with shapes (3,) (0,)  (cause=None) | ok: bool(False) | ok: bool(False) | ok: bool(False) | ok: bool(False) | ok: bool(False) | ok: bool(False) | ok: bool(False) | ok: bool(False) | ok: bool(False) | ok: bool(False) | ok: bool(False) | ok: bool(False) | ok: bool(False) | ok: bool(False)',
    'var[ints-same] == * ok: bool(np.True_) | ok: bool(np.True_) | ok: bool(False) | ok: bool(False) | ok: bool(np.False_) | err: ValueError: operands could not be broadcast together with shapes (3,) (2,)  (cause=None) | err: ValueError: operands could not be broadcast together with shapes (3,) (0,)  (cause=None) | ok: bool(False) | ok: bool(False) | ok: bool(False) | ok: bool(False) | ok: bool(False) | ok: bool(False) | ok: bool(False) | ok: bool(False) | ok: bool(False) | ok: bool(False) | ok: bool(False) | ok: bool(False) | ok: bool(False) | ok: bool(False)',
    'var[ints-attrs] == * ok: bool(False) | ok: bool(False) | ok: bool(np.True_) | ok: bool(False) | ok: bool(False) | ok: bool(False) | ok: bool(False) | ok: bool(False) | ok: bool(False) | ok: bool(False) | ok: bool(False) | ok: bool(False) | ok: bool(False) | ok: bool(False) | ok: bool(False) | ok: bool(False) | ok: bool(False) | ok: bool(False) | ok: bool(False) | ok: bool(False) | ok: bool(False)',
    'var[ints-dims] == * ok: bool(False) | ok: bool(False) | ok: bool(False) | ok: bool(np.True_) | ok: bool(False) | ok: bool(False) | ok: bool(False) | ok: bool(False) | ok: bool(False) | ok: bool(False) | ok: bool(False) | ok: bool(False) | ok: bool(False) | ok: bool(False) | ok: bool(False) | ok: bool(False) | ok: bool(False) | ok: bool(False) | ok: bool(False) | ok: bool(False) | ok: bool(False)',
    'var[ints-diff] == * ok: bool(np.False_) | ok: bool(np.False_) | ok: bool(False) | ok: bool(False) | ok: bool(np.True_) | err: ValueError: operands could not be broadcast together with shapes (3,) (2,)  (cause=None) | err: ValueError: operands could not be broadcast together with shapes (3,) (0,)  (cause=None) | ok: bool(False) | ok: bool(False) | ok: bool(False) | ok: bool(False) | ok: bool(False) | ok: bool(False) | ok: bool(False) | ok: bool(False) | ok: bool(False) | ok: bool(False) | ok: bool(False) | ok: bool(False) | ok: bool(False) | ok: bool(False)',
    'var[ints-short] == * err: ValueError: operands could not be broadcast together with shapes (2,) (3,)  (cause=None) | err: ValueError: operands could not be broadcast together with shapes (2,) (3,)  (cause=None) | ok: bool(False) | ok: bool(False) | err: ValueError: operands could not be broadcast together with shapes (2,) (3,)  (cause=None) | ok: bool(np.True_) | err: ValueError: operands could not be broadcast together with shapes (2,) (0,)  (cause=None) | ok: bool(False) | ok: bool(False) | ok: bool(False) | ok: bool(False) | ok: bool(False) | ok: bool(False) | ok: bool(False) | ok: bool(False) | ok: bool(False) | ok: bool(False) | ok: bool(False) | ok: bool(False) | ok: bool(False) | ok: bool(False)',
    'var[ints-empty] == * err: ValueError: operands could not be broadcast together with shapes (0,) (3,)  (cause=None) | err: ValueError: operands could not be broadcast together with shapes (0,) (3,)  (cause=None) | ok: bool(False) | ok: bool(False) | err: ValueError: operands could not be broadcast together with shapes (0,) (3,)  (cause=None) | err: ValueError: operands could not be broadcast together with shapes (0,) (2,)  (cause=None) | ok: bool(np.True_) | ok: bool(False) | ok: bool(False) | ok: bool(False) | ok: bool(False) | ok: bool(False) | ok: bool(False) | ok: bool(False) | ok: bool(False) | ok: bool(False) | ok: bool(False) | ok: bool(False) | ok: bool(False) | ok: bool(False) | ok: bool(False)',
    'var[list] == * ok: bool(False) | ok: bool(False) | ok: bool(False) | ok: bool(False) | ok: bool(False) | ok: bool(False) | ok: bool(False) | ok: bool(np.True_) | ok: bool(np.False_) | ok: bool(False) | ok: bool(False) | ok: bool(False) | ok: bool(False) | ok: bool(False) | ok: bool(False) | ok: bool(False) | ok: bool(False) | ok: bool(False) | ok: bool(False) | ok: bool(False) | ok: bool(False)',
    'var[list-diff] == * ok: bool(False) | ok: bool(False) | ok: bool(False) | ok: bool(False) | ok: bool(False) | ok: bool(False) | ok: bool(False) | ok: bool(np.False_) | ok: bool(np.True_) | ok: bool(False) | ok: bool(False) | ok: bool(False) | ok: bool(False) | ok: bool(False) | ok: bool(False) | ok: bool(False) | ok: bool(False) | ok: bool(False) | ok: bool(False) | ok: bool(False) | ok: bool(False)',
    'var[nan] == * ok: bool(False) | ok: bool(False) | ok: bool(False) | ok: bool(False) | ok: bool(False) | ok: bool(False) | ok: bool(False) | ok: bool(False) | ok: bool(False) | ok: bool(np.False_) | ok: bool(False) | ok: bool(np.False_) | ok: bool(False) | ok: bool(False) | ok: bool(False) | ok: bool(False) | ok: bool(False) | ok: bool(False) | ok: bool(False) | ok: bool(False) | ok: bool(False)',
    'var[2d] == * ok: bool(False) | ok: bool(False) | ok: bool(False) | ok: bool(False) | ok: bool(False) | ok: bool(False) | ok: bool(False) | ok: bool(False) | ok: bool(False) | ok: bool(False) | ok: bool(np.True_) | ok: bool(False) | ok: bool(False) | ok: bool(False) | ok: bool(False) | ok: bool(False) | ok: bool(False) | ok: bool(False) | ok: bool(False) | ok: bool(False) | ok: bool(False)',
    'var[2d-one-dim] == * ok: bool(False) | ok: bool(False) | ok: bool(False) | ok: bool(False) | ok: bool(False) | ok: bool(False) | ok: bool(False) | ok: bool(False) | ok: bool(False) | ok: bool(np.False_) | ok: bool(False) | ok: bool(np.True_) | ok: bool(False) | ok: bool(False) | ok: bool(False) | ok: bool(False) | ok: bool(False) | ok: bool(False) | ok: bool(False) | ok: bool(False) | ok: bool(False)',
    'var[2d-three-dims] == * ok: bool(False) | ok: bool(False) | ok: bool(False) | ok: bool(False) | ok: bool(False) | ok: bool(False) | ok: bool(False) | ok: bool(False) | ok: bool(False) | ok: bool(False) | ok: bool(False) | ok: bool(False) | ok: bool(np.True_) | ok: bool(False) | ok: bool(False) | ok: bool(False) | ok: bool(False) | ok: bool(False) | ok: bool(False) | ok: bool(False) | ok: bool(False)',
    'var[no-dims] == * ok: bool(False) | ok: bool(False) | ok: bool(False) | ok: bool(False) | ok: bool(False) | ok: bool(False) | ok: bool(False) | ok: bool(False) | ok: bool(False) | ok: bool(False) | ok: bool(False) | ok: bool(False) | ok: bool(False) | ok: bool(np.True_) | ok: bool(np.False_) | ok: bool(False) | ok: bool(False) | ok: bool(False) | ok: bool(False) | ok: bool(False) | ok: bool(False)',
    'var[scalar] == * ok: bool(False) | ok: bool(False) | ok: bool(False) | ok: bool(False) | ok: bool(False) | ok: bool(False) | ok: bool(False) | ok: bool(False) | ok: bool(False) | ok: bool(False) | ok: bool(False) | ok: bool(False) | ok: bool(False) | ok: bool(np.False_) | ok: bool(np.True_) | ok: bool(False) | ok: bool(False) | ok: bool(False) | ok: bool(False) | ok: bool(False) | ok: bool(False)',
    'var[array] == * ok: bool(False) | ok: bool(False) | ok: bool(False) | ok: bool(False) | ok: bool(False) | ok: bool(False) | ok: bool(False) | ok: bool(False) | ok: bool(False) | ok: bool(False) | ok: bool(False) | ok: bool(False) | ok: bool(False) | ok: bool(False) | ok: bool(False) | ok: bool(True) | ok: bool(True) | ok: bool(False) | ok: bool(False) | ok: bool(False) | ok: bool(False)',
    'var[array-same] == * ok: bool(False) | ok: bool(False) | ok: bool(False) | ok: bool(False) | ok: bool(False) | ok: bool(False) | ok: bool(False) | ok: bool(False) | ok: bool(False) | ok: bool(False) | ok: bool(False) | ok: bool(False) | ok: bool(False) | ok: bool(False) | ok: bool(False) | ok: bool(True) | ok: bool(True) | ok: bool(False) | ok: bool(False) | ok: bool(False) | ok: bool(False)',
    'var[array-chunked] == * ok: bool(False) | ok: bool(False) | ok: bool(False) | ok: bool(False) | ok: bool(False) | ok: bool(False) | ok: bool(False) | ok: bool(False) | ok: bool(False) | ok: bool(False) | ok: bool(False) | ok: bool(False) | ok: bool(False) | ok: bool(False) | ok: bool(False) | ok: bool(False) | ok: bool(False) | ok: bool(True) | ok: bool(False) | ok: bool(False) | ok: bool(False)',
    'var[array-url] == * ok: bool(False) | ok: bool(False) | ok: bool(False) | ok: bool(False) | ok: bool(False) | ok: bool(False) | ok: bool(False) | ok: bool(False) | ok: bool(False) | ok: bool(False) | ok: bool(False) | ok: bool(False) | ok: bool(False) | ok: bool(False) | ok: bool(False) | ok: bool(False) | ok: bool(False) | ok: bool(False) | ok: bool(True) | ok: bool(False) | ok: bool(False)',
    'var[array-one-dim] == * ok: bool(False) | ok: bool(False) | ok: bool(False) | ok: bool(False) | ok: bool(False) | ok: bool(False) | ok: bool(False) | ok: bool(False) | ok: bool(False) | ok: bool(False) | ok: bool(False) | ok: bool(False) | ok: bool(False) | ok: bool(False) | ok: bool(False) | ok: bool(False) | ok: bool(False) | ok: bool(False) | ok: bool(False) | ok: bool(True) | ok: bool(False)',
    'var[array-three-dims] == * ok: bool(False) | ok: bool(False) | ok: bool(False) | ok: bool(False) | ok: bool(False) | ok: bool(False) | ok: bool(False) | ok: bool(False) | ok: bool(False) | ok: bool(False) | ok: bool(False) | ok: bool(False) | ok: bool(False) | ok: bool(False) | ok: bool(False) | ok: bool(False) | ok: bool(False) | ok: bool(False) | ok: bool(False) | ok: bool(False) | ok: bool(True)',
    'var == 1 ok: bool(False)',
    'var == None ok: bool(False)',
    "var == 'x' ok: bool(False)",
    'var == array([1, 2, 3]) ok: bool(False)',
    'var == [1, 2, 3] ok: bool(False)',
    "name[None] ok: str('/')",
    "name['/'] ok: str('/')",
    "name['a'] ok: str('a')",
    "name['/a'] ok: str('a')",
    "name['/a/b'] ok: str('b')",
    "name['a/b'] ok: str('b')",
    "name['a/b/'] ok: str('')",
    "name['//'] ok: str('')",
    "name[''] ok: str('')",
    "name['/a/b/c.d'] ok: str('c.d')",
    "name[1] err: TypeError: argument of type 'int' is not iterable (cause=None)",
    "name[b'a/b'] err: TypeError: a bytes-like object is required, not 'str' (cause=None)",
    'tree str("Group(path=\'/\', url=\'file:///a\', data={\'x\': Variable(dims=[\'x\'], data=array([1, 2, 3]), attrs={\'u\': \'m\'}), \'sub\': Group(path=\'/sub\', url=\'file:///a\', data={\'x\': Variable(dims=[\'x\'], data=array([1.5]), attrs={}), \'deep\': Group(path=\'/sub/deep\', url=\'file:///a\', data={\'d\': Variable(dims=[\'d\'], data=array([0]), attrs={})}, attrs={})}, attrs={}), \'y\': Variable(dims=[\'y\'], data=[1, 2], attrs={}), \'empty\': Group(path=\'/empty\', url=\'file:///a\', data={}, attrs={})}, attrs={\'n\': 1})")',
    'len ok: int(4)',
    "iter ok: list[str('x'), str('sub'), str('y'), str('empty')]",
    "keys ok: list[str('x'), str('sub'), str('y'), str('empty')]",
    "groups ok: dict{str('sub'): Group(Group(path='/sub', url='file:///a', data={'x': Variable(dims=['x'], data=array([1.5]), attrs={}), 'deep': Group(path='/sub/deep', url='file:///a', data={'d': Variable(dims=['d'], data=array([0]), attrs={})}, attrs={})}, attrs={})), str('empty'): Group(Group(path='/empty', url='file:///a', data={}, attrs={}))}",
    "variables ok: dict{str('x'): Variable(Variable(dims=['x'], data=array([1, 2, 3]), attrs={'u': 'm'})), str('y'): Variable(Variable(dims=['y'], data=[1, 2], attrs={}))}",
    "sub.groups ok: dict{str('deep'): Group(Group(path='/sub/deep', url='file:///a', data={'d': Variable(dims=['d'], data=array([0]), attrs={})}, attrs={}))}",
    "sub.variables ok: dict{str('x'): Variable(Variable(dims=['x'], data=array([1.5]), attrs={}))}",
    'empty.groups ok: dict{}',
    'empty.variables ok: dict{}',
    "names ok: list[str('/'), str('sub'), str('deep'), str('empty')]",
    "subtree ok: list[tuple[str('/'), Group(Group(path='/', url='file:///a', data={'x': Variable(dims=['x'], data=array([1, 2, 3]), attrs={'u': 'm'}), 'y': Variable(dims=['y'], data=[1, 2], attrs={})}, attrs={'n': 1}))], tuple[str('/sub'), Group(Group(path='/sub', url='file:///a', data={'x': Variable(dims=['x'], data=array([1.5]), attrs={})}, attrs={}))], tuple[str('/sub/deep'), Group(Group(path='/sub/deep', url='file:///a', data={'d': Variable(dims=['d'], data=array([0]), attrs={})}, attrs={}))], tuple[str('/empty'), Group(Group(path='/empty', url='file:///a', data={}, attrs={}))]]",
    "decouple ok: Group(Group(path='/', url='file:///a', data={'x': Variable(dims=['x'], data=array([1, 2, 3]), attrs={'u': 'm'}), 'y': Variable(dims=['y'], data=[1, 2], attrs={})}, attrs={'n': 1}))",
    "getitem-missing err: KeyError: 'nope' (cause=None)",
    "stray.groups ok: dict{str('g'): Group(Group(path='/empty', url='file:///a', data={}, attrs={}))}",
    "stray.variables ok: dict{str('v'): Variable(Variable(dims=['x'], data=array([1, 2, 3]), attrs={'a': 1}))}",
    "stray.subtree ok: list[tuple[str('/'), Group(Group(path='/', url='u', data={'v': Variable(dims=['x'], data=array([1, 2, 3]), attrs={'a': 1})}, attrs={}))], tuple[str('/empty'), Group(Group(path='/empty', url='file:///a', data={}, attrs={}))]]",
    'stray.len ok: int(5)',
    'stray == stray ok: bool(True)',
    "broken.groups err: AttributeError: 'NoneType' object has no attribute 'items' (cause=None)",
    "broken.variables err: AttributeError: 'NoneType' object has no attribute 'items' (cause=None)",
    "broken.subtree err: AttributeError: 'NoneType' object has no attribute 'items' (cause=None)",
    "broken == broken err: AttributeError: 'NoneType' object has no attribute 'items' (cause=None)",
    "setitem ok: list[tuple[str('/'), Group(Group(path='/', url='file:///a', data={'x': Variable(dims=['x'], data=array([1, 2, 3]), attrs={'u': 'm'}), 'y': Variable(dims=['y'], data=[1, 2], attrs={}), 'v': Variable(dims=['x', 'y'], data=array([[0., 0., 0.],\n       [0., 0., 0.]]), attrs={})}, attrs={'n': 1}))], tuple[str('/sub'), Group(Group(path='/sub', url='file:///a', data={'x': Variable(dims=['x'], data=array([1.5]), attrs={})}, attrs={}))], tuple[str('/sub/deep'), Group(Group(path='/sub/deep', url='file:///a', data={'d': Variable(dims=['d'], data=array([0]), attrs={})}, attrs={}))], tuple[str('/empty'), Group(Group(path='/empty', url='file:///a', data={}, attrs={}))], tuple[str('/new'), Group(Group(path='/new', url='file:///a', data={}, attrs={}))], tuple[str('/new/q'), Group(Group(path='/new/q', url='file:///a', data={'x': Variable(dims=['x'], data=array([1.5]), attrs={})}, attrs={}))], tuple[str('/new/q/deep'), Group(Group(path='/new/q/deep', url='file:///a', data={'d': Variable(dims=['d'], data=array([0]), attrs={})}, attrs={}))]]",
    'setitem eq ok: bool(False)',
    'tree[base] == * ok: bool(True) | ok: bool(True) | ok: bool(False) | err: ValueError: operands could not be broadcast together with shapes (3,) (2,)  (cause=None) | ok: bool(False) | ok: bool(False) | ok: bool(False) | ok: bool(False) | ok: bool(False) | ok: bool(False) | ok: bool(True) | ok: bool(False) | ok: bool(True) | ok: bool(False) | ok: bool(False) | ok: bool(False) | ok: bool(False) | ok: bool(False) | ok: bool(False) | ok: bool(False)',
    'tree[same] == * ok: bool(True) | ok: bool(True) | ok: bool(False) | err: ValueError: operands could not be broadcast together with shapes (3,) (2,)  (cause=None) | ok: bool(False) | ok: bool(False) | ok: bool(False) | ok: bool(False) | ok: bool(False) | ok: bool(False) | ok: bool(True) | ok: bool(False) | ok: bool(True) | ok: bool(False) | ok: bool(False) | ok: bool(False) | ok: bool(False) | ok: bool(False) | ok: bool(False) | ok: bool(False)',
    'tree[x] == * ok: bool(False) | ok: bool(False) | ok: bool(True) | err: ValueError: operands could not be broadcast together with shapes (3,) (2,)  (cause=None) | ok: bool(False) | ok: bool(False) | ok: bool(False) | ok: bool(False) | ok: bool(False) | ok: bool(False) | ok: bool(False) | ok: bool(False) | ok: bool(False) | ok: bool(False) | ok: bool(False) | ok: bool(False) | ok: bool(False) | ok: bool(False) | ok: bool(False) | ok: bool(False)',
    'tree[x-shape] == * err: ValueError: operands could not be broadcast together with shapes (2,) (3,)  (cause=None) | err: ValueError: operands could not be broadcast together with shapes (2,) (3,)  (cause=None) | err: ValueError: operands could not be broadcast together with shapes (2,) (3,)  (cause=None) | ok: bool(True) | ok: bool(False) | err: ValueError: operands could not be broadcast together with shapes (2,) (3,)  (cause=None) | err: ValueError: operands could not be broadcast together with shapes (2,) (3,)  (cause=None) | ok: bool(False) | err: ValueError: operands could not be broadcast together with shapes (2,) (3,)  (cause=None) | ok: bool(False) | err: ValueError: operands could not be broadcast together with shapes (2,) (3,)  (cause=None) | err: ValueError: operands could not be broadcast together with shapes (2,) (3,)  (cause=None) | err: ValueError: operands could not be broadcast together with shapes (2,) (3,)  (cause=None) | ok: bool(False) | ok: bool(False) | ok: bool(False) | ok: bool(False) | ok: bool(False) | ok: bool(False) | ok: bool(False)',
    'tree[x-type] == * ok: bool(False) | ok: bool(False) | ok: bool(False) | ok: bool(False) | ok: bool(True) | ok: bool(False) | ok: bool(False) | ok: bool(False) | ok: bool(False) | ok: bool(False) | ok: bool(False) | ok: bool(False) | ok: bool(False) | ok: bool(False) | ok: bool(False) | ok: bool(False) | ok: bool(False) | ok: bool(False) | ok: bool(False) | ok: bool(False)',
    'tree[sub_x] == * ok: bool(False) | ok: bool(False) | ok: bool(False) | err: ValueError: operands could not be broadcast together with shapes (3,) (2,)  (cause=None) | ok: bool(False) | ok: bool(True) | ok: bool(False) | ok: bool(False) | ok: bool(False) | ok: bool(False) | ok: bool(False) | ok: bool(False) | ok: bool(False) | ok: bool(False) | ok: bool(False) | ok: bool(False) | ok: bool(False) | ok: bool(False) | ok: bool(False) | ok: bool(False)',
    'tree[deep] == * ok: bool(False) | ok: bool(False) | ok: bool(False) | err: ValueError: operands could not be broadcast together with shapes (3,) (2,)  (cause=None) | ok: bool(False) | ok: bool(False) | ok: bool(True) | ok: bool(False) | ok: bool(False) | ok: bool(False) | ok: bool(False) | ok: bool(False) | ok: bool(False) | ok: bool(False) | ok: bool(False) | ok: bool(False) | ok: bool(False) | ok: bool(False) | ok: bool(False) | ok: bool(False)',
    'tree[attrs] == * ok: bool(False) | ok: bool(False) | ok: bool(False) | ok: bool(False) | ok: bool(False) | ok: bool(False) | ok: bool(False) | ok: bool(True) | ok: bool(False) | ok: bool(False) | ok: bool(False) | ok: bool(False) | ok: bool(False) | ok: bool(False) | ok: bool(False) | ok: bool(False) | ok: bool(False) | ok: bool(False) | ok: bool(False) | ok: bool(False)',
    'tree[sub_attrs] == * ok: bool(False) | ok: bool(False) | ok: bool(False) | err: ValueError: operands could not be broadcast together with shapes (3,) (2,)  (cause=None) | ok: bool(False) | ok: bool(False) | ok: bool(False) | ok: bool(False) | ok: bool(True) | ok: bool(False) | ok: bool(False) | ok: bool(False) | ok: bool(False) | ok: bool(False) | ok: bool(False) | ok: bool(False) | ok: bool(False) | ok: bool(False) | ok: bool(False) | ok: bool(False)',
    'tree[url] == * ok: bool(False) | ok: bool(False) | ok: bool(False) | ok: bool(False) | ok: bool(False) | ok: bool(False) | ok: bool(False) | ok: bool(False) | ok: bool(False) | ok: bool(True) | ok: bool(False) | ok: bool(False) | ok: bool(False) | ok: bool(False) | ok: bool(False) | ok: bool(False) | ok: bool(False) | ok: bool(False) | ok: bool(False) | ok: bool(False)',
    'tree[sub_url] == * ok: bool(True) | ok: bool(True) | ok: bool(False) | err: ValueError: operands could not be broadcast together with shapes (3,) (2,)  (cause=None) | ok: bool(False) | ok: bool(False) | ok: bool(False) | ok: bool(False) | ok: bool(False) | ok: bool(False) | ok: bool(True) | ok: bool(False) | ok: bool(True) | ok: bool(False) | ok: bool(False) | ok: bool(False) | ok: bool(False) | ok: bool(False) | ok: bool(False) | ok: bool(False)',
    'tree[sub_url2] == * ok: bool(False) | ok: bool(False) | ok: bool(False) | err: ValueError: operands could not be broadcast together with shapes (3,) (2,)  (cause=None) | ok: bool(False) | ok: bool(False) | ok: bool(False) | ok: bool(False) | ok: bool(False) | ok: bool(False) | ok: bool(False) | ok: bool(True) | ok: bool(False) | ok: bool(False) | ok: bool(False) | ok: bool(False) | ok: bool(False) | ok: bool(False) | ok: bool(False) | ok: bool(False)',
    'tree[path] == * ok: bool(True) | ok: bool(True) | ok: bool(False) | err: ValueError: operands could not be broadcast together with shapes (3,) (2,)  (cause=None) | ok: bool(False) | ok: bool(False) | ok: bool(False) | ok: bool(False) | ok: bool(False) | ok: bool(False) | ok: bool(True) | ok: bool(False) | ok: bool(True) | ok: bool(False) | ok: bool(False) | ok: bool(False) | ok: bool(False) | ok: bool(False) | ok: bool(False) | ok: bool(False)',
    'tree[path2] == * ok: bool(False) | ok: bool(False) | ok: bool(False) | ok: bool(False) | ok: bool(False) | ok: bool(False) | ok: bool(False) | ok: bool(False) | ok: bool(False) | ok: bool(False) | ok: bool(False) | ok: bool(False) | ok: bool(False) | ok: bool(True) | ok: bool(False) | ok: bool(False) | ok: bool(False) | ok: bool(False) | ok: bool(False) | ok: bool(False)',
    'tree[order] == * ok: bool(False) | ok: bool(False) | ok: bool(False) | ok: bool(False) | ok: bool(False) | ok: bool(False) | ok: bool(False) | ok: bool(False) | ok: bool(False) | ok: bool(False) | ok: bool(False) | ok: bool(False) | ok: bool(False) | ok: bool(False) | ok: bool(True) | ok: bool(False) | ok: bool(False) | ok: bool(False) | ok: bool(False) | ok: bool(False)',
    'tree[extra-var] == * ok: bool(False) | ok: bool(False) | ok: bool(False) | ok: bool(False) | ok: bool(False) | ok: bool(False) | ok: bool(False) | ok: bool(False) | ok: bool(False) | ok: bool(False) | ok: bool(False) | ok: bool(False) | ok: bool(False) | ok: bool(False) | ok: bool(False) | ok: bool(True) | ok: bool(False) | ok: bool(False) | ok: bool(False) | ok: bool(False)',
    'tree[extra-group] == * ok: bool(False) | ok: bool(False) | ok: bool(False) | ok: bool(False) | ok: bool(False) | ok: bool(False) | ok: bool(False) | ok: bool(False) | ok: bool(False) | ok: bool(False) | ok: bool(False) | ok: bool(False) | ok: bool(False) | ok: bool(False) | ok: bool(False) | ok: bool(False) | ok: bool(True) | ok: bool(False) | ok: bool(False) | ok: bool(False)',
    'tree[swapped] == * ok: bool(False) | ok: bool(False) | ok: bool(False) | ok: bool(False) | ok: bool(False) | ok: bool(False) | ok: bool(False) | ok: bool(False) | ok: bool(False) | ok: bool(False) | ok: bool(False) | ok: bool(False) | ok: bool(False) | ok: bool(False) | ok: bool(False) | ok: bool(False) | ok: bool(False) | ok: bool(True) | ok: bool(False) | ok: bool(False)',
    'tree[empty] == * ok: bool(False) | ok: bool(False) | ok: bool(False) | ok: bool(False) | ok: bool(False) | ok: bool(False) | ok: bool(False) | ok: bool(False) | ok: bool(False) | ok: bool(False) | ok: bool(False) | ok: bool(False) | ok: bool(False) | ok: bool(False) | ok: bool(False) | ok: bool(False) | ok: bool(False) | ok: bool(False) | ok: bool(True) | ok: bool(True)',
    'tree[empty2] == * ok: bool(False) | ok: bool(False) | ok: bool(False) | ok: bool(False) | ok: bool(False) | ok: bool(False) | ok: bool(False) | ok: bool(False) | ok: bool(False) | ok: bool(False) | ok: bool(False) | ok: bool(False) | ok: bool(False) | ok: bool(False) | ok: bool(False) | ok: bool(False) | ok: bool(False) | ok: bool(False) | ok: bool(True) | ok: bool(True)',
    'tree == int ok: bool(False)',
    'tree == NoneType ok: bool(False)',
    'tree == str ok: bool(False)',
    'tree == dict ok: bool(False)',
    'tree == dict ok: bool(False)',
    'tree == Variable ok: bool(False)',
    'stray eq ok: bool(True)',
    'stray eq2 ok: bool(False)',
    'stray eq3 ok: bool(False)',
    "trace[all-true] ok: bool(True) :: [('variables', '/'), ('variables', '/'), ('groups', '/'), ('groups', '/'), ('variables', '/'), ('var-eq', 'a', 'a'), ('var-eq', 'b', 'b'), ('var-eq', 'c', 'c'), ('groups', '/'), ('group-eq', '/sub'), ('variables', '/sub'), ('variables', '/sub'), ('groups', '/sub'), ('groups', '/sub'), ('variables', '/sub'), ('var-eq', 's1', 's1'), ('var-eq', 's2', 's2'), ('groups', '/sub'), ('group-eq', '/sub2'), ('variables', '/sub2'), ('variables', '/sub2'), ('groups', '/sub2'), ('groups', '/sub2'), ('variables', '/sub2'), ('var-eq', 't1', 't1'), ('groups', '/sub2')]",
    "trace[first-false] ok: bool(False) :: [('variables', '/'), ('variables', '/'), ('groups', '/'), ('groups', '/'), ('variables', '/'), ('var-eq', 'a', 'a')]",
    "trace[second-false] ok: bool(False) :: [('variables', '/'), ('variables', '/'), ('groups', '/'), ('groups', '/'), ('variables', '/'), ('var-eq', 'a', 'a'), ('var-eq', 'b', 'b')]",
    "trace[last-false] ok: bool(False) :: [('variables', '/'), ('variables', '/'), ('groups', '/'), ('groups', '/'), ('variables', '/'), ('var-eq', 'a', 'a'), ('var-eq', 'b', 'b'), ('var-eq', 'c', 'c')]",
    "trace[sub-first-false] ok: bool(False) :: [('variables', '/'), ('variables', '/'), ('groups', '/'), ('groups', '/'), ('variables', '/'), ('var-eq', 'a', 'a'), ('var-eq', 'b', 'b'), ('var-eq', 'c', 'c'), ('groups', '/'), ('group-eq', '/sub'), ('variables', '/sub'), ('variables', '/sub'), ('groups', '/sub'), ('groups', '/sub'), ('variables', '/sub'), ('var-eq', 's1', 's1')]",
    "trace[sub-last-false] ok: bool(False) :: [('variables', '/'), ('variables', '/'), ('groups', '/'), ('groups', '/'), ('variables', '/'), ('var-eq', 'a', 'a'), ('var-eq', 'b', 'b'), ('var-eq', 'c', 'c'), ('groups', '/'), ('group-eq', '/sub'), ('variables', '/sub'), ('variables', '/sub'), ('groups', '/sub'), ('groups', '/sub'), ('variables', '/sub'), ('var-eq', 's1', 's1'), ('var-eq', 's2', 's2')]",
    "trace[sub2-false] ok: bool(False) :: [('variables', '/'), ('variables', '/'), ('groups', '/'), ('groups', '/'), ('variables', '/'), ('var-eq', 'a', 'a'), ('var-eq', 'b', 'b'), ('var-eq', 'c', 'c'), ('groups', '/'), ('group-eq', '/sub'), ('variables', '/sub'), ('variables', '/sub'), ('groups', '/sub'), ('groups', '/sub'), ('variables', '/sub'), ('var-eq', 's1', 's1'), ('var-eq', 's2', 's2'), ('groups', '/sub'), ('group-eq', '/sub2'), ('variables', '/sub2'), ('variables', '/sub2'), ('groups', '/sub2'), ('groups', '/sub2'), ('variables', '/sub2'), ('var-eq', 't1', 't1')]",
    "trace[numpy-true] ok: bool(True) :: [('variables', '/'), ('variables', '/'), ('groups', '/'), ('groups', '/'), ('variables', '/'), ('var-eq', 'a', 'a'), ('var-eq', 'b', 'b'), ('var-eq', 'c', 'c'), ('groups', '/'), ('group-eq', '/sub'), ('variables', '/sub'), ('variables', '/sub'), ('groups', '/sub'), ('groups', '/sub'), ('variables', '/sub'), ('var-eq', 's1', 's1'), ('var-eq', 's2', 's2'), ('groups', '/sub'), ('group-eq', '/sub2'), ('variables', '/sub2'), ('variables', '/sub2'), ('groups', '/sub2'), ('groups', '/sub2'), ('variables', '/sub2'), ('var-eq', 't1', 't1'), ('groups', '/sub2')]",
    "trace[numpy-false] ok: bool(False) :: [('variables', '/'), ('variables', '/'), ('groups', '/'), ('groups', '/'), ('variables', '/'), ('var-eq', 'a', 'a'), ('var-eq', 'b', 'b')]",
    "trace[falsy-zero] ok: bool(False) :: [('variables', '/'), ('variables', '/'), ('groups', '/'), ('groups', '/'), ('variables', '/'), ('var-eq', 'a', 'a'), ('var-eq', 'b', 'b'), ('var-eq', 'c', 'c')]",
    "trace[falsy-none] ok: bool(False) :: [('variables', '/'), ('variables', '/'), ('groups', '/'), ('groups', '/'), ('variables', '/'), ('var-eq', 'a', 'a'), ('var-eq', 'b', 'b')]",
    "trace[falsy-empty] ok: bool(False) :: [('variables', '/'), ('variables', '/'), ('groups', '/'), ('groups', '/'), ('variables', '/'), ('var-eq', 'a', 'a'), ('var-eq', 'b', 'b'), ('var-eq', 'c', 'c'), ('groups', '/'), ('group-eq', '/sub'), ('variables', '/sub'), ('variables', '/sub'), ('groups', '/sub'), ('groups', '/sub'), ('variables', '/sub'), ('var-eq', 's1', 's1'), ('var-eq', 's2', 's2')]",
    "trace[notimplemented-sub] ok: bool(False) :: [('variables', '/'), ('variables', '/'), ('groups', '/'), ('groups', '/'), ('variables', '/'), ('var-eq', 'a', 'a'), ('var-eq', 'b', 'b'), ('var-eq', 'c', 'c'), ('groups', '/'), ('group-eq', '/sub'), ('variables', '/sub'), ('variables', '/sub'), ('groups', '/sub'), ('groups', '/sub'), ('variables', '/sub'), ('var-eq', 's1', 's1'), ('var-eq', 's2', 's2'), ('groups', '/sub'), ('group-eq', '/sub2'), ('variables', '/sub2'), ('variables', '/sub2'), ('groups', '/sub2'), ('groups', '/sub2'), ('variables', '/sub2'), ('var-eq', 't1', 't1')]",
    "trace[raises] err: ValueError: boom (cause=None) :: [('variables', '/'), ('variables', '/'), ('groups', '/'), ('groups', '/'), ('variables', '/'), ('var-eq', 'a', 'a'), ('var-eq', 'b', 'b')]",
    "trace[sub-raises] err: KeyError: 'k' (cause=None) :: [('variables', '/'), ('variables', '/'), ('groups', '/'), ('groups', '/'), ('variables', '/'), ('var-eq', 'a', 'a'), ('var-eq', 'b', 'b'), ('var-eq', 'c', 'c'), ('groups', '/'), ('group-eq', '/sub'), ('variables', '/sub'), ('variables', '/sub'), ('groups', '/sub'), ('groups', '/sub'), ('variables', '/sub'), ('var-eq', 's1', 's1'), ('var-eq', 's2', 's2')]",
    "trace[ambiguous] err: ValueError: The truth value of an array with more than one element is ambiguous. Use a.any() or a.all() (cause=None) :: [('variables', '/'), ('variables', '/'), ('groups', '/'), ('groups', '/'), ('variables', '/'), ('var-eq', 'a', 'a'), ('var-eq', 'b', 'b'), ('var-eq', 'c', 'c')]",
    # fmt: on
]


def test_equivalence():
    observed = observe()
    assert len(observed) == len(EXPECTED)
    for obs, exp in zip(observed, EXPECTED):
        assert obs == exp, f"\nobserved: {obs}\nexpected: {exp}"


if __name__ == "__main__":
    if "--record" in sys.argv:
        for line in observe():
            print(f"    {line!r},")
    else:
        test_equivalence()
        print(f"OK ({len(EXPECTED)} recorded observations match)")
