"""Equivalence check for refactoring 1 (ceos_alos2/sar_leader/attitude.py).

Builds a synthetic attitude record (binary preamble + ASCII body), parses it
with ``attitude_record`` and runs ``transform_attitude`` (plus the helper
functions the test-suite also exercises).  The results are compared with
hard-coded values that were produced by the UNCHANGED code (HEAD), so the
script has to pass both with and without ``patch.diff`` applied.

run with::

    cd /tmp/wt2/e04 && PYTHONPATH=/tmp/wt2/e04 /venv/bin/python _eq/1/equiv.py
"""

import pprint
import struct
import sys

import numpy as np

from ceos_alos2.hierarchy import Group, Variable
from ceos_alos2.sar_leader import attitude
from ceos_alos2.utils import to_dict


def canon(obj):
    """order- and type-preserving plain representation"""
    if isinstance(obj, Group):
        return ("Group", obj.path, obj.url, canon(obj.data), canon(obj.attrs))
    if isinstance(obj, Variable):
        return ("Variable", canon(obj.dims), canon(obj.data), canon(obj.attrs))
    if isinstance(obj, np.ndarray):
        values = obj.astype("int64") if obj.dtype.kind in "mM" else obj
        return ("ndarray", str(obj.dtype), obj.shape, values.tolist())
    if isinstance(obj, dict):
        return ("dict", [(k, canon(v)) for k, v in obj.items()])
    if isinstance(obj, list):
        return ("list", [canon(v) for v in obj])
    if isinstance(obj, tuple):
        return ("tuple", [canon(v) for v in obj])
    if isinstance(obj, (float, complex)):
        return (type(obj).__name__, repr(obj))  # keeps nan and -0.0 apart from 0.0
    if isinstance(obj, (str, bytes, int, bool, type(None))):
        return (type(obj).__name__, obj)
    raise TypeError(f"unexpected object: {obj!r}")


def outcome(func, *args):
    try:
        return ("ok", canon(func(*args)))
    except Exception as e:
        return ("raise", type(e).__name__, str(e))


def ascii_field(value, width):
    text = f"{value:>{width}}"
    assert len(text) == width, (value, width)
    return text.encode("ascii")


def build_point(i):
    fields = [
        (100 + i, 4),  # day of year
        (3600000 + 250 * i, 8),  # millisecond of day
        # attitude: error flags, then angles
        (i % 2, 4),
        (0, 4),
        (1, 4),
        (f"{0.5 * i:.6E}", 14),
        (f"{-1.25 * i:.6E}", 14),
        (f"{90.0 + i:.6E}", 14),
        # rates: error flags, then angular velocities
        (0, 4),
        ((i + 1) % 2, 4),
        ("", 4),  # blank integer: -1
        (f"{0.001 * i:.6E}", 14),
        ("", 14),  # blank float: nan
        (f"{-0.002 * i:.6E}", 14),
    ]
    point = b"".join(ascii_field(v, w) for v, w in fields)
    assert len(point) == 120
    return point


def build_record(n_points, n_blanks, record_length=None):
    if record_length is None:
        record_length = 12 + 4 + 120 * n_points + n_blanks
    preamble = struct.pack(">IBBBBI", 4, 18, 40, 18, 20, record_length)
    body = ascii_field(n_points, 4) + b"".join(build_point(i) for i in range(n_points))
    return preamble + body + b" " * n_blanks


def parse(data):
    return to_dict(attitude.attitude_record.parse(data))


def compute():
    results = {}

    record = build_record(3, 8)
    parsed = parse(record)
    results["parsed"] = canon(parsed)
    results["transformed"] = canon(attitude.transform_attitude(parsed))

    # no points at all, the rest of the record is blank
    parsed_empty = parse(build_record(0, 20))
    results["parsed_empty"] = canon(parsed_empty)
    results["transformed_empty"] = outcome(attitude.transform_attitude, parsed_empty)

    # record length too small for the points: negative padding
    results["negative_padding"] = outcome(parse, build_record(2, 0, record_length=100))
    # truncated stream
    results["truncated"] = outcome(parse, build_record(2, 8)[:-30])

    # the helpers
    results["prepend_dim"] = [
        canon(attitude.prepend_dim("x", 1)),
        canon(attitude.prepend_dim("x", ([1, 2], {"units": "deg"}))),
        canon(attitude.prepend_dim("x", {"a": 1, "b": {"c": (2, {"d": 3})}})),
    ]
    results["transform_section"] = canon(
        attitude.transform_section(
            {
                "pitch_error": [0, 1, -1],
                "roll_error": [],
                "yaw_error": [2],
                "pitch": [(1.0, {"units": "deg"}), (2.0, {"units": "deg"})],
                "roll": [],
                "yaw": 4.0,
                "something_else": "untouched",
            }
        )
    )
    results["transform_time"] = canon(
        attitude.transform_time({"day_of_year": [0, 1, 365], "millisecond_of_day": [548, 749, 0]})
    )
    results["errors"] = [
        outcome(attitude.transform_attitude, {}),
        outcome(attitude.transform_attitude, None),
        outcome(attitude.transform_attitude, {"data_points": 5}),
        outcome(attitude.transform_attitude, {"data_points": [{"attitude": 5}]}),
        outcome(attitude.transform_section, {"pitch_error": 5}),
    ]

    return results


EXPECTED = {'parsed': ('dict',
            [('preamble',
              ('dict',
               [('record_sequence_number', ('int', 4)),
                ('first_record_subtype', ('int', 18)),
                ('record_type', ('int', 40)),
                ('second_record_subtype', ('int', 18)),
                ('third_record_subtype', ('int', 20)),
                ('record_length', ('int', 384))])),
             ('number_of_points', ('int', 3)),
             ('data_points',
              ('list',
               [('dict',
                 [('time',
                   ('dict',
                    [('day_of_year', ('int', 100)), ('millisecond_of_day', ('int', 3600000))])),
                  ('attitude',
                   ('dict',
                    [('pitch_error', ('int', 0)),
                     ('roll_error', ('int', 0)),
                     ('yaw_error', ('int', 1)),
                     ('pitch',
                      ('tuple', [('float', '0.0'), ('dict', [('units', ('str', 'deg'))])])),
                     ('roll',
                      ('tuple', [('float', '-0.0'), ('dict', [('units', ('str', 'deg'))])])),
                     ('yaw',
                      ('tuple', [('float', '90.0'), ('dict', [('units', ('str', 'deg'))])]))])),
                  ('rates',
                   ('dict',
                    [('pitch_error', ('int', 0)),
                     ('roll_error', ('int', 1)),
                     ('yaw_error', ('int', -1)),
                     ('pitch',
                      ('tuple', [('float', '0.0'), ('dict', [('units', ('str', 'deg/s'))])])),
                     ('roll',
                      ('tuple', [('float', 'nan'), ('dict', [('units', ('str', 'deg/s'))])])),
                     ('yaw',
                      ('tuple', [('float', '-0.0'), ('dict', [('units', ('str', 'deg/s'))])]))]))]),
                ('dict',
                 [('time',
                   ('dict',
                    [('day_of_year', ('int', 101)), ('millisecond_of_day', ('int', 3600250))])),
                  ('attitude',
                   ('dict',
                    [('pitch_error', ('int', 1)),
                     ('roll_error', ('int', 0)),
                     ('yaw_error', ('int', 1)),
                     ('pitch',
                      ('tuple', [('float', '0.5'), ('dict', [('units', ('str', 'deg'))])])),
                     ('roll',
                      ('tuple', [('float', '-1.25'), ('dict', [('units', ('str', 'deg'))])])),
                     ('yaw',
                      ('tuple', [('float', '91.0'), ('dict', [('units', ('str', 'deg'))])]))])),
                  ('rates',
                   ('dict',
                    [('pitch_error', ('int', 0)),
                     ('roll_error', ('int', 0)),
                     ('yaw_error', ('int', -1)),
                     ('pitch',
                      ('tuple', [('float', '0.001'), ('dict', [('units', ('str', 'deg/s'))])])),
                     ('roll',
                      ('tuple', [('float', 'nan'), ('dict', [('units', ('str', 'deg/s'))])])),
                     ('yaw',
                      ('tuple',
                       [('float', '-0.002'), ('dict', [('units', ('str', 'deg/s'))])]))]))]),
                ('dict',
                 [('time',
                   ('dict',
                    [('day_of_year', ('int', 102)), ('millisecond_of_day', ('int', 3600500))])),
                  ('attitude',
                   ('dict',
                    [('pitch_error', ('int', 0)),
                     ('roll_error', ('int', 0)),
                     ('yaw_error', ('int', 1)),
                     ('pitch',
                      ('tuple', [('float', '1.0'), ('dict', [('units', ('str', 'deg'))])])),
                     ('roll',
                      ('tuple', [('float', '-2.5'), ('dict', [('units', ('str', 'deg'))])])),
                     ('yaw',
                      ('tuple', [('float', '92.0'), ('dict', [('units', ('str', 'deg'))])]))])),
                  ('rates',
                   ('dict',
                    [('pitch_error', ('int', 0)),
                     ('roll_error', ('int', 1)),
                     ('yaw_error', ('int', -1)),
                     ('pitch',
                      ('tuple', [('float', '0.002'), ('dict', [('units', ('str', 'deg/s'))])])),
                     ('roll',
                      ('tuple', [('float', 'nan'), ('dict', [('units', ('str', 'deg/s'))])])),
                     ('yaw',
                      ('tuple',
                       [('float', '-0.004'), ('dict', [('units', ('str', 'deg/s'))])]))]))])])),
             ('blanks', ('str', ''))]),
 'transformed': ('Group',
                 '/',
                 None,
                 ('dict',
                  [('attitude',
                    ('Group',
                     '/attitude',
                     None,
                     ('dict',
                      [('pitch_error',
                        ('Variable',
                         ('list', [('str', 'points')]),
                         ('list', [('bool', False), ('bool', True), ('bool', False)]),
                         ('dict', []))),
                       ('roll_error',
                        ('Variable',
                         ('list', [('str', 'points')]),
                         ('list', [('bool', False), ('bool', False), ('bool', False)]),
                         ('dict', []))),
                       ('yaw_error',
                        ('Variable',
                         ('list', [('str', 'points')]),
                         ('list', [('bool', True), ('bool', True), ('bool', True)]),
                         ('dict', []))),
                       ('pitch',
                        ('Variable',
                         ('list', [('str', 'points')]),
                         ('list', [('float', '0.0'), ('float', '0.5'), ('float', '1.0')]),
                         ('dict', [('units', ('str', 'deg'))]))),
                       ('roll',
                        ('Variable',
                         ('list', [('str', 'points')]),
                         ('list', [('float', '-0.0'), ('float', '-1.25'), ('float', '-2.5')]),
                         ('dict', [('units', ('str', 'deg'))]))),
                       ('yaw',
                        ('Variable',
                         ('list', [('str', 'points')]),
                         ('list', [('float', '90.0'), ('float', '91.0'), ('float', '92.0')]),
                         ('dict', [('units', ('str', 'deg'))]))),
                       ('time',
                        ('Variable',
                         ('list', [('str', 'points')]),
                         ('ndarray',
                          'timedelta64[ns]',
                          (3,),
                          [8643600000000000, 8730000250000000, 8816400500000000]),
                         ('dict', [])))]),
                     ('dict', [('coordinates', ('list', [('str', 'time')]))]))),
                   ('rates',
                    ('Group',
                     '/rates',
                     None,
                     ('dict',
                      [('pitch_error',
                        ('Variable',
                         ('list', [('str', 'points')]),
                         ('list', [('bool', False), ('bool', False), ('bool', False)]),
                         ('dict', []))),
                       ('roll_error',
                        ('Variable',
                         ('list', [('str', 'points')]),
                         ('list', [('bool', True), ('bool', False), ('bool', True)]),
                         ('dict', []))),
                       ('yaw_error',
                        ('Variable',
                         ('list', [('str', 'points')]),
                         ('list', [('bool', True), ('bool', True), ('bool', True)]),
                         ('dict', []))),
                       ('pitch',
                        ('Variable',
                         ('list', [('str', 'points')]),
                         ('list', [('float', '0.0'), ('float', '0.001'), ('float', '0.002')]),
                         ('dict', [('units', ('str', 'deg/s'))]))),
                       ('roll',
                        ('Variable',
                         ('list', [('str', 'points')]),
                         ('list', [('float', 'nan'), ('float', 'nan'), ('float', 'nan')]),
                         ('dict', [('units', ('str', 'deg/s'))]))),
                       ('yaw',
                        ('Variable',
                         ('list', [('str', 'points')]),
                         ('list', [('float', '-0.0'), ('float', '-0.002'), ('float', '-0.004')]),
                         ('dict', [('units', ('str', 'deg/s'))]))),
                       ('time',
                        ('Variable',
                         ('list', [('str', 'points')]),
                         ('ndarray',
                          'timedelta64[ns]',
                          (3,),
                          [8643600000000000, 8730000250000000, 8816400500000000]),
                         ('dict', [])))]),
                     ('dict', [('coordinates', ('list', [('str', 'time')]))])))]),
                 ('dict', [])),
 'parsed_empty': ('dict',
                  [('preamble',
                    ('dict',
                     [('record_sequence_number', ('int', 4)),
                      ('first_record_subtype', ('int', 18)),
                      ('record_type', ('int', 40)),
                      ('second_record_subtype', ('int', 18)),
                      ('third_record_subtype', ('int', 20)),
                      ('record_length', ('int', 36))])),
                   ('number_of_points', ('int', 0)),
                   ('data_points', ('list', [])),
                   ('blanks', ('str', ''))]),
 'transformed_empty': ('raise', 'AttributeError', "'list' object has no attribute 'keys'"),
 'negative_padding': ('raise',
                      'PaddingError',
                      'Error in path (parsing) -> blanks\nlength cannot be negative'),
 'truncated': ('raise',
               'StreamError',
               'Error in path (parsing) -> data_points -> rates -> roll\n'
               'stream read less than specified amount, expected 14, found 6'),
 'prepend_dim': [('tuple', [('str', 'x'), ('int', 1), ('dict', [])]),
                 ('tuple',
                  [('str', 'x'),
                   ('list', [('int', 1), ('int', 2)]),
                   ('dict', [('units', ('str', 'deg'))])]),
                 ('dict',
                  [('a', ('tuple', [('str', 'x'), ('int', 1), ('dict', [])])),
                   ('b',
                    ('dict',
                     [('c',
                       ('tuple', [('str', 'x'), ('int', 2), ('dict', [('d', ('int', 3))])]))]))])],
 'transform_section': ('dict',
                       [('pitch_error',
                         ('list', [('bool', False), ('bool', True), ('bool', True)])),
                        ('roll_error', ('list', [])),
                        ('yaw_error', ('list', [('bool', True)])),
                        ('pitch',
                         ('tuple',
                          [('list', [('float', '1.0'), ('float', '2.0')]),
                           ('dict', [('units', ('str', 'deg'))])])),
                        ('roll', ('tuple', [('list', []), ('dict', [])])),
                        ('yaw', ('tuple', [('float', '4.0'), ('dict', [])])),
                        ('something_else', ('str', 'untouched'))]),
 'transform_time': ('ndarray',
                    'timedelta64[ns]',
                    (3,),
                    [548000000, 86400749000000, 31536000000000000]),
 'errors': [('raise', 'KeyError', "'data_points'"),
            ('raise', 'TypeError', "'NoneType' object is not subscriptable"),
            ('raise', 'AttributeError', "'int' object has no attribute 'keys'"),
            ('raise', 'AttributeError', "'list' object has no attribute 'items'"),
            ('raise', 'TypeError', "'int' object is not iterable")]}


if __name__ == "__main__":
    actual = compute()
    if "--dump" in sys.argv:
        pprint.pprint(actual, width=100, sort_dicts=False)
        sys.exit(0)

    for key, expected in EXPECTED.items():
        assert actual[key] == expected, f"{key}:\n{actual[key]!r}\n!=\n{expected!r}"
    assert list(actual) == list(EXPECTED)
    print(f"equiv 1: OK ({len(EXPECTED)} result sets identical to the values from unchanged code)")
