#!/usr/bin/env python
"""Equivalence check for refactoring 3: ``transform_line_metadata`` and
``apply_overrides`` in ``ceos_alos2.sar_image.metadata``.

Run as

    cd /tmp/wt4/e22 && PYTHONPATH=/tmp/wt4/e22 /venv/bin/python _eq/3/equiv.py

(or through pytest: ``python -m pytest -q -p no:cacheprovider _eq/3/equiv.py``).

``transform_line_metadata`` is run on line records parsed from synthetic signal
data / processed data files and on hand-written record lists (ragged records,
spares, nested sections, values with units, attrs that differ between lines,
bad dates, things that are not record lists at all).  ``apply_overrides`` and
``deduplicate_attrs`` (called by it; the latter is not touched by the patch) are
also called directly.  Results -- a canonical dump of the returned hierarchy
including item order, types and dtypes -- or the exception type and message are
compared with ``EXPECTED``, recorded with the UNCHANGED code (``equiv.py
--record``).  The inputs must be left untouched as well.
"""

import copy
import datetime as dt
import io as stdio
import pprint
import struct
import sys

import numpy as np
from construct import Struct

from ceos_alos2.hierarchy import Group, Variable
from ceos_alos2.sar_image import io as sio
from ceos_alos2.sar_image import metadata
from ceos_alos2.sar_image.file_descriptor import file_descriptor_record

SIGNAL_PREFIX = 544
PROCESSED_PREFIX = 192


# --------------------------------------------------------------------------
# synthetic files
# --------------------------------------------------------------------------
def leaf_offsets(struct_, base=0):
    offset = base
    for sc in struct_.subcons:
        size = sc.sizeof()
        inner = getattr(sc, "subcon", None)
        if isinstance(inner, Struct):
            yield from leaf_offsets(inner, offset)
        else:
            yield sc.name, (offset, size)
        offset += size


DESCRIPTOR_FIELDS = dict(leaf_offsets(file_descriptor_record))


def preamble(seq, record_type, length):
    return struct.pack(">IBBBBI", seq, 50, record_type, 18, 20, length)


def make_descriptor(n_records, record_length):
    buf = bytearray(b" " * 720)
    buf[:12] = preamble(1, 192, 720)
    values = {
        "number_of_sar_data_records": n_records,
        "sar_data_record_length": record_length,
        "number_of_lines_per_dataset": n_records,
        "number_of_data_groups_per_line": 4,
        "sar_data_format_type_code": "IU2",
    }
    for name, value in values.items():
        offset, size = DESCRIPTOR_FIELDS[name]
        text = str(value)
        text = text.rjust(size) if isinstance(value, int) else text.ljust(size)
        buf[offset : offset + size] = text.encode("ascii")
    return bytes(buf)


def make_record(kind, seq, record_length, constant=False):
    record_type, prefix = {"signal": (10, SIGNAL_PREFIX), "processed": (11, PROCESSED_PREFIX)}[kind]
    vary = 0 if constant else seq
    buf = bytearray(record_length)
    buf[:12] = preamble(seq + 1, record_type, record_length)
    struct.pack_into(">IIIIII", buf, 12, seq + 1, 1, 0, (record_length - prefix) // 2, 0, vary % 2)
    struct.pack_into(">III", buf, 36, 2020, 32 + seq, 1000 * seq + 7)
    struct.pack_into(">HHHH", buf, 48, 2, 0, vary % 2, 1)
    struct.pack_into(">II", buf, 56, 2_000_000 + seq, 3)
    if kind == "signal":
        struct.pack_into(">HHIIII", buf, 64, 1, 0, 27, 5, 6, 7)
        struct.pack_into(">Q", buf, 84, 1_000_000 * seq + 13)
        struct.pack_into(">II", buf, 92, 40 + seq, seq % 2)
        struct.pack_into(">I", buf, 128, 1)
        struct.pack_into(">II", buf, 132, 35_000_000 + seq, 139_000_000 + seq)
        buf[224:230] = b"spare\x00"
        struct.pack_into(">I", buf, 284, 710)
        buf[288:293] = b"aux\x00\x01"
    else:
        struct.pack_into(">III", buf, 64, 800_000, 850_000 + seq, 900_000)
        struct.pack_into(">I", buf, 128, vary)
        struct.pack_into(">II", buf, 132, 35_000_000 + seq, 35_500_000 + seq)
    for i in range(prefix, record_length):
        buf[i] = (seq * 31 + i) % 251
    return bytes(buf)


def parsed_lines(kind, n_records, constant=False):
    prefix = SIGNAL_PREFIX if kind == "signal" else PROCESSED_PREFIX
    record_length = prefix + 8
    content = make_descriptor(n_records, record_length) + b"".join(
        make_record(kind, seq, record_length, constant) for seq in range(n_records)
    )
    _, lines = sio.read_metadata(stdio.BytesIO(content), records_per_chunk=2)
    return lines


# --------------------------------------------------------------------------
# canonical dumps
# --------------------------------------------------------------------------
def describe(value):
    if isinstance(value, np.ndarray):
        return ("ndarray", str(value.dtype), value.shape, repr(value.tolist()))
    if isinstance(value, tuple):
        return ("tuple", [describe(v) for v in value])
    if isinstance(value, Variable):
        return ("Variable", value.dims, describe(value.data), describe(value.attrs))
    if isinstance(value, Group):
        return canonical_group(value)
    if isinstance(value, dict):
        return ("dict", [(describe(k), describe(v)) for k, v in value.items()])
    return (type(value).__qualname__, repr(value))


def canonical_group(group):
    return (
        "Group",
        {
            "path": group.path,
            "url": group.url,
            "attrs": [(k, describe(v)) for k, v in group.attrs.items()],
            "data": [(k, describe(v)) for k, v in group.data.items()],
        },
    )


def outcome_of(func, *args):
    # generators can't be copied; everything else must be left untouched
    copyable = all(not hasattr(a, "__next__") for a in args)
    before = repr(copy.deepcopy(args)) if copyable else None
    try:
        result = func(*args)
    except Exception as e:  # noqa: BLE001
        outcome = {"error": f"{type(e).__name__}: {e}"}
    else:
        outcome = {"result": describe(result)}
    if copyable:
        outcome["input-untouched"] = repr(args) == before
    return outcome


# --------------------------------------------------------------------------
# cases
# --------------------------------------------------------------------------
D1 = dt.datetime(2020, 10, 1, 12, 37, 42, 451000)
D2 = dt.datetime(2020, 10, 2, 12, 37, 42, 451000)


def line_cases():
    for kind in ("signal", "processed"):
        for n_records in (1, 2, 3, 5):
            yield f"parsed-{kind}-{n_records}", parsed_lines(kind, n_records)
        yield f"parsed-{kind}-constant-3", parsed_lines(kind, 3, constant=True)
    yield "parsed-mixed-kinds", parsed_lines("signal", 2) + parsed_lines("processed", 2)

    yield "empty", []
    yield "empty-tuple", ()
    yield "one-empty-record", [{}]
    yield "ignored-only", [
        {
            "preamble": {},
            "record_start": 1,
            "actual_count_of_left_fill_pixels": 0,
            "actual_count_of_right_fill_pixels": 0,
            "actual_count_of_data_pixels": 0,
            "alos2_frame_number": 710,
            "palsar_auxiliary_data": b"",
            "blanks2": "",
            "data": {},
        }
    ]
    yield "variables-with-units", [{"a": (1, {"units": "m"})}, {"a": (2, {"units": "m"})}]
    yield "variables-with-differing-units", [{"a": (1, {"units": "m"})}, {"a": (2, {"units": "km"})}]
    yield "variables-mixed-units-and-plain", [{"a": (1, {"units": "m"})}, {"a": 2}]
    yield "variables-plain-then-units", [{"a": 1}, {"a": (2, {"units": "m"})}]
    yield "plain-variables", [{"a": 1, "b": "x"}, {"a": 2, "b": "y"}, {"a": 3, "b": "z"}]
    yield "single-record", [{"a": 1, "scan_id": 4, "sar_image_data_line_number": 9}]
    yield "tuple-of-records", ({"a": 1}, {"a": 2})
    yield "generator-of-records", ({"a": i} for i in range(3))
    yield "ragged-records", [{"a": 1, "b": 2}, {"b": 3, "c": 4}, {"a": 5}]
    yield "order-follows-first-seen", [{"z": 1}, {"y": 2, "z": 3}, {"x": 4, "y": 5, "z": 6}]
    yield "deduplicated", [{"scan_id": 1}, {"scan_id": 1}]
    yield "deduplicated-takes-first", [{"scan_id": 1}, {"scan_id": 2}, {"scan_id": 3}]
    yield "deduplicated-with-units", [{"scan_id": (1, {"units": "x"})}, {"scan_id": (2, {"units": "x"})}]
    yield "all-known-attrs", [
        {
            "sar_image_data_record_index": 1,
            "sensor_parameters_update_flag": 0,
            "scan_id": 3,
            "sar_channel_code": "L",
            "sar_channel_id": "dual_polarization",
            "onboard_range_compressed_flag": False,
            "chirp_type_designator": "linear_fm_chirp",
            "platform_position_parameters_update_flag": "update",
            "alos2_frame_number": 710,
            "geographic_reference_parameter_update_flag": 1,
            "transmitted_pulse_polarization": "horizontal",
            "received_pulse_polarization": "vertical",
            "other": line,
        }
        for line in range(3)
    ]
    yield "attrs-between-variables", [
        {"a": 1, "scan_id": 7, "b": 2, "sar_channel_code": "L", "c": 3},
        {"a": 4, "scan_id": 7, "b": 5, "sar_channel_code": "L", "c": 6},
    ]
    yield "dates", [{"sensor_acquisition_date": D1}, {"sensor_acquisition_date": D2}]
    yield "dates-microseconds", [
        {"sensor_acquisition_date_microseconds": D1, "sensor_acquisition_date": D1},
        {"sensor_acquisition_date_microseconds": D2, "sensor_acquisition_date": D2},
    ]
    yield "dates-as-strings", [
        {"sensor_acquisition_date": "2020-10-01T12:00:00"},
        {"sensor_acquisition_date": "2020-10-02"},
    ]
    yield "dates-as-numbers", [{"sensor_acquisition_date": 0}, {"sensor_acquisition_date": 10**9}]
    yield "dates-invalid", [{"sensor_acquisition_date": "yesterday"}]
    yield "dates-none", [{"sensor_acquisition_date": None}, {"sensor_acquisition_date": D1}]
    yield "dates-with-units", [
        {"sensor_acquisition_date": (D1, {"standard_name": "time"})},
        {"sensor_acquisition_date": (D2, {"standard_name": "time"})},
    ]
    yield "dates-ragged", [{"a": 1}, {"a": 2, "sensor_acquisition_date": D2}]
    yield "renamed", [{"sar_image_data_line_number": 1}, {"sar_image_data_line_number": 2}]
    yield "renamed-collision-before", [
        {"rows": 10, "sar_image_data_line_number": 1},
        {"rows": 20, "sar_image_data_line_number": 2},
    ]
    yield "renamed-collision-after", [
        {"sar_image_data_line_number": 1, "rows": 10},
        {"sar_image_data_line_number": 2, "rows": 20},
    ]
    yield "spares", [
        {"spare": 1, "spare1": 2, "spare_x": 3, "blanks": 4, "blanks12": 5, "blanksx": 6, "a": 7},
        {"spare": 1, "spare1": 2, "spare_x": 3, "blanks": 4, "blanks12": 5, "blanksx": 6, "a": 8},
    ]
    yield "nested-sections", [
        {"platform_velocity": {"x": (1, {"units": "cm/s"}), "spare1": 0}, "a": 1},
        {"platform_velocity": {"x": (2, {"units": "cm/s"}), "spare1": 0}, "a": 2},
    ]
    yield "lists-as-values", [{"a": [1, 2]}, {"a": [3, 4]}]
    yield "empty-lists-as-values", [{"a": []}, {"a": []}]
    yield "tuples-with-three-items", [{"a": (1, {"units": "m"}, "extra")}, {"a": (2, {}, "extra")}]
    yield "none-values", [{"a": None}, {"a": None}]
    yield "integer-keys", [{1: "a"}, {1: "b"}]
    yield "mixed-keys", [{1: "a", "b": 2}]

    # not record lists
    yield "none", None
    yield "integer", 5
    yield "string", "ab"
    yield "list-of-none", [None]
    yield "list-of-two-none", [None, None]
    yield "list-of-integers", [1, 2]
    yield "list-of-pairs", [[("a", 1)], [("a", 2)]]
    yield "list-in-a-list", [[{"a": 1}, {"a": 2}]]
    yield "dict-instead-of-list", {"a": {"x": 1}, "b": {"x": 2}}
    yield "dict-of-scalars", {"a": 1}
    yield "record-then-none", [{"a": 1}, None]


IDENT = ("y", [1.0, 2.1], {"k": "v"})


def override_cases():
    mapping = {"a": ("x", [1, 2], {}), "b": IDENT}
    yield "int8", ({"a": "int8"}, mapping)
    yield "float16", ({"b": "float16"}, mapping)
    yield "both", ({"a": "float32", "b": "int64"}, mapping)
    yield "both-reversed-overrides", ({"b": "int64", "a": "float32"}, mapping)
    yield "none", ({}, mapping)
    yield "unrelated", ({"c": "int8"}, mapping)
    yield "empty-mapping", ({"a": "int8"}, {})
    yield "dtype-objects", ({"a": np.dtype("uint16"), "b": np.float32}, mapping)
    yield "datetime", (
        {"t": "datetime64[ns]"},
        {"t": ("rows", [D1, D2], {}), "u": ("rows", [1, 2], {})},
    )
    yield "datetime-seconds", ({"t": "datetime64[s]"}, {"t": ("rows", [D1, D2], {})})
    yield "string-dtype", ({"a": "U3"}, mapping)
    yield "object-dtype", ({"b": object}, mapping)
    yield "none-dtype", ({"a": None}, mapping)
    yield "invalid-dtype", ({"a": "foo"}, mapping)
    yield "lossy-conversion", ({"b": "int8"}, {"b": ("y", [1.5, -2.5, 300.0], {})})
    yield "inconvertible", ({"a": "int8"}, {"a": ("x", ["p", "q"], {})})
    yield "scalar-data", ({"a": "float64"}, {"a": ((), 1, {"u": 1})})
    yield "nested-data", ({"a": "int16"}, {"a": (("x", "y"), [[1, 2], [3, 4]], {})})
    yield "array-data", ({"a": "int16"}, {"a": ("x", np.array([1.7, 2.2]), {})})
    yield "two-tuple", ({"a": "int8"}, {"a": ([1, 2], {})})
    yield "four-tuple", ({"a": "int8"}, {"a": ("x", [1, 2], {}, None)})
    yield "not-a-tuple", ({"a": "int8"}, {"a": 5})
    yield "list-variable", ({"a": "int8"}, {"a": ["x", [1, 2], {}]})
    yield "untouched-not-a-tuple", ({"a": "int8"}, {"b": 5, "c": None})
    yield "failure-after-success", ({"a": "int8", "b": "int8"}, {"a": ("x", [1], {}), "b": 5})
    yield "overrides-as-list", (["a"], mapping)
    yield "overrides-as-list-unrelated", (["c"], mapping)
    yield "overrides-as-set", ({"a"}, mapping)
    yield "overrides-as-string", ("ab", mapping)
    yield "overrides-none", (None, mapping)
    yield "overrides-none-empty-mapping", (None, {})
    yield "mapping-none", ({"a": "int8"}, None)
    yield "mapping-list", ({"a": "int8"}, [("a", ("x", [1], {}))])
    yield "integer-keys", ({1: "int8"}, {1: ("x", [1], {}), 2: ("x", [2], {})})


def deduplicate_cases():
    mapping = {"a": 1, "b": ("x", [1, 1], {}), "c": ("y", [2, 2], {})}
    yield "b", (["b"], mapping)
    yield "c", (["c"], mapping)
    yield "b-c", (["b", "c"], mapping)
    yield "set", ({"c", "b"}, mapping)
    yield "nothing-known", ([], mapping)
    yield "unrelated", (["z"], mapping)
    yield "empty-mapping", (["b"], {})
    yield "attr-first", (["a"], {"a": ("x", [5, 6], {}), "b": ("y", [1, 2], {})})
    yield "string-value", (["a"], {"a": "xyz"})
    yield "scalar-value", (["a"], mapping)
    yield "short-tuple", (["b", "c"], {"b": ("x",), "c": ("y", [2, 2], {})})
    yield "empty-data", (["b", "c"], {"b": ("x", [], {}), "c": ("y", [2, 2], {})})
    yield "mapping-none", (["a"], None)


def collect():
    outcomes = {}
    for name, lines in line_cases():
        outcomes[f"lines/{name}"] = outcome_of(metadata.transform_line_metadata, lines)

    lines = parsed_lines("signal", 3)
    first = outcome_of(metadata.transform_line_metadata, lines)
    outcomes["lines/repeatable"] = first == outcome_of(metadata.transform_line_metadata, lines)
    group = metadata.transform_line_metadata(lines)
    outcomes["lines/result-type"] = (type(group).__module__, type(group).__qualname__)

    for name, args in override_cases():
        outcomes[f"overrides/{name}"] = outcome_of(metadata.apply_overrides, *args)
    result = metadata.apply_overrides({"a": "int8"}, {"a": ("x", [1, 2], {}), "b": IDENT})
    outcomes["overrides/untouched-items-are-the-same-objects"] = result["b"] is IDENT
    attrs = {"u": 1}
    result = metadata.apply_overrides({"a": "int8"}, {"a": ("x", [1, 2], attrs)})
    outcomes["overrides/attrs-are-the-same-object"] = result["a"][2] is attrs

    for name, args in deduplicate_cases():
        outcomes[f"deduplicate/{name}"] = outcome_of(metadata.deduplicate_attrs, *args)
    return outcomes


# recorded with the unchanged code: `equiv.py --record`
# >>> EXPECTED
# fmt: off
EXPECTED = {'lines/parsed-signal-1': {'result': ('Group',
                                      {'path': '/',
                                       'url': None,
                                       'attrs': [('sar_image_data_record_index', ('int', '1')), ('sensor_parameters_update_flag', ('int', '0')),
                                                 ('sar_channel_id', ('str', "'dual_polarization'")), ('sar_channel_code', ('str', "'L'")),
                                                 ('transmitted_pulse_polarization', ('str', "'horizontal'")),
                                                 ('received_pulse_polarization', ('str', "'vertical'")), ('scan_id', ('int', '3')),
                                                 ('onboard_range_compressed_flag', ('bool', 'True')), ('chirp_type_designator', ('str', "'linear_fm_chirp'")),
                                                 ('platform_position_parameters_update_flag', ('str', "'update'"))],
                                       'data': [('rows', ('Variable', ['rows'], ('list', '[1]'), ('dict', []))),
                                                ('sensor_acquisition_date',
                                                 ('Variable', ['rows'], ('ndarray', 'datetime64[ns]', (1,), '[1580515200007000000]'), ('dict', []))),
                                                ('prf', ('Variable', ['rows'], ('list', '[2000000]'), ('dict', [(('str', "'units'"), ('str', "'mHz'"))]))),
                                                ('chirp_length', ('Variable', ['rows'], ('list', '[27]'), ('dict', [(('str', "'units'"), ('str', "'ns'"))]))),
                                                ('chirp_constant_coefficient',
                                                 ('Variable', ['rows'], ('list', '[5]'), ('dict', [(('str', "'units'"), ('str', "'Hz'"))]))),
                                                ('chirp_linear_coefficient',
                                                 ('Variable', ['rows'], ('list', '[6]'), ('dict', [(('str', "'units'"), ('str', "'Hz/µs'"))]))),
                                                ('chirp_quadratic_coefficient',
                                                 ('Variable', ['rows'], ('list', '[7]'), ('dict', [(('str', "'units'"), ('str', "'Hz/µs^2'"))]))),
                                                ('sensor_acquisition_date_microseconds',
                                                 ('Variable', ['rows'], ('ndarray', 'datetime64[ns]', (1,), '[1580515200000013000]'), ('dict', []))),
                                                ('receiver_gain', ('Variable', ['rows'], ('list', '[40]'), ('dict', [(('str', "'units'"), ('str', "'dB'"))]))),
                                                ('invalid_line_flag', ('Variable', ['rows'], ('list', '[False]'), ('dict', []))),
                                                ('elevation_angle_at_nadir_of_antenna',
                                                 ('Variable', ['rows'], ('list', "[{'electronic': (0, {'units': 'deg'}), 'mechanic': (0, {'units': 'deg'})}]"),
                                                  ('dict', []))),
                                                ('antenna_squint_angle',
                                                 ('Variable', ['rows'], ('list', "[{'electronic': (0, {'units': 'deg'}), 'mechanic': (0, {'units': 'deg'})}]"),
                                                  ('dict', []))),
                                                ('slant_range_to_first_data_sample',
                                                 ('Variable', ['rows'], ('list', '[0]'), ('dict', [(('str', "'units'"), ('str', "'m'"))]))),
                                                ('data_record_window_position',
                                                 ('Variable', ['rows'], ('list', '[0]'), ('dict', [(('str', "'units'"), ('str', "'ns'"))]))),
                                                ('platform_latitude',
                                                 ('Variable', ['rows'], ('list', '[35.0]'), ('dict', [(('str', "'units'"), ('str', "'deg'"))]))),
                                                ('platform_longitude',
                                                 ('Variable', ['rows'], ('list', '[139.0]'), ('dict', [(('str', "'units'"), ('str', "'deg'"))]))),
                                                ('platform_altitude',
                                                 ('Variable', ['rows'], ('list', '[0]'), ('dict', [(('str', "'units'"), ('str', "'deg'"))]))),
                                                ('platform_ground_speed',
                                                 ('Variable', ['rows'], ('list', '[0]'), ('dict', [(('str', "'units'"), ('str', "'cm/s'"))]))),
                                                ('platform_velocity',
                                                 ('Variable', ['rows'],
                                                  ('list', "[{'x': (0, {'units': 'cm/s'}), 'y': (0, {'units': 'cm/s'}), 'z': (0, {'units': 'cm/s'})}]"),
                                                  ('dict', []))),
                                                ('platform_acceleration',
                                                 ('Variable', ['rows'],
                                                  ('list', "[{'x': (0, {'units': 'cm/s^2'}), 'y': (0, {'units': 'cm/s^2'}), 'z': (0, {'units': 'cm/s^2'})}]"),
                                                  ('dict', []))),
                                                ('platform_track_angle',
                                                 ('Variable', ['rows'], ('list', '[0.0]'), ('dict', [(('str', "'units'"), ('str', "'deg'"))]))),
                                                ('platform_true_track_angle',
                                                 ('Variable', ['rows'], ('list', '[0.0]'), ('dict', [(('str', "'units'"), ('str', "'deg'"))]))),
                                                ('platform_attitude',
                                                 ('Variable', ['rows'],
                                                  ('list',
                                                   "[{'pitch': (0.0, {'units': 'deg'}), 'roll': (0.0, {'units': 'deg'}), 'yaw': (0.0, {'units': 'deg'})}]"),
                                                  ('dict', []))),
                                                ('latitude_of_first_pixel',
                                                 ('Variable', ['rows'], ('list', '[0.0]'), ('dict', [(('str', "'units'"), ('str', "'deg'"))]))),
                                                ('latitude_of_center_pixel',
                                                 ('Variable', ['rows'], ('list', '[0.0]'), ('dict', [(('str', "'units'"), ('str', "'deg'"))]))),
                                                ('latitude_of_last_pixel',
                                                 ('Variable', ['rows'], ('list', '[0.0]'), ('dict', [(('str', "'units'"), ('str', "'deg'"))]))),
                                                ('longitude_of_first_pixel',
                                                 ('Variable', ['rows'], ('list', '[0.0]'), ('dict', [(('str', "'units'"), ('str', "'deg'"))]))),
                                                ('longitude_of_center_pixel',
                                                 ('Variable', ['rows'], ('list', '[0.0]'), ('dict', [(('str', "'units'"), ('str', "'deg'"))]))),
                                                ('longitude_of_last_pixel',
                                                 ('Variable', ['rows'], ('list', '[0.0]'), ('dict', [(('str', "'units'"), ('str', "'deg'"))]))),
                                                ('burst_number', ('Variable', ['rows'], ('list', '[0]'), ('dict', []))),
                                                ('line_number_in_this_burst', ('Variable', ['rows'], ('list', '[0]'), ('dict', [])))]}),
                           'input-untouched': True},
 'lines/parsed-signal-2': {'result': ('Group',
                                      {'path': '/',
                                       'url': None,
                                       'attrs': [('sar_image_data_record_index', ('int', '1')), ('sensor_parameters_update_flag', ('int', '0')),
                                                 ('sar_channel_id', ('str', "'dual_polarization'")), ('sar_channel_code', ('str', "'L'")),
                                                 ('transmitted_pulse_polarization', ('str', "'horizontal'")),
                                                 ('received_pulse_polarization', ('str', "'vertical'")), ('scan_id', ('int', '3')),
                                                 ('onboard_range_compressed_flag', ('bool', 'True')), ('chirp_type_designator', ('str', "'linear_fm_chirp'")),
                                                 ('platform_position_parameters_update_flag', ('str', "'update'"))],
                                       'data': [('rows', ('Variable', ['rows'], ('list', '[1, 2]'), ('dict', []))),
                                                ('sensor_acquisition_date',
                                                 ('Variable', ['rows'], ('ndarray', 'datetime64[ns]', (2,), '[1580515200007000000, 1580601601007000000]'),
                                                  ('dict', []))),
                                                ('prf',
                                                 ('Variable', ['rows'], ('list', '[2000000, 2000001]'), ('dict', [(('str', "'units'"), ('str', "'mHz'"))]))),
                                                ('chirp_length',
                                                 ('Variable', ['rows'], ('list', '[27, 27]'), ('dict', [(('str', "'units'"), ('str', "'ns'"))]))),
                                                ('chirp_constant_coefficient',
                                                 ('Variable', ['rows'], ('list', '[5, 5]'), ('dict', [(('str', "'units'"), ('str', "'Hz'"))]))),
                                                ('chirp_linear_coefficient',
                                                 ('Variable', ['rows'], ('list', '[6, 6]'), ('dict', [(('str', "'units'"), ('str', "'Hz/µs'"))]))),
                                                ('chirp_quadratic_coefficient',
                                                 ('Variable', ['rows'], ('list', '[7, 7]'), ('dict', [(('str', "'units'"), ('str', "'Hz/µs^2'"))]))),
                                                ('sensor_acquisition_date_microseconds',
                                                 ('Variable', ['rows'], ('ndarray', 'datetime64[ns]', (2,), '[1580515200000013000, 1580601601000013000]'),
                                                  ('dict', []))),
                                                ('receiver_gain',
                                                 ('Variable', ['rows'], ('list', '[40, 41]'), ('dict', [(('str', "'units'"), ('str', "'dB'"))]))),
                                                ('invalid_line_flag', ('Variable', ['rows'], ('list', '[False, True]'), ('dict', []))),
                                                ('elevation_angle_at_nadir_of_antenna',
                                                 ('Variable', ['rows'],
                                                  ('list',
                                                   "[{'electronic': (0, {'units': 'deg'}), 'mechanic': (0, {'units': 'deg'})}, {'electronic': (0, {'units': "
                                                   "'deg'}), 'mechanic': (0, {'units': 'deg'})}]"),
                                                  ('dict', []))),
                                                ('antenna_squint_angle',
                                                 ('Variable', ['rows'],
                                                  ('list',
                                                   "[{'electronic': (0, {'units': 'deg'}), 'mechanic': (0, {'units': 'deg'})}, {'electronic': (0, {'units': "
                                                   "'deg'}), 'mechanic': (0, {'units': 'deg'})}]"),
                                                  ('dict', []))),
                                                ('slant_range_to_first_data_sample',
                                                 ('Variable', ['rows'], ('list', '[0, 0]'), ('dict', [(('str', "'units'"), ('str', "'m'"))]))),
                                                ('data_record_window_position',
                                                 ('Variable', ['rows'], ('list', '[0, 0]'), ('dict', [(('str', "'units'"), ('str', "'ns'"))]))),
                                                ('platform_latitude',
                                                 ('Variable', ['rows'], ('list', '[35.0, 35.000001]'), ('dict', [(('str', "'units'"), ('str', "'deg'"))]))),
                                                ('platform_longitude',
                                                 ('Variable', ['rows'], ('list', '[139.0, 139.000001]'), ('dict', [(('str', "'units'"), ('str', "'deg'"))]))),
                                                ('platform_altitude',
                                                 ('Variable', ['rows'], ('list', '[0, 0]'), ('dict', [(('str', "'units'"), ('str', "'deg'"))]))),
                                                ('platform_ground_speed',
                                                 ('Variable', ['rows'], ('list', '[0, 0]'), ('dict', [(('str', "'units'"), ('str', "'cm/s'"))]))),
                                                ('platform_velocity',
                                                 ('Variable', ['rows'],
                                                  ('list',
                                                   "[{'x': (0, {'units': 'cm/s'}), 'y': (0, {'units': 'cm/s'}), 'z': (0, {'units': 'cm/s'})}, {'x': (0, "
                                                   "{'units': 'cm/s'}), 'y': (0, {'units': 'cm/s'}), 'z': (0, {'units': 'cm/s'})}]"),
                                                  ('dict', []))),
                                                ('platform_acceleration',
                                                 ('Variable', ['rows'],
                                                  ('list',
                                                   "[{'x': (0, {'units': 'cm/s^2'}), 'y': (0, {'units': 'cm/s^2'}), 'z': (0, {'units': 'cm/s^2'})}, {'x': (0, "
                                                   "{'units': 'cm/s^2'}), 'y': (0, {'units': 'cm/s^2'}), 'z': (0, {'units': 'cm/s^2'})}]"),
                                                  ('dict', []))),
                                                ('platform_track_angle',
                                                 ('Variable', ['rows'], ('list', '[0.0, 0.0]'), ('dict', [(('str', "'units'"), ('str', "'deg'"))]))),
                                                ('platform_true_track_angle',
                                                 ('Variable', ['rows'], ('list', '[0.0, 0.0]'), ('dict', [(('str', "'units'"), ('str', "'deg'"))]))),
                                                ('platform_attitude',
                                                 ('Variable', ['rows'],
                                                  ('list',
                                                   "[{'pitch': (0.0, {'units': 'deg'}), 'roll': (0.0, {'units': 'deg'}), 'yaw': (0.0, {'units': 'deg'})}, "
                                                   "{'pitch': (0.0, {'units': 'deg'}), 'roll': (0.0, {'units': 'deg'}), 'yaw': (0.0, {'units': 'deg'})}]"),
                                                  ('dict', []))),
                                                ('latitude_of_first_pixel',
                                                 ('Variable', ['rows'], ('list', '[0.0, 0.0]'), ('dict', [(('str', "'units'"), ('str', "'deg'"))]))),
                                                ('latitude_of_center_pixel',
                                                 ('Variable', ['rows'], ('list', '[0.0, 0.0]'), ('dict', [(('str', "'units'"), ('str', "'deg'"))]))),
                                                ('latitude_of_last_pixel',
                                                 ('Variable', ['rows'], ('list', '[0.0, 0.0]'), ('dict', [(('str', "'units'"), ('str', "'deg'"))]))),
                                                ('longitude_of_first_pixel',
                                                 ('Variable', ['rows'], ('list', '[0.0, 0.0]'), ('dict', [(('str', "'units'"), ('str', "'deg'"))]))),
                                                ('longitude_of_center_pixel',
                                                 ('Variable', ['rows'], ('list', '[0.0, 0.0]'), ('dict', [(('str', "'units'"), ('str', "'deg'"))]))),
                                                ('longitude_of_last_pixel',
                                                 ('Variable', ['rows'], ('list', '[0.0, 0.0]'), ('dict', [(('str', "'units'"), ('str', "'deg'"))]))),
                                                ('burst_number', ('Variable', ['rows'], ('list', '[0, 0]'), ('dict', []))),
                                                ('line_number_in_this_burst', ('Variable', ['rows'], ('list', '[0, 0]'), ('dict', [])))]}),
                           'input-untouched': True},
 'lines/parsed-signal-3': {'result': ('Group',
                                      {'path': '/',
                                       'url': None,
                                       'attrs': [('sar_image_data_record_index', ('int', '1')), ('sensor_parameters_update_flag', ('int', '0')),
                                                 ('sar_channel_id', ('str', "'dual_polarization'")), ('sar_channel_code', ('str', "'L'")),
                                                 ('transmitted_pulse_polarization', ('str', "'horizontal'")),
                                                 ('received_pulse_polarization', ('str', "'vertical'")), ('scan_id', ('int', '3')),
                                                 ('onboard_range_compressed_flag', ('bool', 'True')), ('chirp_type_designator', ('str', "'linear_fm_chirp'")),
                                                 ('platform_position_parameters_update_flag', ('str', "'update'"))],
                                       'data': [('rows', ('Variable', ['rows'], ('list', '[1, 2, 3]'), ('dict', []))),
                                                ('sensor_acquisition_date',
                                                 ('Variable', ['rows'],
                                                  ('ndarray', 'datetime64[ns]', (3,), '[1580515200007000000, 1580601601007000000, 1580688002007000000]'),
                                                  ('dict', []))),
                                                ('prf',
                                                 ('Variable', ['rows'], ('list', '[2000000, 2000001, 2000002]'),
                                                  ('dict', [(('str', "'units'"), ('str', "'mHz'"))]))),
                                                ('chirp_length',
                                                 ('Variable', ['rows'], ('list', '[27, 27, 27]'), ('dict', [(('str', "'units'"), ('str', "'ns'"))]))),
                                                ('chirp_constant_coefficient',
                                                 ('Variable', ['rows'], ('list', '[5, 5, 5]'), ('dict', [(('str', "'units'"), ('str', "'Hz'"))]))),
                                                ('chirp_linear_coefficient',
                                                 ('Variable', ['rows'], ('list', '[6, 6, 6]'), ('dict', [(('str', "'units'"), ('str', "'Hz/µs'"))]))),
                                                ('chirp_quadratic_coefficient',
                                                 ('Variable', ['rows'], ('list', '[7, 7, 7]'), ('dict', [(('str', "'units'"), ('str', "'Hz/µs^2'"))]))),
                                                ('sensor_acquisition_date_microseconds',
                                                 ('Variable', ['rows'],
                                                  ('ndarray', 'datetime64[ns]', (3,), '[1580515200000013000, 1580601601000013000, 1580688002000013000]'),
                                                  ('dict', []))),
                                                ('receiver_gain',
                                                 ('Variable', ['rows'], ('list', '[40, 41, 42]'), ('dict', [(('str', "'units'"), ('str', "'dB'"))]))),
                                                ('invalid_line_flag', ('Variable', ['rows'], ('list', '[False, True, False]'), ('dict', []))),
                                                ('elevation_angle_at_nadir_of_antenna',
                                                 ('Variable', ['rows'],
                                                  ('list',
                                                   "[{'electronic': (0, {'units': 'deg'}), 'mechanic': (0, {'units': 'deg'})}, {'electronic': (0, {'units': "
                                                   "'deg'}), 'mechanic': (0, {'units': 'deg'})}, {'electronic': (0, {'units': 'deg'}), 'mechanic': (0, "
                                                   "{'units': 'deg'})}]"),
                                                  ('dict', []))),
                                                ('antenna_squint_angle',
                                                 ('Variable', ['rows'],
                                                  ('list',
                                                   "[{'electronic': (0, {'units': 'deg'}), 'mechanic': (0, {'units': 'deg'})}, {'electronic': (0, {'units': "
                                                   "'deg'}), 'mechanic': (0, {'units': 'deg'})}, {'electronic': (0, {'units': 'deg'}), 'mechanic': (0, "
                                                   "{'units': 'deg'})}]"),
                                                  ('dict', []))),
                                                ('slant_range_to_first_data_sample',
                                                 ('Variable', ['rows'], ('list', '[0, 0, 0]'), ('dict', [(('str', "'units'"), ('str', "'m'"))]))),
                                                ('data_record_window_position',
                                                 ('Variable', ['rows'], ('list', '[0, 0, 0]'), ('dict', [(('str', "'units'"), ('str', "'ns'"))]))),
                                                ('platform_latitude',
                                                 ('Variable', ['rows'], ('list', '[35.0, 35.000001, 35.000001999999995]'),
                                                  ('dict', [(('str', "'units'"), ('str', "'deg'"))]))),
                                                ('platform_longitude',
                                                 ('Variable', ['rows'], ('list', '[139.0, 139.000001, 139.000002]'),
                                                  ('dict', [(('str', "'units'"), ('str', "'deg'"))]))),
                                                ('platform_altitude',
                                                 ('Variable', ['rows'], ('list', '[0, 0, 0]'), ('dict', [(('str', "'units'"), ('str', "'deg'"))]))),
                                                ('platform_ground_speed',
                                                 ('Variable', ['rows'], ('list', '[0, 0, 0]'), ('dict', [(('str', "'units'"), ('str', "'cm/s'"))]))),
                                                ('platform_velocity',
                                                 ('Variable', ['rows'],
                                                  ('list',
                                                   "[{'x': (0, {'units': 'cm/s'}), 'y': (0, {'units': 'cm/s'}), 'z': (0, {'units': 'cm/s'})}, {'x': (0, "
                                                   "{'units': 'cm/s'}), 'y': (0, {'units': 'cm/s'}), 'z': (0, {'units': 'cm/s'})}, {'x': (0, {'units': "
                                                   "'cm/s'}), 'y': (0, {'units': 'cm/s'}), 'z': (0, {'units': 'cm/s'})}]"),
                                                  ('dict', []))),
                                                ('platform_acceleration',
                                                 ('Variable', ['rows'],
                                                  ('list',
                                                   "[{'x': (0, {'units': 'cm/s^2'}), 'y': (0, {'units': 'cm/s^2'}), 'z': (0, {'units': 'cm/s^2'})}, {'x': (0, "
                                                   "{'units': 'cm/s^2'}), 'y': (0, {'units': 'cm/s^2'}), 'z': (0, {'units': 'cm/s^2'})}, {'x': (0, {'units': "
                                                   "'cm/s^2'}), 'y': (0, {'units': 'cm/s^2'}), 'z': (0, {'units': 'cm/s^2'})}]"),
                                                  ('dict', []))),
                                                ('platform_track_angle',
                                                 ('Variable', ['rows'], ('list', '[0.0, 0.0, 0.0]'), ('dict', [(('str', "'units'"), ('str', "'deg'"))]))),
                                                ('platform_true_track_angle',
                                                 ('Variable', ['rows'], ('list', '[0.0, 0.0, 0.0]'), ('dict', [(('str', "'units'"), ('str', "'deg'"))]))),
                                                ('platform_attitude',
                                                 ('Variable', ['rows'],
                                                  ('list',
                                                   "[{'pitch': (0.0, {'units': 'deg'}), 'roll': (0.0, {'units': 'deg'}), 'yaw': (0.0, {'units': 'deg'})}, "
                                                   "{'pitch': (0.0, {'units': 'deg'}), 'roll': (0.0, {'units': 'deg'}), 'yaw': (0.0, {'units': 'deg'})}, "
                                                   "{'pitch': (0.0, {'units': 'deg'}), 'roll': (0.0, {'units': 'deg'}), 'yaw': (0.0, {'units': 'deg'})}]"),
                                                  ('dict', []))),
                                                ('latitude_of_first_pixel',
                                                 ('Variable', ['rows'], ('list', '[0.0, 0.0, 0.0]'), ('dict', [(('str', "'units'"), ('str', "'deg'"))]))),
                                                ('latitude_of_center_pixel',
                                                 ('Variable', ['rows'], ('list', '[0.0, 0.0, 0.0]'), ('dict', [(('str', "'units'"), ('str', "'deg'"))]))),
                                                ('latitude_of_last_pixel',
                                                 ('Variable', ['rows'], ('list', '[0.0, 0.0, 0.0]'), ('dict', [(('str', "'units'"), ('str', "'deg'"))]))),
                                                ('longitude_of_first_pixel',
                                                 ('Variable', ['rows'], ('list', '[0.0, 0.0, 0.0]'), ('dict', [(('str', "'units'"), ('str', "'deg'"))]))),
                                                ('longitude_of_center_pixel',
                                                 ('Variable', ['rows'], ('list', '[0.0, 0.0, 0.0]'), ('dict', [(('str', "'units'"), ('str', "'deg'"))]))),
                                                ('longitude_of_last_pixel',
                                                 ('Variable', ['rows'], ('list', '[0.0, 0.0, 0.0]'), ('dict', [(('str', "'units'"), ('str', "'deg'"))]))),
                                                ('burst_number', ('Variable', ['rows'], ('list', '[0, 0, 0]'), ('dict', []))),
                                                ('line_number_in_this_burst', ('Variable', ['rows'], ('list', '[0, 0, 0]'), ('dict', [])))]}),
                           'input-untouched': True},
 'lines/parsed-signal-5': {'result': ('Group',
                                      {'path': '/',
                                       'url': None,
                                       'attrs': [('sar_image_data_record_index', ('int', '1')), ('sensor_parameters_update_flag', ('int', '0')),
                                                 ('sar_channel_id', ('str', "'dual_polarization'")), ('sar_channel_code', ('str', "'L'")),
                                                 ('transmitted_pulse_polarization', ('str', "'horizontal'")),
                                                 ('received_pulse_polarization', ('str', "'vertical'")), ('scan_id', ('int', '3')),
                                                 ('onboard_range_compressed_flag', ('bool', 'True')), ('chirp_type_designator', ('str', "'linear_fm_chirp'")),
                                                 ('platform_position_parameters_update_flag', ('str', "'update'"))],
                                       'data': [('rows', ('Variable', ['rows'], ('list', '[1, 2, 3, 4, 5]'), ('dict', []))),
                                                ('sensor_acquisition_date',
                                                 ('Variable', ['rows'],
                                                  ('ndarray', 'datetime64[ns]', (5,),
                                                   '[1580515200007000000, 1580601601007000000, 1580688002007000000, 1580774403007000000, 1580860804007000000]'),
                                                  ('dict', []))),
                                                ('prf',
                                                 ('Variable', ['rows'], ('list', '[2000000, 2000001, 2000002, 2000003, 2000004]'),
                                                  ('dict', [(('str', "'units'"), ('str', "'mHz'"))]))),
                                                ('chirp_length',
                                                 ('Variable', ['rows'], ('list', '[27, 27, 27, 27, 27]'), ('dict', [(('str', "'units'"), ('str', "'ns'"))]))),
                                                ('chirp_constant_coefficient',
                                                 ('Variable', ['rows'], ('list', '[5, 5, 5, 5, 5]'), ('dict', [(('str', "'units'"), ('str', "'Hz'"))]))),
                                                ('chirp_linear_coefficient',
                                                 ('Variable', ['rows'], ('list', '[6, 6, 6, 6, 6]'), ('dict', [(('str', "'units'"), ('str', "'Hz/µs'"))]))),
                                                ('chirp_quadratic_coefficient',
                                                 ('Variable', ['rows'], ('list', '[7, 7, 7, 7, 7]'), ('dict', [(('str', "'units'"), ('str', "'Hz/µs^2'"))]))),
                                                ('sensor_acquisition_date_microseconds',
                                                 ('Variable', ['rows'],
                                                  ('ndarray', 'datetime64[ns]', (5,),
                                                   '[1580515200000013000, 1580601601000013000, 1580688002000013000, 1580774403000013000, 1580860804000013000]'),
                                                  ('dict', []))),
                                                ('receiver_gain',
                                                 ('Variable', ['rows'], ('list', '[40, 41, 42, 43, 44]'), ('dict', [(('str', "'units'"), ('str', "'dB'"))]))),
                                                ('invalid_line_flag', ('Variable', ['rows'], ('list', '[False, True, False, True, False]'), ('dict', []))),
                                                ('elevation_angle_at_nadir_of_antenna',
                                                 ('Variable', ['rows'],
                                                  ('list',
                                                   "[{'electronic': (0, {'units': 'deg'}), 'mechanic': (0, {'units': 'deg'})}, {'electronic': (0, {'units': "
                                                   "'deg'}), 'mechanic': (0, {'units': 'deg'})}, {'electronic': (0, {'units': 'deg'}), 'mechanic': (0, "
                                                   "{'units': 'deg'})}, {'electronic': (0, {'units': 'deg'}), 'mechanic': (0, {'units': 'deg'})}, "
                                                   "{'electronic': (0, {'units': 'deg'}), 'mechanic': (0, {'units': 'deg'})}]"),
                                                  ('dict', []))),
                                                ('antenna_squint_angle',
                                                 ('Variable', ['rows'],
                                                  ('list',
                                                   "[{'electronic': (0, {'units': 'deg'}), 'mechanic': (0, {'units': 'deg'})}, {'electronic': (0, {'units': "
                                                   "'deg'}), 'mechanic': (0, {'units': 'deg'})}, {'electronic': (0, {'units': 'deg'}), 'mechanic': (0, "
                                                   "{'units': 'deg'})}, {'electronic': (0, {'units': 'deg'}), 'mechanic': (0, {'units': 'deg'})}, "
                                                   "{'electronic': (0, {'units': 'deg'}), 'mechanic': (0, {'units': 'deg'})}]"),
                                                  ('dict', []))),
                                                ('slant_range_to_first_data_sample',
                                                 ('Variable', ['rows'], ('list', '[0, 0, 0, 0, 0]'), ('dict', [(('str', "'units'"), ('str', "'m'"))]))),
                                                ('data_record_window_position',
                                                 ('Variable', ['rows'], ('list', '[0, 0, 0, 0, 0]'), ('dict', [(('str', "'units'"), ('str', "'ns'"))]))),
                                                ('platform_latitude',
                                                 ('Variable', ['rows'], ('list', '[35.0, 35.000001, 35.000001999999995, 35.000003, 35.000004]'),
                                                  ('dict', [(('str', "'units'"), ('str', "'deg'"))]))),
                                                ('platform_longitude',
                                                 ('Variable', ['rows'], ('list', '[139.0, 139.000001, 139.000002, 139.000003, 139.000004]'),
                                                  ('dict', [(('str', "'units'"), ('str', "'deg'"))]))),
                                                ('platform_altitude',
                                                 ('Variable', ['rows'], ('list', '[0, 0, 0, 0, 0]'), ('dict', [(('str', "'units'"), ('str', "'deg'"))]))),
                                                ('platform_ground_speed',
                                                 ('Variable', ['rows'], ('list', '[0, 0, 0, 0, 0]'), ('dict', [(('str', "'units'"), ('str', "'cm/s'"))]))),
                                                ('platform_velocity',
                                                 ('Variable', ['rows'],
                                                  ('list',
                                                   "[{'x': (0, {'units': 'cm/s'}), 'y': (0, {'units': 'cm/s'}), 'z': (0, {'units': 'cm/s'})}, {'x': (0, "
                                                   "{'units': 'cm/s'}), 'y': (0, {'units': 'cm/s'}), 'z': (0, {'units': 'cm/s'})}, {'x': (0, {'units': "
                                                   "'cm/s'}), 'y': (0, {'units': 'cm/s'}), 'z': (0, {'units': 'cm/s'})}, {'x': (0, {'units': 'cm/s'}), 'y': "
                                                   "(0, {'units': 'cm/s'}), 'z': (0, {'units': 'cm/s'})}, {'x': (0, {'units': 'cm/s'}), 'y': (0, {'units': "
                                                   "'cm/s'}), 'z': (0, {'units': 'cm/s'})}]"),
                                                  ('dict', []))),
                                                ('platform_acceleration',
                                                 ('Variable', ['rows'],
                                                  ('list',
                                                   "[{'x': (0, {'units': 'cm/s^2'}), 'y': (0, {'units': 'cm/s^2'}), 'z': (0, {'units': 'cm/s^2'})}, {'x': (0, "
                                                   "{'units': 'cm/s^2'}), 'y': (0, {'units': 'cm/s^2'}), 'z': (0, {'units': 'cm/s^2'})}, {'x': (0, {'units': "
                                                   "'cm/s^2'}), 'y': (0, {'units': 'cm/s^2'}), 'z': (0, {'units': 'cm/s^2'})}, {'x': (0, {'units': 'cm/s^2'}), "
                                                   "'y': (0, {'units': 'cm/s^2'}), 'z': (0, {'units': 'cm/s^2'})}, {'x': (0, {'units': 'cm/s^2'}), 'y': (0, "
                                                   "{'units': 'cm/s^2'}), 'z': (0, {'units': 'cm/s^2'})}]"),
                                                  ('dict', []))),
                                                ('platform_track_angle',
                                                 ('Variable', ['rows'], ('list', '[0.0, 0.0, 0.0, 0.0, 0.0]'),
                                                  ('dict', [(('str', "'units'"), ('str', "'deg'"))]))),
                                                ('platform_true_track_angle',
                                                 ('Variable', ['rows'], ('list', '[0.0, 0.0, 0.0, 0.0, 0.0]'),
                                                  ('dict', [(('str', "'units'"), ('str', "'deg'"))]))),
                                                ('platform_attitude',
                                                 ('Variable', ['rows'],
                                                  ('list',
                                                   "[{'pitch': (0.0, {'units': 'deg'}), 'roll': (0.0, {'units': 'deg'}), 'yaw': (0.0, {'units': 'deg'})}, "
                                                   "{'pitch': (0.0, {'units': 'deg'}), 'roll': (0.0, {'units': 'deg'}), 'yaw': (0.0, {'units': 'deg'})}, "
                                                   "{'pitch': (0.0, {'units': 'deg'}), 'roll': (0.0, {'units': 'deg'}), 'yaw': (0.0, {'units': 'deg'})}, "
                                                   "{'pitch': (0.0, {'units': 'deg'}), 'roll': (0.0, {'units': 'deg'}), 'yaw': (0.0, {'units': 'deg'})}, "
                                                   "{'pitch': (0.0, {'units': 'deg'}), 'roll': (0.0, {'units': 'deg'}), 'yaw': (0.0, {'units': 'deg'})}]"),
                                                  ('dict', []))),
                                                ('latitude_of_first_pixel',
                                                 ('Variable', ['rows'], ('list', '[0.0, 0.0, 0.0, 0.0, 0.0]'),
                                                  ('dict', [(('str', "'units'"), ('str', "'deg'"))]))),
                                                ('latitude_of_center_pixel',
                                                 ('Variable', ['rows'], ('list', '[0.0, 0.0, 0.0, 0.0, 0.0]'),
                                                  ('dict', [(('str', "'units'"), ('str', "'deg'"))]))),
                                                ('latitude_of_last_pixel',
                                                 ('Variable', ['rows'], ('list', '[0.0, 0.0, 0.0, 0.0, 0.0]'),
                                                  ('dict', [(('str', "'units'"), ('str', "'deg'"))]))),
                                                ('longitude_of_first_pixel',
                                                 ('Variable', ['rows'], ('list', '[0.0, 0.0, 0.0, 0.0, 0.0]'),
                                                  ('dict', [(('str', "'units'"), ('str', "'deg'"))]))),
                                                ('longitude_of_center_pixel',
                                                 ('Variable', ['rows'], ('list', '[0.0, 0.0, 0.0, 0.0, 0.0]'),
                                                  ('dict', [(('str', "'units'"), ('str', "'deg'"))]))),
                                                ('longitude_of_last_pixel',
                                                 ('Variable', ['rows'], ('list', '[0.0, 0.0, 0.0, 0.0, 0.0]'),
                                                  ('dict', [(('str', "'units'"), ('str', "'deg'"))]))),
                                                ('burst_number', ('Variable', ['rows'], ('list', '[0, 0, 0, 0, 0]'), ('dict', []))),
                                                ('line_number_in_this_burst', ('Variable', ['rows'], ('list', '[0, 0, 0, 0, 0]'), ('dict', [])))]}),
                           'input-untouched': True},
 'lines/parsed-signal-constant-3': {'result': ('Group',
                                               {'path': '/',
                                                'url': None,
                                                'attrs': [('sar_image_data_record_index', ('int', '1')), ('sensor_parameters_update_flag', ('int', '0')),
                                                          ('sar_channel_id', ('str', "'dual_polarization'")), ('sar_channel_code', ('str', "'L'")),
                                                          ('transmitted_pulse_polarization', ('str', "'horizontal'")),
                                                          ('received_pulse_polarization', ('str', "'vertical'")), ('scan_id', ('int', '3')),
                                                          ('onboard_range_compressed_flag', ('bool', 'True')),
                                                          ('chirp_type_designator', ('str', "'linear_fm_chirp'")),
                                                          ('platform_position_parameters_update_flag', ('str', "'update'"))],
                                                'data': [('rows', ('Variable', ['rows'], ('list', '[1, 2, 3]'), ('dict', []))),
                                                         ('sensor_acquisition_date',
                                                          ('Variable', ['rows'],
                                                           ('ndarray', 'datetime64[ns]', (3,),
                                                            '[1580515200007000000, 1580601601007000000, 1580688002007000000]'),
                                                           ('dict', []))),
                                                         ('prf',
                                                          ('Variable', ['rows'], ('list', '[2000000, 2000001, 2000002]'),
                                                           ('dict', [(('str', "'units'"), ('str', "'mHz'"))]))),
                                                         ('chirp_length',
                                                          ('Variable', ['rows'], ('list', '[27, 27, 27]'), ('dict', [(('str', "'units'"), ('str', "'ns'"))]))),
                                                         ('chirp_constant_coefficient',
                                                          ('Variable', ['rows'], ('list', '[5, 5, 5]'), ('dict', [(('str', "'units'"), ('str', "'Hz'"))]))),
                                                         ('chirp_linear_coefficient',
                                                          ('Variable', ['rows'], ('list', '[6, 6, 6]'), ('dict', [(('str', "'units'"), ('str', "'Hz/µs'"))]))),
                                                         ('chirp_quadratic_coefficient',
                                                          ('Variable', ['rows'], ('list', '[7, 7, 7]'),
                                                           ('dict', [(('str', "'units'"), ('str', "'Hz/µs^2'"))]))),
                                                         ('sensor_acquisition_date_microseconds',
                                                          ('Variable', ['rows'],
                                                           ('ndarray', 'datetime64[ns]', (3,),
                                                            '[1580515200000013000, 1580601601000013000, 1580688002000013000]'),
                                                           ('dict', []))),
                                                         ('receiver_gain',
                                                          ('Variable', ['rows'], ('list', '[40, 41, 42]'), ('dict', [(('str', "'units'"), ('str', "'dB'"))]))),
                                                         ('invalid_line_flag', ('Variable', ['rows'], ('list', '[False, True, False]'), ('dict', []))),
                                                         ('elevation_angle_at_nadir_of_antenna',
                                                          ('Variable', ['rows'],
                                                           ('list',
                                                            "[{'electronic': (0, {'units': 'deg'}), 'mechanic': (0, {'units': 'deg'})}, {'electronic': (0, "
                                                            "{'units': 'deg'}), 'mechanic': (0, {'units': 'deg'})}, {'electronic': (0, {'units': 'deg'}), "
                                                            "'mechanic': (0, {'units': 'deg'})}]"),
                                                           ('dict', []))),
                                                         ('antenna_squint_angle',
                                                          ('Variable', ['rows'],
                                                           ('list',
                                                            "[{'electronic': (0, {'units': 'deg'}), 'mechanic': (0, {'units': 'deg'})}, {'electronic': (0, "
                                                            "{'units': 'deg'}), 'mechanic': (0, {'units': 'deg'})}, {'electronic': (0, {'units': 'deg'}), "
                                                            "'mechanic': (0, {'units': 'deg'})}]"),
                                                           ('dict', []))),
                                                         ('slant_range_to_first_data_sample',
                                                          ('Variable', ['rows'], ('list', '[0, 0, 0]'), ('dict', [(('str', "'units'"), ('str', "'m'"))]))),
                                                         ('data_record_window_position',
                                                          ('Variable', ['rows'], ('list', '[0, 0, 0]'), ('dict', [(('str', "'units'"), ('str', "'ns'"))]))),
                                                         ('platform_latitude',
                                                          ('Variable', ['rows'], ('list', '[35.0, 35.000001, 35.000001999999995]'),
                                                           ('dict', [(('str', "'units'"), ('str', "'deg'"))]))),
                                                         ('platform_longitude',
                                                          ('Variable', ['rows'], ('list', '[139.0, 139.000001, 139.000002]'),
                                                           ('dict', [(('str', "'units'"), ('str', "'deg'"))]))),
                                                         ('platform_altitude',
                                                          ('Variable', ['rows'], ('list', '[0, 0, 0]'), ('dict', [(('str', "'units'"), ('str', "'deg'"))]))),
                                                         ('platform_ground_speed',
                                                          ('Variable', ['rows'], ('list', '[0, 0, 0]'), ('dict', [(('str', "'units'"), ('str', "'cm/s'"))]))),
                                                         ('platform_velocity',
                                                          ('Variable', ['rows'],
                                                           ('list',
                                                            "[{'x': (0, {'units': 'cm/s'}), 'y': (0, {'units': 'cm/s'}), 'z': (0, {'units': 'cm/s'})}, {'x': "
                                                            "(0, {'units': 'cm/s'}), 'y': (0, {'units': 'cm/s'}), 'z': (0, {'units': 'cm/s'})}, {'x': (0, "
                                                            "{'units': 'cm/s'}), 'y': (0, {'units': 'cm/s'}), 'z': (0, {'units': 'cm/s'})}]"),
                                                           ('dict', []))),
                                                         ('platform_acceleration',
                                                          ('Variable', ['rows'],
                                                           ('list',
                                                            "[{'x': (0, {'units': 'cm/s^2'}), 'y': (0, {'units': 'cm/s^2'}), 'z': (0, {'units': 'cm/s^2'})}, "
                                                            "{'x': (0, {'units': 'cm/s^2'}), 'y': (0, {'units': 'cm/s^2'}), 'z': (0, {'units': 'cm/s^2'})}, "
                                                            "{'x': (0, {'units': 'cm/s^2'}), 'y': (0, {'units': 'cm/s^2'}), 'z': (0, {'units': 'cm/s^2'})}]"),
                                                           ('dict', []))),
                                                         ('platform_track_angle',
                                                          ('Variable', ['rows'], ('list', '[0.0, 0.0, 0.0]'),
                                                           ('dict', [(('str', "'units'"), ('str', "'deg'"))]))),
                                                         ('platform_true_track_angle',
                                                          ('Variable', ['rows'], ('list', '[0.0, 0.0, 0.0]'),
                                                           ('dict', [(('str', "'units'"), ('str', "'deg'"))]))),
                                                         ('platform_attitude',
                                                          ('Variable', ['rows'],
                                                           ('list',
                                                            "[{'pitch': (0.0, {'units': 'deg'}), 'roll': (0.0, {'units': 'deg'}), 'yaw': (0.0, {'units': "
                                                            "'deg'})}, {'pitch': (0.0, {'units': 'deg'}), 'roll': (0.0, {'units': 'deg'}), 'yaw': (0.0, "
                                                            "{'units': 'deg'})}, {'pitch': (0.0, {'units': 'deg'}), 'roll': (0.0, {'units': 'deg'}), 'yaw': "
                                                            "(0.0, {'units': 'deg'})}]"),
                                                           ('dict', []))),
                                                         ('latitude_of_first_pixel',
                                                          ('Variable', ['rows'], ('list', '[0.0, 0.0, 0.0]'),
                                                           ('dict', [(('str', "'units'"), ('str', "'deg'"))]))),
                                                         ('latitude_of_center_pixel',
                                                          ('Variable', ['rows'], ('list', '[0.0, 0.0, 0.0]'),
                                                           ('dict', [(('str', "'units'"), ('str', "'deg'"))]))),
                                                         ('latitude_of_last_pixel',
                                                          ('Variable', ['rows'], ('list', '[0.0, 0.0, 0.0]'),
                                                           ('dict', [(('str', "'units'"), ('str', "'deg'"))]))),
                                                         ('longitude_of_first_pixel',
                                                          ('Variable', ['rows'], ('list', '[0.0, 0.0, 0.0]'),
                                                           ('dict', [(('str', "'units'"), ('str', "'deg'"))]))),
                                                         ('longitude_of_center_pixel',
                                                          ('Variable', ['rows'], ('list', '[0.0, 0.0, 0.0]'),
                                                           ('dict', [(('str', "'units'"), ('str', "'deg'"))]))),
                                                         ('longitude_of_last_pixel',
                                                          ('Variable', ['rows'], ('list', '[0.0, 0.0, 0.0]'),
                                                           ('dict', [(('str', "'units'"), ('str', "'deg'"))]))),
                                                         ('burst_number', ('Variable', ['rows'], ('list', '[0, 0, 0]'), ('dict', []))),
                                                         ('line_number_in_this_burst', ('Variable', ['rows'], ('list', '[0, 0, 0]'), ('dict', [])))]}),
                                    'input-untouched': True},
 'lines/parsed-processed-1': {'result': ('Group',
                                         {'path': '/',
                                          'url': None,
                                          'attrs': [('sar_image_data_record_index', ('int', '1')), ('sensor_parameters_update_flag', ('int', '0')),
                                                    ('sar_channel_id', ('str', "'dual_polarization'")), ('sar_channel_code', ('str', "'L'")),
                                                    ('transmitted_pulse_polarization', ('str', "'horizontal'")),
                                                    ('received_pulse_polarization', ('str', "'vertical'")), ('scan_id', ('int', '3')),
                                                    ('geographic_reference_parameter_update_flag', ('int', '0'))],
                                          'data': [('rows', ('Variable', ['rows'], ('list', '[1]'), ('dict', []))),
                                                   ('sensor_acquisition_date',
                                                    ('Variable', ['rows'], ('ndarray', 'datetime64[ns]', (1,), '[1580515200007000000]'), ('dict', []))),
                                                   ('prf', ('Variable', ['rows'], ('list', '[2000000]'), ('dict', [(('str', "'units'"), ('str', "'mHz'"))]))),
                                                   ('slant_range_to_first_pixel',
                                                    ('Variable', ['rows'], ('list', '[800000]'), ('dict', [(('str', "'units'"), ('str', "'m'"))]))),
                                                   ('slant_range_to_mid_pixel',
                                                    ('Variable', ['rows'], ('list', '[850000]'), ('dict', [(('str', "'units'"), ('str', "'m'"))]))),
                                                   ('slant_range_to_last_pixel',
                                                    ('Variable', ['rows'], ('list', '[900000]'), ('dict', [(('str', "'units'"), ('str', "'m'"))]))),
                                                   ('doppler_centroid_value_at_first_pixel',
                                                    ('Variable', ['rows'], ('list', '[0.0]'), ('dict', [(('str', "'units'"), ('str', "'Hz'"))]))),
                                                   ('doppler_centroid_value_at_mid_pixel',
                                                    ('Variable', ['rows'], ('list', '[0.0]'), ('dict', [(('str', "'units'"), ('str', "'Hz'"))]))),
                                                   ('doppler_centroid_value_at_last_pixel',
                                                    ('Variable', ['rows'], ('list', '[0.0]'), ('dict', [(('str', "'units'"), ('str', "'Hz'"))]))),
                                                   ('azimuth_fm_rate_of_first_pixel',
                                                    ('Variable', ['rows'], ('list', '[0]'), ('dict', [(('str', "'units'"), ('str', "'Hz/ms'"))]))),
                                                   ('azimuth_fm_rate_of_mid_pixel',
                                                    ('Variable', ['rows'], ('list', '[0]'), ('dict', [(('str', "'units'"), ('str', "'Hz/ms'"))]))),
                                                   ('azimuth_fm_rate_of_last_pixel',
                                                    ('Variable', ['rows'], ('list', '[0]'), ('dict', [(('str', "'units'"), ('str', "'Hz/ms'"))]))),
                                                   ('look_angle_of_nadir',
                                                    ('Variable', ['rows'], ('list', '[0.0]'), ('dict', [(('str', "'units'"), ('str', "'deg'"))]))),
                                                   ('azimuth_squint_angle',
                                                    ('Variable', ['rows'], ('list', '[0.0]'), ('dict', [(('str', "'units'"), ('str', "'deg'"))]))),
                                                   ('latitude_of_first_pixel',
                                                    ('Variable', ['rows'], ('list', '[35.0]'), ('dict', [(('str', "'units'"), ('str', "'deg'"))]))),
                                                   ('latitude_of_center_pixel',
                                                    ('Variable', ['rows'], ('list', '[35.5]'), ('dict', [(('str', "'units'"), ('str', "'deg'"))]))),
                                                   ('latitude_of_last_pixel',
                                                    ('Variable', ['rows'], ('list', '[0.0]'), ('dict', [(('str', "'units'"), ('str', "'deg'"))]))),
                                                   ('longitude_of_first_pixel',
                                                    ('Variable', ['rows'], ('list', '[0.0]'), ('dict', [(('str', "'units'"), ('str', "'deg'"))]))),
                                                   ('longitude_of_center_pixel',
                                                    ('Variable', ['rows'], ('list', '[0.0]'), ('dict', [(('str', "'units'"), ('str', "'deg'"))]))),
                                                   ('longitude_of_last_pixel',
                                                    ('Variable', ['rows'], ('list', '[0.0]'), ('dict', [(('str', "'units'"), ('str', "'deg'"))]))),
                                                   ('northing_of_first_pixel',
                                                    ('Variable', ['rows'], ('list', '[0]'), ('dict', [(('str', "'units'"), ('str', "'m'"))]))),
                                                   ('northing_of_last_pixel',
                                                    ('Variable', ['rows'], ('list', '[0]'), ('dict', [(('str', "'units'"), ('str', "'m'"))]))),
                                                   ('easting_of_first_pixel',
                                                    ('Variable', ['rows'], ('list', '[0]'), ('dict', [(('str', "'units'"), ('str', "'m'"))]))),
                                                   ('easting_of_last_pixel',
                                                    ('Variable', ['rows'], ('list', '[0]'), ('dict', [(('str', "'units'"), ('str', "'m'"))]))),
                                                   ('line_heading',
                                                    ('Variable', ['rows'], ('list', '[0.0]'), ('dict', [(('str', "'units'"), ('str', "'deg'"))])))]}),
                              'input-untouched': True},
 'lines/parsed-processed-2': {'result': ('Group',
                                         {'path': '/',
                                          'url': None,
                                          'attrs': [('sar_image_data_record_index', ('int', '1')), ('sensor_parameters_update_flag', ('int', '0')),
                                                    ('sar_channel_id', ('str', "'dual_polarization'")), ('sar_channel_code', ('str', "'L'")),
                                                    ('transmitted_pulse_polarization', ('str', "'horizontal'")),
                                                    ('received_pulse_polarization', ('str', "'vertical'")), ('scan_id', ('int', '3')),
                                                    ('geographic_reference_parameter_update_flag', ('int', '0'))],
                                          'data': [('rows', ('Variable', ['rows'], ('list', '[1, 2]'), ('dict', []))),
                                                   ('sensor_acquisition_date',
                                                    ('Variable', ['rows'], ('ndarray', 'datetime64[ns]', (2,), '[1580515200007000000, 1580601601007000000]'),
                                                     ('dict', []))),
                                                   ('prf',
                                                    ('Variable', ['rows'], ('list', '[2000000, 2000001]'), ('dict', [(('str', "'units'"), ('str', "'mHz'"))]))),
                                                   ('slant_range_to_first_pixel',
                                                    ('Variable', ['rows'], ('list', '[800000, 800000]'), ('dict', [(('str', "'units'"), ('str', "'m'"))]))),
                                                   ('slant_range_to_mid_pixel',
                                                    ('Variable', ['rows'], ('list', '[850000, 850001]'), ('dict', [(('str', "'units'"), ('str', "'m'"))]))),
                                                   ('slant_range_to_last_pixel',
                                                    ('Variable', ['rows'], ('list', '[900000, 900000]'), ('dict', [(('str', "'units'"), ('str', "'m'"))]))),
                                                   ('doppler_centroid_value_at_first_pixel',
                                                    ('Variable', ['rows'], ('list', '[0.0, 0.0]'), ('dict', [(('str', "'units'"), ('str', "'Hz'"))]))),
                                                   ('doppler_centroid_value_at_mid_pixel',
                                                    ('Variable', ['rows'], ('list', '[0.0, 0.0]'), ('dict', [(('str', "'units'"), ('str', "'Hz'"))]))),
                                                   ('doppler_centroid_value_at_last_pixel',
                                                    ('Variable', ['rows'], ('list', '[0.0, 0.0]'), ('dict', [(('str', "'units'"), ('str', "'Hz'"))]))),
                                                   ('azimuth_fm_rate_of_first_pixel',
                                                    ('Variable', ['rows'], ('list', '[0, 0]'), ('dict', [(('str', "'units'"), ('str', "'Hz/ms'"))]))),
                                                   ('azimuth_fm_rate_of_mid_pixel',
                                                    ('Variable', ['rows'], ('list', '[0, 0]'), ('dict', [(('str', "'units'"), ('str', "'Hz/ms'"))]))),
                                                   ('azimuth_fm_rate_of_last_pixel',
                                                    ('Variable', ['rows'], ('list', '[0, 0]'), ('dict', [(('str', "'units'"), ('str', "'Hz/ms'"))]))),
                                                   ('look_angle_of_nadir',
                                                    ('Variable', ['rows'], ('list', '[0.0, 0.0]'), ('dict', [(('str', "'units'"), ('str', "'deg'"))]))),
                                                   ('azimuth_squint_angle',
                                                    ('Variable', ['rows'], ('list', '[0.0, 0.0]'), ('dict', [(('str', "'units'"), ('str', "'deg'"))]))),
                                                   ('latitude_of_first_pixel',
                                                    ('Variable', ['rows'], ('list', '[35.0, 35.000001]'), ('dict', [(('str', "'units'"), ('str', "'deg'"))]))),
                                                   ('latitude_of_center_pixel',
                                                    ('Variable', ['rows'], ('list', '[35.5, 35.500001]'), ('dict', [(('str', "'units'"), ('str', "'deg'"))]))),
                                                   ('latitude_of_last_pixel',
                                                    ('Variable', ['rows'], ('list', '[0.0, 0.0]'), ('dict', [(('str', "'units'"), ('str', "'deg'"))]))),
                                                   ('longitude_of_first_pixel',
                                                    ('Variable', ['rows'], ('list', '[0.0, 0.0]'), ('dict', [(('str', "'units'"), ('str', "'deg'"))]))),
                                                   ('longitude_of_center_pixel',
                                                    ('Variable', ['rows'], ('list', '[0.0, 0.0]'), ('dict', [(('str', "'units'"), ('str', "'deg'"))]))),
                                                   ('longitude_of_last_pixel',
                                                    ('Variable', ['rows'], ('list', '[0.0, 0.0]'), ('dict', [(('str', "'units'"), ('str', "'deg'"))]))),
                                                   ('northing_of_first_pixel',
                                                    ('Variable', ['rows'], ('list', '[0, 0]'), ('dict', [(('str', "'units'"), ('str', "'m'"))]))),
                                                   ('northing_of_last_pixel',
                                                    ('Variable', ['rows'], ('list', '[0, 0]'), ('dict', [(('str', "'units'"), ('str', "'m'"))]))),
                                                   ('easting_of_first_pixel',
                                                    ('Variable', ['rows'], ('list', '[0, 0]'), ('dict', [(('str', "'units'"), ('str', "'m'"))]))),
                                                   ('easting_of_last_pixel',
                                                    ('Variable', ['rows'], ('list', '[0, 0]'), ('dict', [(('str', "'units'"), ('str', "'m'"))]))),
                                                   ('line_heading',
                                                    ('Variable', ['rows'], ('list', '[0.0, 0.0]'), ('dict', [(('str', "'units'"), ('str', "'deg'"))])))]}),
                              'input-untouched': True},
 'lines/parsed-processed-3': {'result': ('Group',
                                         {'path': '/',
                                          'url': None,
                                          'attrs': [('sar_image_data_record_index', ('int', '1')), ('sensor_parameters_update_flag', ('int', '0')),
                                                    ('sar_channel_id', ('str', "'dual_polarization'")), ('sar_channel_code', ('str', "'L'")),
                                                    ('transmitted_pulse_polarization', ('str', "'horizontal'")),
                                                    ('received_pulse_polarization', ('str', "'vertical'")), ('scan_id', ('int', '3')),
                                                    ('geographic_reference_parameter_update_flag', ('int', '0'))],
                                          'data': [('rows', ('Variable', ['rows'], ('list', '[1, 2, 3]'), ('dict', []))),
                                                   ('sensor_acquisition_date',
                                                    ('Variable', ['rows'],
                                                     ('ndarray', 'datetime64[ns]', (3,), '[1580515200007000000, 1580601601007000000, 1580688002007000000]'),
                                                     ('dict', []))),
                                                   ('prf',
                                                    ('Variable', ['rows'], ('list', '[2000000, 2000001, 2000002]'),
                                                     ('dict', [(('str', "'units'"), ('str', "'mHz'"))]))),
                                                   ('slant_range_to_first_pixel',
                                                    ('Variable', ['rows'], ('list', '[800000, 800000, 800000]'),
                                                     ('dict', [(('str', "'units'"), ('str', "'m'"))]))),
                                                   ('slant_range_to_mid_pixel',
                                                    ('Variable', ['rows'], ('list', '[850000, 850001, 850002]'),
                                                     ('dict', [(('str', "'units'"), ('str', "'m'"))]))),
                                                   ('slant_range_to_last_pixel',
                                                    ('Variable', ['rows'], ('list', '[900000, 900000, 900000]'),
                                                     ('dict', [(('str', "'units'"), ('str', "'m'"))]))),
                                                   ('doppler_centroid_value_at_first_pixel',
                                                    ('Variable', ['rows'], ('list', '[0.0, 0.0, 0.0]'), ('dict', [(('str', "'units'"), ('str', "'Hz'"))]))),
                                                   ('doppler_centroid_value_at_mid_pixel',
                                                    ('Variable', ['rows'], ('list', '[0.0, 0.0, 0.0]'), ('dict', [(('str', "'units'"), ('str', "'Hz'"))]))),
                                                   ('doppler_centroid_value_at_last_pixel',
                                                    ('Variable', ['rows'], ('list', '[0.0, 0.0, 0.0]'), ('dict', [(('str', "'units'"), ('str', "'Hz'"))]))),
                                                   ('azimuth_fm_rate_of_first_pixel',
                                                    ('Variable', ['rows'], ('list', '[0, 0, 0]'), ('dict', [(('str', "'units'"), ('str', "'Hz/ms'"))]))),
                                                   ('azimuth_fm_rate_of_mid_pixel',
                                                    ('Variable', ['rows'], ('list', '[0, 0, 0]'), ('dict', [(('str', "'units'"), ('str', "'Hz/ms'"))]))),
                                                   ('azimuth_fm_rate_of_last_pixel',
                                                    ('Variable', ['rows'], ('list', '[0, 0, 0]'), ('dict', [(('str', "'units'"), ('str', "'Hz/ms'"))]))),
                                                   ('look_angle_of_nadir',
                                                    ('Variable', ['rows'], ('list', '[0.0, 0.0, 0.0]'), ('dict', [(('str', "'units'"), ('str', "'deg'"))]))),
                                                   ('azimuth_squint_angle',
                                                    ('Variable', ['rows'], ('list', '[0.0, 0.0, 0.0]'), ('dict', [(('str', "'units'"), ('str', "'deg'"))]))),
                                                   ('latitude_of_first_pixel',
                                                    ('Variable', ['rows'], ('list', '[35.0, 35.000001, 35.000001999999995]'),
                                                     ('dict', [(('str', "'units'"), ('str', "'deg'"))]))),
                                                   ('latitude_of_center_pixel',
                                                    ('Variable', ['rows'], ('list', '[35.5, 35.500001, 35.500001999999995]'),
                                                     ('dict', [(('str', "'units'"), ('str', "'deg'"))]))),
                                                   ('latitude_of_last_pixel',
                                                    ('Variable', ['rows'], ('list', '[0.0, 0.0, 0.0]'), ('dict', [(('str', "'units'"), ('str', "'deg'"))]))),
                                                   ('longitude_of_first_pixel',
                                                    ('Variable', ['rows'], ('list', '[0.0, 0.0, 0.0]'), ('dict', [(('str', "'units'"), ('str', "'deg'"))]))),
                                                   ('longitude_of_center_pixel',
                                                    ('Variable', ['rows'], ('list', '[0.0, 0.0, 0.0]'), ('dict', [(('str', "'units'"), ('str', "'deg'"))]))),
                                                   ('longitude_of_last_pixel',
                                                    ('Variable', ['rows'], ('list', '[0.0, 0.0, 0.0]'), ('dict', [(('str', "'units'"), ('str', "'deg'"))]))),
                                                   ('northing_of_first_pixel',
                                                    ('Variable', ['rows'], ('list', '[0, 0, 0]'), ('dict', [(('str', "'units'"), ('str', "'m'"))]))),
                                                   ('northing_of_last_pixel',
                                                    ('Variable', ['rows'], ('list', '[0, 0, 0]'), ('dict', [(('str', "'units'"), ('str', "'m'"))]))),
                                                   ('easting_of_first_pixel',
                                                    ('Variable', ['rows'], ('list', '[0, 0, 0]'), ('dict', [(('str', "'units'"), ('str', "'m'"))]))),
                                                   ('easting_of_last_pixel',
                                                    ('Variable', ['rows'], ('list', '[0, 0, 0]'), ('dict', [(('str', "'units'"), ('str', "'m'"))]))),
                                                   ('line_heading',
                                                    ('Variable', ['rows'], ('list', '[0.0, 0.0, 0.0]'), ('dict', [(('str', "'units'"), ('str', "'deg'"))])))]}),
                              'input-untouched': True},
 'lines/parsed-processed-5': {'result': ('Group',
                                         {'path': '/',
                                          'url': None,
                                          'attrs': [('sar_image_data_record_index', ('int', '1')), ('sensor_parameters_update_flag', ('int', '0')),
                                                    ('sar_channel_id', ('str', "'dual_polarization'")), ('sar_channel_code', ('str', "'L'")),
                                                    ('transmitted_pulse_polarization', ('str', "'horizontal'")),
                                                    ('received_pulse_polarization', ('str', "'vertical'")), ('scan_id', ('int', '3')),
                                                    ('geographic_reference_parameter_update_flag', ('int', '0'))],
                                          'data': [('rows', ('Variable', ['rows'], ('list', '[1, 2, 3, 4, 5]'), ('dict', []))),
                                                   ('sensor_acquisition_date',
                                                    ('Variable', ['rows'],
                                                     ('ndarray', 'datetime64[ns]', (5,),
                                                      '[1580515200007000000, 1580601601007000000, 1580688002007000000, 1580774403007000000, '
                                                      '1580860804007000000]'),
                                                     ('dict', []))),
                                                   ('prf',
                                                    ('Variable', ['rows'], ('list', '[2000000, 2000001, 2000002, 2000003, 2000004]'),
                                                     ('dict', [(('str', "'units'"), ('str', "'mHz'"))]))),
                                                   ('slant_range_to_first_pixel',
                                                    ('Variable', ['rows'], ('list', '[800000, 800000, 800000, 800000, 800000]'),
                                                     ('dict', [(('str', "'units'"), ('str', "'m'"))]))),
                                                   ('slant_range_to_mid_pixel',
                                                    ('Variable', ['rows'], ('list', '[850000, 850001, 850002, 850003, 850004]'),
                                                     ('dict', [(('str', "'units'"), ('str', "'m'"))]))),
                                                   ('slant_range_to_last_pixel',
                                                    ('Variable', ['rows'], ('list', '[900000, 900000, 900000, 900000, 900000]'),
                                                     ('dict', [(('str', "'units'"), ('str', "'m'"))]))),
                                                   ('doppler_centroid_value_at_first_pixel',
                                                    ('Variable', ['rows'], ('list', '[0.0, 0.0, 0.0, 0.0, 0.0]'),
                                                     ('dict', [(('str', "'units'"), ('str', "'Hz'"))]))),
                                                   ('doppler_centroid_value_at_mid_pixel',
                                                    ('Variable', ['rows'], ('list', '[0.0, 0.0, 0.0, 0.0, 0.0]'),
                                                     ('dict', [(('str', "'units'"), ('str', "'Hz'"))]))),
                                                   ('doppler_centroid_value_at_last_pixel',
                                                    ('Variable', ['rows'], ('list', '[0.0, 0.0, 0.0, 0.0, 0.0]'),
                                                     ('dict', [(('str', "'units'"), ('str', "'Hz'"))]))),
                                                   ('azimuth_fm_rate_of_first_pixel',
                                                    ('Variable', ['rows'], ('list', '[0, 0, 0, 0, 0]'), ('dict', [(('str', "'units'"), ('str', "'Hz/ms'"))]))),
                                                   ('azimuth_fm_rate_of_mid_pixel',
                                                    ('Variable', ['rows'], ('list', '[0, 0, 0, 0, 0]'), ('dict', [(('str', "'units'"), ('str', "'Hz/ms'"))]))),
                                                   ('azimuth_fm_rate_of_last_pixel',
                                                    ('Variable', ['rows'], ('list', '[0, 0, 0, 0, 0]'), ('dict', [(('str', "'units'"), ('str', "'Hz/ms'"))]))),
                                                   ('look_angle_of_nadir',
                                                    ('Variable', ['rows'], ('list', '[0.0, 0.0, 0.0, 0.0, 0.0]'),
                                                     ('dict', [(('str', "'units'"), ('str', "'deg'"))]))),
                                                   ('azimuth_squint_angle',
                                                    ('Variable', ['rows'], ('list', '[0.0, 0.0, 0.0, 0.0, 0.0]'),
                                                     ('dict', [(('str', "'units'"), ('str', "'deg'"))]))),
                                                   ('latitude_of_first_pixel',
                                                    ('Variable', ['rows'], ('list', '[35.0, 35.000001, 35.000001999999995, 35.000003, 35.000004]'),
                                                     ('dict', [(('str', "'units'"), ('str', "'deg'"))]))),
                                                   ('latitude_of_center_pixel',
                                                    ('Variable', ['rows'], ('list', '[35.5, 35.500001, 35.500001999999995, 35.500003, 35.500004]'),
                                                     ('dict', [(('str', "'units'"), ('str', "'deg'"))]))),
                                                   ('latitude_of_last_pixel',
                                                    ('Variable', ['rows'], ('list', '[0.0, 0.0, 0.0, 0.0, 0.0]'),
                                                     ('dict', [(('str', "'units'"), ('str', "'deg'"))]))),
                                                   ('longitude_of_first_pixel',
                                                    ('Variable', ['rows'], ('list', '[0.0, 0.0, 0.0, 0.0, 0.0]'),
                                                     ('dict', [(('str', "'units'"), ('str', "'deg'"))]))),
                                                   ('longitude_of_center_pixel',
                                                    ('Variable', ['rows'], ('list', '[0.0, 0.0, 0.0, 0.0, 0.0]'),
                                                     ('dict', [(('str', "'units'"), ('str', "'deg'"))]))),
                                                   ('longitude_of_last_pixel',
                                                    ('Variable', ['rows'], ('list', '[0.0, 0.0, 0.0, 0.0, 0.0]'),
                                                     ('dict', [(('str', "'units'"), ('str', "'deg'"))]))),
                                                   ('northing_of_first_pixel',
                                                    ('Variable', ['rows'], ('list', '[0, 0, 0, 0, 0]'), ('dict', [(('str', "'units'"), ('str', "'m'"))]))),
                                                   ('northing_of_last_pixel',
                                                    ('Variable', ['rows'], ('list', '[0, 0, 0, 0, 0]'), ('dict', [(('str', "'units'"), ('str', "'m'"))]))),
                                                   ('easting_of_first_pixel',
                                                    ('Variable', ['rows'], ('list', '[0, 0, 0, 0, 0]'), ('dict', [(('str', "'units'"), ('str', "'m'"))]))),
                                                   ('easting_of_last_pixel',
                                                    ('Variable', ['rows'], ('list', '[0, 0, 0, 0, 0]'), ('dict', [(('str', "'units'"), ('str', "'m'"))]))),
                                                   ('line_heading',
                                                    ('Variable', ['rows'], ('list', '[0.0, 0.0, 0.0, 0.0, 0.0]'),
                                                     ('dict', [(('str', "'units'"), ('str', "'deg'"))])))]}),
                              'input-untouched': True},
 'lines/parsed-processed-constant-3': {'result': ('Group',
                                                  {'path': '/',
                                                   'url': None,
                                                   'attrs': [('sar_image_data_record_index', ('int', '1')), ('sensor_parameters_update_flag', ('int', '0')),
                                                             ('sar_channel_id', ('str', "'dual_polarization'")), ('sar_channel_code', ('str', "'L'")),
                                                             ('transmitted_pulse_polarization', ('str', "'horizontal'")),
                                                             ('received_pulse_polarization', ('str', "'vertical'")), ('scan_id', ('int', '3')),
                                                             ('geographic_reference_parameter_update_flag', ('int', '0'))],
                                                   'data': [('rows', ('Variable', ['rows'], ('list', '[1, 2, 3]'), ('dict', []))),
                                                            ('sensor_acquisition_date',
                                                             ('Variable', ['rows'],
                                                              ('ndarray', 'datetime64[ns]', (3,),
                                                               '[1580515200007000000, 1580601601007000000, 1580688002007000000]'),
                                                              ('dict', []))),
                                                            ('prf',
                                                             ('Variable', ['rows'], ('list', '[2000000, 2000001, 2000002]'),
                                                              ('dict', [(('str', "'units'"), ('str', "'mHz'"))]))),
                                                            ('slant_range_to_first_pixel',
                                                             ('Variable', ['rows'], ('list', '[800000, 800000, 800000]'),
                                                              ('dict', [(('str', "'units'"), ('str', "'m'"))]))),
                                                            ('slant_range_to_mid_pixel',
                                                             ('Variable', ['rows'], ('list', '[850000, 850001, 850002]'),
                                                              ('dict', [(('str', "'units'"), ('str', "'m'"))]))),
                                                            ('slant_range_to_last_pixel',
                                                             ('Variable', ['rows'], ('list', '[900000, 900000, 900000]'),
                                                              ('dict', [(('str', "'units'"), ('str', "'m'"))]))),
                                                            ('doppler_centroid_value_at_first_pixel',
                                                             ('Variable', ['rows'], ('list', '[0.0, 0.0, 0.0]'),
                                                              ('dict', [(('str', "'units'"), ('str', "'Hz'"))]))),
                                                            ('doppler_centroid_value_at_mid_pixel',
                                                             ('Variable', ['rows'], ('list', '[0.0, 0.0, 0.0]'),
                                                              ('dict', [(('str', "'units'"), ('str', "'Hz'"))]))),
                                                            ('doppler_centroid_value_at_last_pixel',
                                                             ('Variable', ['rows'], ('list', '[0.0, 0.0, 0.0]'),
                                                              ('dict', [(('str', "'units'"), ('str', "'Hz'"))]))),
                                                            ('azimuth_fm_rate_of_first_pixel',
                                                             ('Variable', ['rows'], ('list', '[0, 0, 0]'),
                                                              ('dict', [(('str', "'units'"), ('str', "'Hz/ms'"))]))),
                                                            ('azimuth_fm_rate_of_mid_pixel',
                                                             ('Variable', ['rows'], ('list', '[0, 0, 0]'),
                                                              ('dict', [(('str', "'units'"), ('str', "'Hz/ms'"))]))),
                                                            ('azimuth_fm_rate_of_last_pixel',
                                                             ('Variable', ['rows'], ('list', '[0, 0, 0]'),
                                                              ('dict', [(('str', "'units'"), ('str', "'Hz/ms'"))]))),
                                                            ('look_angle_of_nadir',
                                                             ('Variable', ['rows'], ('list', '[0.0, 0.0, 0.0]'),
                                                              ('dict', [(('str', "'units'"), ('str', "'deg'"))]))),
                                                            ('azimuth_squint_angle',
                                                             ('Variable', ['rows'], ('list', '[0.0, 0.0, 0.0]'),
                                                              ('dict', [(('str', "'units'"), ('str', "'deg'"))]))),
                                                            ('latitude_of_first_pixel',
                                                             ('Variable', ['rows'], ('list', '[35.0, 35.000001, 35.000001999999995]'),
                                                              ('dict', [(('str', "'units'"), ('str', "'deg'"))]))),
                                                            ('latitude_of_center_pixel',
                                                             ('Variable', ['rows'], ('list', '[35.5, 35.500001, 35.500001999999995]'),
                                                              ('dict', [(('str', "'units'"), ('str', "'deg'"))]))),
                                                            ('latitude_of_last_pixel',
                                                             ('Variable', ['rows'], ('list', '[0.0, 0.0, 0.0]'),
                                                              ('dict', [(('str', "'units'"), ('str', "'deg'"))]))),
                                                            ('longitude_of_first_pixel',
                                                             ('Variable', ['rows'], ('list', '[0.0, 0.0, 0.0]'),
                                                              ('dict', [(('str', "'units'"), ('str', "'deg'"))]))),
                                                            ('longitude_of_center_pixel',
                                                             ('Variable', ['rows'], ('list', '[0.0, 0.0, 0.0]'),
                                                              ('dict', [(('str', "'units'"), ('str', "'deg'"))]))),
                                                            ('longitude_of_last_pixel',
                                                             ('Variable', ['rows'], ('list', '[0.0, 0.0, 0.0]'),
                                                              ('dict', [(('str', "'units'"), ('str', "'deg'"))]))),
                                                            ('northing_of_first_pixel',
                                                             ('Variable', ['rows'], ('list', '[0, 0, 0]'), ('dict', [(('str', "'units'"), ('str', "'m'"))]))),
                                                            ('northing_of_last_pixel',
                                                             ('Variable', ['rows'], ('list', '[0, 0, 0]'), ('dict', [(('str', "'units'"), ('str', "'m'"))]))),
                                                            ('easting_of_first_pixel',
                                                             ('Variable', ['rows'], ('list', '[0, 0, 0]'), ('dict', [(('str', "'units'"), ('str', "'m'"))]))),
                                                            ('easting_of_last_pixel',
                                                             ('Variable', ['rows'], ('list', '[0, 0, 0]'), ('dict', [(('str', "'units'"), ('str', "'m'"))]))),
                                                            ('line_heading',
                                                             ('Variable', ['rows'], ('list', '[0.0, 0.0, 0.0]'),
                                                              ('dict', [(('str', "'units'"), ('str', "'deg'"))])))]}),
                                       'input-untouched': True},
 'lines/parsed-mixed-kinds': {'result': ('Group',
                                         {'path': '/',
                                          'url': None,
                                          'attrs': [('sar_image_data_record_index', ('int', '1')), ('sensor_parameters_update_flag', ('int', '0')),
                                                    ('sar_channel_id', ('str', "'dual_polarization'")), ('sar_channel_code', ('str', "'L'")),
                                                    ('transmitted_pulse_polarization', ('str', "'horizontal'")),
                                                    ('received_pulse_polarization', ('str', "'vertical'")), ('scan_id', ('int', '3')),
                                                    ('onboard_range_compressed_flag', ('bool', 'True')),
                                                    ('chirp_type_designator', ('str', "'linear_fm_chirp'")),
                                                    ('platform_position_parameters_update_flag', ('str', "'update'")),
                                                    ('geographic_reference_parameter_update_flag', ('int', '0'))],
                                          'data': [('rows', ('Variable', ['rows'], ('list', '[1, 2, 1, 2]'), ('dict', []))),
                                                   ('sensor_acquisition_date',
                                                    ('Variable', ['rows'],
                                                     ('ndarray', 'datetime64[ns]', (4,),
                                                      '[1580515200007000000, 1580601601007000000, 1580515200007000000, 1580601601007000000]'),
                                                     ('dict', []))),
                                                   ('prf',
                                                    ('Variable', ['rows'], ('list', '[2000000, 2000001, 2000000, 2000001]'),
                                                     ('dict', [(('str', "'units'"), ('str', "'mHz'"))]))),
                                                   ('chirp_length',
                                                    ('Variable', ['rows'], ('list', '[27, 27]'), ('dict', [(('str', "'units'"), ('str', "'ns'"))]))),
                                                   ('chirp_constant_coefficient',
                                                    ('Variable', ['rows'], ('list', '[5, 5]'), ('dict', [(('str', "'units'"), ('str', "'Hz'"))]))),
                                                   ('chirp_linear_coefficient',
                                                    ('Variable', ['rows'], ('list', '[6, 6]'), ('dict', [(('str', "'units'"), ('str', "'Hz/µs'"))]))),
                                                   ('chirp_quadratic_coefficient',
                                                    ('Variable', ['rows'], ('list', '[7, 7]'), ('dict', [(('str', "'units'"), ('str', "'Hz/µs^2'"))]))),
                                                   ('sensor_acquisition_date_microseconds',
                                                    ('Variable', ['rows'], ('ndarray', 'datetime64[ns]', (2,), '[1580515200000013000, 1580601601000013000]'),
                                                     ('dict', []))),
                                                   ('receiver_gain',
                                                    ('Variable', ['rows'], ('list', '[40, 41]'), ('dict', [(('str', "'units'"), ('str', "'dB'"))]))),
                                                   ('invalid_line_flag', ('Variable', ['rows'], ('list', '[False, True]'), ('dict', []))),
                                                   ('elevation_angle_at_nadir_of_antenna',
                                                    ('Variable', ['rows'],
                                                     ('list',
                                                      "[{'electronic': (0, {'units': 'deg'}), 'mechanic': (0, {'units': 'deg'})}, {'electronic': (0, {'units': "
                                                      "'deg'}), 'mechanic': (0, {'units': 'deg'})}]"),
                                                     ('dict', []))),
                                                   ('antenna_squint_angle',
                                                    ('Variable', ['rows'],
                                                     ('list',
                                                      "[{'electronic': (0, {'units': 'deg'}), 'mechanic': (0, {'units': 'deg'})}, {'electronic': (0, {'units': "
                                                      "'deg'}), 'mechanic': (0, {'units': 'deg'})}]"),
                                                     ('dict', []))),
                                                   ('slant_range_to_first_data_sample',
                                                    ('Variable', ['rows'], ('list', '[0, 0]'), ('dict', [(('str', "'units'"), ('str', "'m'"))]))),
                                                   ('data_record_window_position',
                                                    ('Variable', ['rows'], ('list', '[0, 0]'), ('dict', [(('str', "'units'"), ('str', "'ns'"))]))),
                                                   ('platform_latitude',
                                                    ('Variable', ['rows'], ('list', '[35.0, 35.000001]'), ('dict', [(('str', "'units'"), ('str', "'deg'"))]))),
                                                   ('platform_longitude',
                                                    ('Variable', ['rows'], ('list', '[139.0, 139.000001]'),
                                                     ('dict', [(('str', "'units'"), ('str', "'deg'"))]))),
                                                   ('platform_altitude',
                                                    ('Variable', ['rows'], ('list', '[0, 0]'), ('dict', [(('str', "'units'"), ('str', "'deg'"))]))),
                                                   ('platform_ground_speed',
                                                    ('Variable', ['rows'], ('list', '[0, 0]'), ('dict', [(('str', "'units'"), ('str', "'cm/s'"))]))),
                                                   ('platform_velocity',
                                                    ('Variable', ['rows'],
                                                     ('list',
                                                      "[{'x': (0, {'units': 'cm/s'}), 'y': (0, {'units': 'cm/s'}), 'z': (0, {'units': 'cm/s'})}, {'x': (0, "
                                                      "{'units': 'cm/s'}), 'y': (0, {'units': 'cm/s'}), 'z': (0, {'units': 'cm/s'})}]"),
                                                     ('dict', []))),
                                                   ('platform_acceleration',
                                                    ('Variable', ['rows'],
                                                     ('list',
                                                      "[{'x': (0, {'units': 'cm/s^2'}), 'y': (0, {'units': 'cm/s^2'}), 'z': (0, {'units': 'cm/s^2'})}, {'x': "
                                                      "(0, {'units': 'cm/s^2'}), 'y': (0, {'units': 'cm/s^2'}), 'z': (0, {'units': 'cm/s^2'})}]"),
                                                     ('dict', []))),
                                                   ('platform_track_angle',
                                                    ('Variable', ['rows'], ('list', '[0.0, 0.0]'), ('dict', [(('str', "'units'"), ('str', "'deg'"))]))),
                                                   ('platform_true_track_angle',
                                                    ('Variable', ['rows'], ('list', '[0.0, 0.0]'), ('dict', [(('str', "'units'"), ('str', "'deg'"))]))),
                                                   ('platform_attitude',
                                                    ('Variable', ['rows'],
                                                     ('list',
                                                      "[{'pitch': (0.0, {'units': 'deg'}), 'roll': (0.0, {'units': 'deg'}), 'yaw': (0.0, {'units': 'deg'})}, "
                                                      "{'pitch': (0.0, {'units': 'deg'}), 'roll': (0.0, {'units': 'deg'}), 'yaw': (0.0, {'units': 'deg'})}]"),
                                                     ('dict', []))),
                                                   ('latitude_of_first_pixel',
                                                    ('Variable', ['rows'], ('list', '[0.0, 0.0, 35.0, 35.000001]'),
                                                     ('dict', [(('str', "'units'"), ('str', "'deg'"))]))),
                                                   ('latitude_of_center_pixel',
                                                    ('Variable', ['rows'], ('list', '[0.0, 0.0, 35.5, 35.500001]'),
                                                     ('dict', [(('str', "'units'"), ('str', "'deg'"))]))),
                                                   ('latitude_of_last_pixel',
                                                    ('Variable', ['rows'], ('list', '[0.0, 0.0, 0.0, 0.0]'),
                                                     ('dict', [(('str', "'units'"), ('str', "'deg'"))]))),
                                                   ('longitude_of_first_pixel',
                                                    ('Variable', ['rows'], ('list', '[0.0, 0.0, 0.0, 0.0]'),
                                                     ('dict', [(('str', "'units'"), ('str', "'deg'"))]))),
                                                   ('longitude_of_center_pixel',
                                                    ('Variable', ['rows'], ('list', '[0.0, 0.0, 0.0, 0.0]'),
                                                     ('dict', [(('str', "'units'"), ('str', "'deg'"))]))),
                                                   ('longitude_of_last_pixel',
                                                    ('Variable', ['rows'], ('list', '[0.0, 0.0, 0.0, 0.0]'),
                                                     ('dict', [(('str', "'units'"), ('str', "'deg'"))]))),
                                                   ('burst_number', ('Variable', ['rows'], ('list', '[0, 0]'), ('dict', []))),
                                                   ('line_number_in_this_burst', ('Variable', ['rows'], ('list', '[0, 0]'), ('dict', []))),
                                                   ('slant_range_to_first_pixel',
                                                    ('Variable', ['rows'], ('list', '[800000, 800000]'), ('dict', [(('str', "'units'"), ('str', "'m'"))]))),
                                                   ('slant_range_to_mid_pixel',
                                                    ('Variable', ['rows'], ('list', '[850000, 850001]'), ('dict', [(('str', "'units'"), ('str', "'m'"))]))),
                                                   ('slant_range_to_last_pixel',
                                                    ('Variable', ['rows'], ('list', '[900000, 900000]'), ('dict', [(('str', "'units'"), ('str', "'m'"))]))),
                                                   ('doppler_centroid_value_at_first_pixel',
                                                    ('Variable', ['rows'], ('list', '[0.0, 0.0]'), ('dict', [(('str', "'units'"), ('str', "'Hz'"))]))),
                                                   ('doppler_centroid_value_at_mid_pixel',
                                                    ('Variable', ['rows'], ('list', '[0.0, 0.0]'), ('dict', [(('str', "'units'"), ('str', "'Hz'"))]))),
                                                   ('doppler_centroid_value_at_last_pixel',
                                                    ('Variable', ['rows'], ('list', '[0.0, 0.0]'), ('dict', [(('str', "'units'"), ('str', "'Hz'"))]))),
                                                   ('azimuth_fm_rate_of_first_pixel',
                                                    ('Variable', ['rows'], ('list', '[0, 0]'), ('dict', [(('str', "'units'"), ('str', "'Hz/ms'"))]))),
                                                   ('azimuth_fm_rate_of_mid_pixel',
                                                    ('Variable', ['rows'], ('list', '[0, 0]'), ('dict', [(('str', "'units'"), ('str', "'Hz/ms'"))]))),
                                                   ('azimuth_fm_rate_of_last_pixel',
                                                    ('Variable', ['rows'], ('list', '[0, 0]'), ('dict', [(('str', "'units'"), ('str', "'Hz/ms'"))]))),
                                                   ('look_angle_of_nadir',
                                                    ('Variable', ['rows'], ('list', '[0.0, 0.0]'), ('dict', [(('str', "'units'"), ('str', "'deg'"))]))),
                                                   ('azimuth_squint_angle',
                                                    ('Variable', ['rows'], ('list', '[0.0, 0.0]'), ('dict', [(('str', "'units'"), ('str', "'deg'"))]))),
                                                   ('northing_of_first_pixel',
                                                    ('Variable', ['rows'], ('list', '[0, 0]'), ('dict', [(('str', "'units'"), ('str', "'m'"))]))),
                                                   ('northing_of_last_pixel',
                                                    ('Variable', ['rows'], ('list', '[0, 0]'), ('dict', [(('str', "'units'"), ('str', "'m'"))]))),
                                                   ('easting_of_first_pixel',
                                                    ('Variable', ['rows'], ('list', '[0, 0]'), ('dict', [(('str', "'units'"), ('str', "'m'"))]))),
                                                   ('easting_of_last_pixel',
                                                    ('Variable', ['rows'], ('list', '[0, 0]'), ('dict', [(('str', "'units'"), ('str', "'m'"))]))),
                                                   ('line_heading',
                                                    ('Variable', ['rows'], ('list', '[0.0, 0.0]'), ('dict', [(('str', "'units'"), ('str', "'deg'"))])))]}),
                              'input-untouched': True},
 'lines/empty': {'result': ('Group', {'path': '/', 'url': None, 'attrs': [], 'data': []}), 'input-untouched': True},
 'lines/empty-tuple': {'result': ('Group', {'path': '/', 'url': None, 'attrs': [], 'data': []}), 'input-untouched': True},
 'lines/one-empty-record': {'result': ('Group', {'path': '/', 'url': None, 'attrs': [], 'data': []}), 'input-untouched': True},
 'lines/ignored-only': {'result': ('Group', {'path': '/', 'url': None, 'attrs': [], 'data': []}), 'input-untouched': True},
 'lines/variables-with-units': {'result': ('Group',
                                           {'path': '/',
                                            'url': None,
                                            'attrs': [],
                                            'data': [('a', ('Variable', ['rows'], ('list', '[1, 2]'), ('dict', [(('str', "'units'"), ('str', "'m'"))])))]}),
                                'input-untouched': True},
 'lines/variables-with-differing-units': {'result': ('Group',
                                                     {'path': '/',
                                                      'url': None,
                                                      'attrs': [],
                                                      'data': [('a',
                                                                ('Variable', ['rows'], ('list', '[1, 2]'),
                                                                 ('dict', [(('str', "'units'"), ('str', "'m'"))])))]}),
                                          'input-untouched': True},
 'lines/variables-mixed-units-and-plain': {'error': "TypeError: 'int' object is not iterable", 'input-untouched': True},
 'lines/variables-plain-then-units': {'result': ('Group',
                                                 {'path': '/',
                                                  'url': None,
                                                  'attrs': [],
                                                  'data': [('a', ('Variable', ['rows'], ('list', "[1, (2, {'units': 'm'})]"), ('dict', [])))]}),
                                      'input-untouched': True},
 'lines/plain-variables': {'result': ('Group',
                                      {'path': '/',
                                       'url': None,
                                       'attrs': [],
                                       'data': [('a', ('Variable', ['rows'], ('list', '[1, 2, 3]'), ('dict', []))),
                                                ('b', ('Variable', ['rows'], ('list', "['x', 'y', 'z']"), ('dict', [])))]}),
                           'input-untouched': True},
 'lines/single-record': {'result': ('Group',
                                    {'path': '/',
                                     'url': None,
                                     'attrs': [('scan_id', ('int', '4'))],
                                     'data': [('a', ('Variable', ['rows'], ('list', '[1]'), ('dict', []))),
                                              ('rows', ('Variable', ['rows'], ('list', '[9]'), ('dict', [])))]}),
                         'input-untouched': True},
 'lines/tuple-of-records': {'result': ('Group',
                                       {'path': '/', 'url': None, 'attrs': [], 'data': [('a', ('Variable', ['rows'], ('list', '[1, 2]'), ('dict', [])))]}),
                            'input-untouched': True},
 'lines/generator-of-records': {'result': ('Group',
                                           {'path': '/',
                                            'url': None,
                                            'attrs': [],
                                            'data': [('a', ('Variable', ['rows'], ('list', '[0, 1, 2]'), ('dict', [])))]})},
 'lines/ragged-records': {'result': ('Group',
                                     {'path': '/',
                                      'url': None,
                                      'attrs': [],
                                      'data': [('a', ('Variable', ['rows'], ('list', '[1, 5]'), ('dict', []))),
                                               ('b', ('Variable', ['rows'], ('list', '[2, 3]'), ('dict', []))),
                                               ('c', ('Variable', ['rows'], ('list', '[4]'), ('dict', [])))]}),
                          'input-untouched': True},
 'lines/order-follows-first-seen': {'result': ('Group',
                                               {'path': '/',
                                                'url': None,
                                                'attrs': [],
                                                'data': [('z', ('Variable', ['rows'], ('list', '[1, 3, 6]'), ('dict', []))),
                                                         ('y', ('Variable', ['rows'], ('list', '[2, 5]'), ('dict', []))),
                                                         ('x', ('Variable', ['rows'], ('list', '[4]'), ('dict', [])))]}),
                                    'input-untouched': True},
 'lines/deduplicated': {'result': ('Group', {'path': '/', 'url': None, 'attrs': [('scan_id', ('int', '1'))], 'data': []}), 'input-untouched': True},
 'lines/deduplicated-takes-first': {'result': ('Group', {'path': '/', 'url': None, 'attrs': [('scan_id', ('int', '1'))], 'data': []}), 'input-untouched': True},
 'lines/deduplicated-with-units': {'result': ('Group', {'path': '/', 'url': None, 'attrs': [('scan_id', ('int', '1'))], 'data': []}), 'input-untouched': True},
 'lines/all-known-attrs': {'result': ('Group',
                                      {'path': '/',
                                       'url': None,
                                       'attrs': [('sar_image_data_record_index', ('int', '1')), ('sensor_parameters_update_flag', ('int', '0')),
                                                 ('scan_id', ('int', '3')), ('sar_channel_code', ('str', "'L'")),
                                                 ('sar_channel_id', ('str', "'dual_polarization'")), ('onboard_range_compressed_flag', ('bool', 'False')),
                                                 ('chirp_type_designator', ('str', "'linear_fm_chirp'")),
                                                 ('platform_position_parameters_update_flag', ('str', "'update'")),
                                                 ('geographic_reference_parameter_update_flag', ('int', '1')),
                                                 ('transmitted_pulse_polarization', ('str', "'horizontal'")),
                                                 ('received_pulse_polarization', ('str', "'vertical'"))],
                                       'data': [('other', ('Variable', ['rows'], ('list', '[0, 1, 2]'), ('dict', [])))]}),
                           'input-untouched': True},
 'lines/attrs-between-variables': {'result': ('Group',
                                              {'path': '/',
                                               'url': None,
                                               'attrs': [('scan_id', ('int', '7')), ('sar_channel_code', ('str', "'L'"))],
                                               'data': [('a', ('Variable', ['rows'], ('list', '[1, 4]'), ('dict', []))),
                                                        ('b', ('Variable', ['rows'], ('list', '[2, 5]'), ('dict', []))),
                                                        ('c', ('Variable', ['rows'], ('list', '[3, 6]'), ('dict', [])))]}),
                                   'input-untouched': True},
 'lines/dates': {'result': ('Group',
                            {'path': '/',
                             'url': None,
                             'attrs': [],
                             'data': [('sensor_acquisition_date',
                                       ('Variable', ['rows'], ('ndarray', 'datetime64[ns]', (2,), '[1601555862451000000, 1601642262451000000]'),
                                        ('dict', [])))]}),
                 'input-untouched': True},
 'lines/dates-microseconds': {'result': ('Group',
                                         {'path': '/',
                                          'url': None,
                                          'attrs': [],
                                          'data': [('sensor_acquisition_date_microseconds',
                                                    ('Variable', ['rows'], ('ndarray', 'datetime64[ns]', (2,), '[1601555862451000000, 1601642262451000000]'),
                                                     ('dict', []))),
                                                   ('sensor_acquisition_date',
                                                    ('Variable', ['rows'], ('ndarray', 'datetime64[ns]', (2,), '[1601555862451000000, 1601642262451000000]'),
                                                     ('dict', [])))]}),
                              'input-untouched': True},
 'lines/dates-as-strings': {'result': ('Group',
                                       {'path': '/',
                                        'url': None,
                                        'attrs': [],
                                        'data': [('sensor_acquisition_date',
                                                  ('Variable', ['rows'], ('ndarray', 'datetime64[ns]', (2,), '[1601553600000000000, 1601596800000000000]'),
                                                   ('dict', [])))]}),
                            'input-untouched': True},
 'lines/dates-as-numbers': {'result': ('Group',
                                       {'path': '/',
                                        'url': None,
                                        'attrs': [],
                                        'data': [('sensor_acquisition_date',
                                                  ('Variable', ['rows'], ('ndarray', 'datetime64[ns]', (2,), '[0, 1000000000]'), ('dict', [])))]}),
                            'input-untouched': True},
 'lines/dates-invalid': {'error': 'ValueError: Error parsing datetime string "yesterday" at position 0', 'input-untouched': True},
 'lines/dates-none': {'result': ('Group',
                                 {'path': '/',
                                  'url': None,
                                  'attrs': [],
                                  'data': [('sensor_acquisition_date',
                                            ('Variable', ['rows'], ('ndarray', 'datetime64[ns]', (2,), '[None, 1601555862451000000]'), ('dict', [])))]}),
                      'input-untouched': True},
 'lines/dates-with-units': {'result': ('Group',
                                       {'path': '/',
                                        'url': None,
                                        'attrs': [],
                                        'data': [('sensor_acquisition_date',
                                                  ('Variable', ['rows'], ('ndarray', 'datetime64[ns]', (2,), '[1601555862451000000, 1601642262451000000]'),
                                                   ('dict', [(('str', "'standard_name'"), ('str', "'time'"))])))]}),
                            'input-untouched': True},
 'lines/dates-ragged': {'result': ('Group',
                                   {'path': '/',
                                    'url': None,
                                    'attrs': [],
                                    'data': [('a', ('Variable', ['rows'], ('list', '[1, 2]'), ('dict', []))),
                                             ('sensor_acquisition_date',
                                              ('Variable', ['rows'], ('ndarray', 'datetime64[ns]', (1,), '[1601642262451000000]'), ('dict', [])))]}),
                        'input-untouched': True},
 'lines/renamed': {'result': ('Group', {'path': '/', 'url': None, 'attrs': [], 'data': [('rows', ('Variable', ['rows'], ('list', '[1, 2]'), ('dict', [])))]}),
                   'input-untouched': True},
 'lines/renamed-collision-before': {'result': ('Group',
                                               {'path': '/',
                                                'url': None,
                                                'attrs': [],
                                                'data': [('rows', ('Variable', ['rows'], ('list', '[1, 2]'), ('dict', [])))]}),
                                    'input-untouched': True},
 'lines/renamed-collision-after': {'result': ('Group',
                                              {'path': '/',
                                               'url': None,
                                               'attrs': [],
                                               'data': [('rows', ('Variable', ['rows'], ('list', '[10, 20]'), ('dict', [])))]}),
                                   'input-untouched': True},
 'lines/spares': {'result': ('Group',
                             {'path': '/',
                              'url': None,
                              'attrs': [],
                              'data': [('spare_x', ('Variable', ['rows'], ('list', '[3, 3]'), ('dict', []))),
                                       ('blanksx', ('Variable', ['rows'], ('list', '[6, 6]'), ('dict', []))),
                                       ('a', ('Variable', ['rows'], ('list', '[7, 8]'), ('dict', [])))]}),
                  'input-untouched': True},
 'lines/nested-sections': {'result': ('Group',
                                      {'path': '/',
                                       'url': None,
                                       'attrs': [],
                                       'data': [('platform_velocity',
                                                 ('Variable', ['rows'], ('list', "[{'x': (1, {'units': 'cm/s'})}, {'x': (2, {'units': 'cm/s'})}]"),
                                                  ('dict', []))),
                                                ('a', ('Variable', ['rows'], ('list', '[1, 2]'), ('dict', [])))]}),
                           'input-untouched': True},
 'lines/lists-as-values': {'result': ('Group',
                                      {'path': '/',
                                       'url': None,
                                       'attrs': [],
                                       'data': [('a', ('Variable', ['rows'], ('list', '[[1, 2], [3, 4]]'), ('dict', [])))]}),
                           'input-untouched': True},
 'lines/empty-lists-as-values': {'result': ('Group',
                                            {'path': '/',
                                             'url': None,
                                             'attrs': [],
                                             'data': [('a', ('Variable', ['rows'], ('list', '[[], []]'), ('dict', [])))]}),
                                 'input-untouched': True},
 'lines/tuples-with-three-items': {'error': 'ValueError: too many values to unpack (expected 2)', 'input-untouched': True},
 'lines/none-values': {'result': ('Group',
                                  {'path': '/', 'url': None, 'attrs': [], 'data': [('a', ('Variable', ['rows'], ('list', '[None, None]'), ('dict', [])))]}),
                       'input-untouched': True},
 'lines/integer-keys': {'error': "AttributeError: 'int' object has no attribute 'startswith'", 'input-untouched': True},
 'lines/mixed-keys': {'error': "AttributeError: 'int' object has no attribute 'startswith'", 'input-untouched': True},
 'lines/none': {'error': 'TypeError: toolz.dicttoolz.merge_with() argument after * must be an iterable, not NoneType', 'input-untouched': True},
 'lines/integer': {'error': 'TypeError: toolz.dicttoolz.merge_with() argument after * must be an iterable, not int', 'input-untouched': True},
 'lines/string': {'error': "AttributeError: 'str' object has no attribute 'items'", 'input-untouched': True},
 'lines/list-of-none': {'error': "AttributeError: 'curry' object has no attribute 'items'", 'input-untouched': True},
 'lines/list-of-two-none': {'error': "AttributeError: 'NoneType' object has no attribute 'items'", 'input-untouched': True},
 'lines/list-of-integers': {'error': "AttributeError: 'int' object has no attribute 'items'", 'input-untouched': True},
 'lines/list-of-pairs': {'error': "AttributeError: 'list' object has no attribute 'items'", 'input-untouched': True},
 'lines/list-in-a-list': {'result': ('Group',
                                     {'path': '/', 'url': None, 'attrs': [], 'data': [('a', ('Variable', ['rows'], ('list', '[1, 2]'), ('dict', [])))]}),
                          'input-untouched': True},
 'lines/dict-instead-of-list': {'error': "AttributeError: 'str' object has no attribute 'items'", 'input-untouched': True},
 'lines/dict-of-scalars': {'error': "AttributeError: 'str' object has no attribute 'items'", 'input-untouched': True},
 'lines/record-then-none': {'error': "AttributeError: 'NoneType' object has no attribute 'items'", 'input-untouched': True},
 'lines/repeatable': True,
 'lines/result-type': ('ceos_alos2.hierarchy', 'Group'),
 'overrides/int8': {'result': ('dict',
                               [(('str', "'a'"), ('tuple', [('str', "'x'"), ('ndarray', 'int8', (2,), '[1, 2]'), ('dict', [])])),
                                (('str', "'b'"), ('tuple', [('str', "'y'"), ('list', '[1.0, 2.1]'), ('dict', [(('str', "'k'"), ('str', "'v'"))])]))]),
                    'input-untouched': True},
 'overrides/float16': {'result': ('dict',
                                  [(('str', "'a'"), ('tuple', [('str', "'x'"), ('list', '[1, 2]'), ('dict', [])])),
                                   (('str', "'b'"),
                                    ('tuple',
                                     [('str', "'y'"), ('ndarray', 'float16', (2,), '[1.0, 2.099609375]'), ('dict', [(('str', "'k'"), ('str', "'v'"))])]))]),
                       'input-untouched': True},
 'overrides/both': {'result': ('dict',
                               [(('str', "'a'"), ('tuple', [('str', "'x'"), ('ndarray', 'float32', (2,), '[1.0, 2.0]'), ('dict', [])])),
                                (('str', "'b'"),
                                 ('tuple', [('str', "'y'"), ('ndarray', 'int64', (2,), '[1, 2]'), ('dict', [(('str', "'k'"), ('str', "'v'"))])]))]),
                    'input-untouched': True},
 'overrides/both-reversed-overrides': {'result': ('dict',
                                                  [(('str', "'a'"), ('tuple', [('str', "'x'"), ('ndarray', 'float32', (2,), '[1.0, 2.0]'), ('dict', [])])),
                                                   (('str', "'b'"),
                                                    ('tuple',
                                                     [('str', "'y'"), ('ndarray', 'int64', (2,), '[1, 2]'), ('dict', [(('str', "'k'"), ('str', "'v'"))])]))]),
                                       'input-untouched': True},
 'overrides/none': {'result': ('dict',
                               [(('str', "'a'"), ('tuple', [('str', "'x'"), ('list', '[1, 2]'), ('dict', [])])),
                                (('str', "'b'"), ('tuple', [('str', "'y'"), ('list', '[1.0, 2.1]'), ('dict', [(('str', "'k'"), ('str', "'v'"))])]))]),
                    'input-untouched': True},
 'overrides/unrelated': {'result': ('dict',
                                    [(('str', "'a'"), ('tuple', [('str', "'x'"), ('list', '[1, 2]'), ('dict', [])])),
                                     (('str', "'b'"), ('tuple', [('str', "'y'"), ('list', '[1.0, 2.1]'), ('dict', [(('str', "'k'"), ('str', "'v'"))])]))]),
                         'input-untouched': True},
 'overrides/empty-mapping': {'result': ('dict', []), 'input-untouched': True},
 'overrides/dtype-objects': {'result': ('dict',
                                        [(('str', "'a'"), ('tuple', [('str', "'x'"), ('ndarray', 'uint16', (2,), '[1, 2]'), ('dict', [])])),
                                         (('str', "'b'"),
                                          ('tuple',
                                           [('str', "'y'"), ('ndarray', 'float32', (2,), '[1.0, 2.0999999046325684]'),
                                            ('dict', [(('str', "'k'"), ('str', "'v'"))])]))]),
                             'input-untouched': True},
 'overrides/datetime': {'result': ('dict',
                                   [(('str', "'t'"),
                                     ('tuple',
                                      [('str', "'rows'"), ('ndarray', 'datetime64[ns]', (2,), '[1601555862451000000, 1601642262451000000]'), ('dict', [])])),
                                    (('str', "'u'"), ('tuple', [('str', "'rows'"), ('list', '[1, 2]'), ('dict', [])]))]),
                        'input-untouched': True},
 'overrides/datetime-seconds': {'result': ('dict',
                                           [(('str', "'t'"),
                                             ('tuple',
                                              [('str', "'rows'"),
                                               ('ndarray', 'datetime64[s]', (2,),
                                                '[datetime.datetime(2020, 10, 1, 12, 37, 42), datetime.datetime(2020, 10, 2, 12, 37, 42)]'),
                                               ('dict', [])]))]),
                                'input-untouched': True},
 'overrides/string-dtype': {'result': ('dict',
                                       [(('str', "'a'"), ('tuple', [('str', "'x'"), ('ndarray', '<U3', (2,), "['1', '2']"), ('dict', [])])),
                                        (('str', "'b'"), ('tuple', [('str', "'y'"), ('list', '[1.0, 2.1]'), ('dict', [(('str', "'k'"), ('str', "'v'"))])]))]),
                            'input-untouched': True},
 'overrides/object-dtype': {'result': ('dict',
                                       [(('str', "'a'"), ('tuple', [('str', "'x'"), ('list', '[1, 2]'), ('dict', [])])),
                                        (('str', "'b'"),
                                         ('tuple',
                                          [('str', "'y'"), ('ndarray', 'object', (2,), '[1.0, 2.1]'), ('dict', [(('str', "'k'"), ('str', "'v'"))])]))]),
                            'input-untouched': True},
 'overrides/none-dtype': {'result': ('dict',
                                     [(('str', "'a'"), ('tuple', [('str', "'x'"), ('ndarray', 'int64', (2,), '[1, 2]'), ('dict', [])])),
                                      (('str', "'b'"), ('tuple', [('str', "'y'"), ('list', '[1.0, 2.1]'), ('dict', [(('str', "'k'"), ('str', "'v'"))])]))]),
                          'input-untouched': True},
 'overrides/invalid-dtype': {'error': "TypeError: data type 'foo' not understood", 'input-untouched': True},
 'overrides/lossy-conversion': {'error': 'OverflowError: Python integer 300 out of bounds for int8', 'input-untouched': True},
 'overrides/inconvertible': {'error': "ValueError: invalid literal for int() with base 10: 'p'", 'input-untouched': True},
 'overrides/scalar-data': {'result': ('dict',
                                      [(('str', "'a'"),
                                        ('tuple', [('tuple', []), ('ndarray', 'float64', (), '1.0'), ('dict', [(('str', "'u'"), ('int', '1'))])]))]),
                           'input-untouched': True},
 'overrides/nested-data': {'result': ('dict',
                                      [(('str', "'a'"),
                                        ('tuple',
                                         [('tuple', [('str', "'x'"), ('str', "'y'")]), ('ndarray', 'int16', (2, 2), '[[1, 2], [3, 4]]'), ('dict', [])]))]),
                           'input-untouched': True},
 'overrides/array-data': {'result': ('dict', [(('str', "'a'"), ('tuple', [('str', "'x'"), ('ndarray', 'int16', (2,), '[1, 2]'), ('dict', [])]))]),
                          'input-untouched': True},
 'overrides/two-tuple': {'error': 'ValueError: not enough values to unpack (expected 3, got 2)', 'input-untouched': True},
 'overrides/four-tuple': {'error': 'ValueError: too many values to unpack (expected 3)', 'input-untouched': True},
 'overrides/not-a-tuple': {'error': 'TypeError: cannot unpack non-iterable int object', 'input-untouched': True},
 'overrides/list-variable': {'result': ('dict', [(('str', "'a'"), ('tuple', [('str', "'x'"), ('ndarray', 'int8', (2,), '[1, 2]'), ('dict', [])]))]),
                             'input-untouched': True},
 'overrides/untouched-not-a-tuple': {'result': ('dict', [(('str', "'b'"), ('int', '5')), (('str', "'c'"), ('NoneType', 'None'))]), 'input-untouched': True},
 'overrides/failure-after-success': {'error': 'TypeError: cannot unpack non-iterable int object', 'input-untouched': True},
 'overrides/overrides-as-list': {'error': 'TypeError: list indices must be integers or slices, not str', 'input-untouched': True},
 'overrides/overrides-as-list-unrelated': {'result': ('dict',
                                                      [(('str', "'a'"), ('tuple', [('str', "'x'"), ('list', '[1, 2]'), ('dict', [])])),
                                                       (('str', "'b'"),
                                                        ('tuple', [('str', "'y'"), ('list', '[1.0, 2.1]'), ('dict', [(('str', "'k'"), ('str', "'v'"))])]))]),
                                           'input-untouched': True},
 'overrides/overrides-as-set': {'error': "TypeError: 'set' object is not subscriptable", 'input-untouched': True},
 'overrides/overrides-as-string': {'error': "TypeError: string indices must be integers, not 'str'", 'input-untouched': True},
 'overrides/overrides-none': {'error': "TypeError: argument of type 'NoneType' is not iterable", 'input-untouched': True},
 'overrides/overrides-none-empty-mapping': {'result': ('dict', []), 'input-untouched': True},
 'overrides/mapping-none': {'error': "AttributeError: 'NoneType' object has no attribute 'items'", 'input-untouched': True},
 'overrides/mapping-list': {'error': "AttributeError: 'list' object has no attribute 'items'", 'input-untouched': True},
 'overrides/integer-keys': {'result': ('dict',
                                       [(('int', '1'), ('tuple', [('str', "'x'"), ('ndarray', 'int8', (1,), '[1]'), ('dict', [])])),
                                        (('int', '2'), ('tuple', [('str', "'x'"), ('list', '[2]'), ('dict', [])]))]),
                            'input-untouched': True},
 'overrides/untouched-items-are-the-same-objects': True,
 'overrides/attrs-are-the-same-object': True,
 'deduplicate/b': {'result': ('dict',
                              [(('str', "'a'"), ('int', '1')), (('str', "'c'"), ('tuple', [('str', "'y'"), ('list', '[2, 2]'), ('dict', [])])),
                               (('str', "'b'"), ('int', '1'))]),
                   'input-untouched': True},
 'deduplicate/c': {'result': ('dict',
                              [(('str', "'a'"), ('int', '1')), (('str', "'b'"), ('tuple', [('str', "'x'"), ('list', '[1, 1]'), ('dict', [])])),
                               (('str', "'c'"), ('int', '2'))]),
                   'input-untouched': True},
 'deduplicate/b-c': {'result': ('dict', [(('str', "'a'"), ('int', '1')), (('str', "'b'"), ('int', '1')), (('str', "'c'"), ('int', '2'))]),
                     'input-untouched': True},
 'deduplicate/set': {'result': ('dict', [(('str', "'a'"), ('int', '1')), (('str', "'b'"), ('int', '1')), (('str', "'c'"), ('int', '2'))]),
                     'input-untouched': True},
 'deduplicate/nothing-known': {'result': ('dict',
                                          [(('str', "'a'"), ('int', '1')), (('str', "'b'"), ('tuple', [('str', "'x'"), ('list', '[1, 1]'), ('dict', [])])),
                                           (('str', "'c'"), ('tuple', [('str', "'y'"), ('list', '[2, 2]'), ('dict', [])]))]),
                               'input-untouched': True},
 'deduplicate/unrelated': {'result': ('dict',
                                      [(('str', "'a'"), ('int', '1')), (('str', "'b'"), ('tuple', [('str', "'x'"), ('list', '[1, 1]'), ('dict', [])])),
                                       (('str', "'c'"), ('tuple', [('str', "'y'"), ('list', '[2, 2]'), ('dict', [])]))]),
                           'input-untouched': True},
 'deduplicate/empty-mapping': {'result': ('dict', []), 'input-untouched': True},
 'deduplicate/attr-first': {'result': ('dict',
                                       [(('str', "'b'"), ('tuple', [('str', "'y'"), ('list', '[1, 2]'), ('dict', [])])), (('str', "'a'"), ('int', '5'))]),
                            'input-untouched': True},
 'deduplicate/string-value': {'result': ('dict', [(('str', "'a'"), ('str', "'y'"))]), 'input-untouched': True},
 'deduplicate/scalar-value': {'error': "TypeError: 'int' object is not iterable", 'input-untouched': True},
 'deduplicate/short-tuple': {'result': ('dict', []), 'input-untouched': True},
 'deduplicate/empty-data': {'result': ('dict', []), 'input-untouched': True},
 'deduplicate/mapping-none': {'error': "AttributeError: 'NoneType' object has no attribute 'items'", 'input-untouched': True}}
# fmt: on
# <<< EXPECTED


def compare():
    actual = collect()
    failures = []
    if list(actual) != list(EXPECTED):
        failures.append(("<case names>", list(EXPECTED), list(actual)))
    for name, expected in EXPECTED.items():
        if actual.get(name) != expected:
            failures.append((name, expected, actual.get(name)))
    return actual, failures


def test_equivalence():
    _, failures = compare()
    assert not failures, pprint.pformat(failures)


if __name__ == "__main__":
    if "--record" in sys.argv:
        print(
            "EXPECTED = " + pprint.pformat(collect(), width=160, compact=True, sort_dicts=False)
        )
        raise SystemExit(0)

    actual, failures = compare()
    for name, expected, got in failures:
        print(f"MISMATCH {name}\n  expected: {expected}\n  actual:   {got}")
    n_errors = sum(isinstance(o, dict) and "error" in o for o in actual.values())
    print(
        f"{metadata.__file__}: {len(actual)} cases ({n_errors} raising),"
        f" {len(failures)} mismatches"
    )
    raise SystemExit(1 if failures else 0)
