"""Equivalence check for refactoring 1: ceos_alos2.transformers.remove_spares.

EXPECTED was recorded from the unchanged code (HEAD); the script must pass with and
without _eq/1/patch.diff.  Run `python equiv.py` or `pytest equiv.py`.
"""
import pprint
import sys

import numpy as np

from ceos_alos2.hierarchy import Group, Variable


def canon(obj):
    """Order-, type- and value-preserving description of a result."""
    if isinstance(obj, Group):
        return ("Group", obj.path, obj.url, canon(obj.data), canon(obj.attrs))
    if isinstance(obj, Variable):
        return ("Variable", canon(obj.dims), canon(obj.data), canon(obj.attrs))
    if isinstance(obj, np.ndarray):
        return ("ndarray", str(obj.dtype), obj.shape, [str(v) for v in obj.ravel().tolist()])
    if isinstance(obj, np.generic):
        return (type(obj).__name__, str(obj.dtype), str(obj))
    if isinstance(obj, dict):
        return (type(obj).__name__, [(canon(k), canon(v)) for k, v in obj.items()])
    if isinstance(obj, (list, tuple)):
        return (type(obj).__name__, [canon(v) for v in obj])
    return (type(obj).__name__, repr(obj))


def observe(func, *args, **kwargs):
    try:
        result = func(*args, **kwargs)
    except Exception as e:  # noqa: BLE001
        return ("raises", type(e).__name__, str(e))
    return ("returns", canon(result))


def main(run_cases, expected):
    observed = [repr(o) for o in run_cases()]
    if "--record" in sys.argv:
        pprint.pprint(observed, width=100)
        return
    assert len(observed) == len(expected), (len(observed), len(expected))
    for index, (obs, exp) in enumerate(zip(observed, expected)):
        assert obs == exp, f"case {index}:\n  observed {obs}\n  expected {exp}"
    print(f"equiv OK: {len(observed)} cases")


from ceos_alos2 import transformers


class MyDict(dict):
    pass


class MyList(list):
    pass


CASES = [
    {},
    [],
    None,
    1,
    "spare1",
    (1, 2),
    ({"spare1": 1},),
    {"a": 1, "b": "x"},
    {"spare": 1},
    {"blanks": 1},
    {"spare1": 1, "blanks23": "", "a": 2},
    {"spare_time": 1, "spares": 2, "blanks_a": 3, "spare1a": 4, "spare 1": 5},
    {"sparespare": 1, "spareblanks": 2, "blanksspare": 3, "blanksblanks": 4},
    {"spareblanks1": 1, "blanksspare1": 2, "spare1blanks": 3},
    {"spare٣": 1, "spare²": 2, "blanks½": 3},
    {"Spare1": 1, "BLANKS": 2, "aspare1": 3, " spare1": 4},
    {"": 1, "spare": 2},
    {"a": {"spare1": 1, "b": {"blanks": "", "c": [1, 2]}}, "spare2": {"d": 1}},
    {"a": [{"spare1": 1, "b": 2}, {"blanks2": 0, "c": {"spare": 1, "d": 3}}]},
    [{"spare1": 1, "a": 1}, [{"blanks": 1, "b": [{"spare9": 0}]}], 3, "spare"],
    {"a": ({"spare1": 1}, {"units": "m"})},
    {"a": [({"spare1": 1}, {"units": "m"})]},
    {"z": 1, "spare1": 0, "y": 2, "blanks": 0, "x": 3},
    MyDict({"spare1": 1, "a": MyDict({"blanks": 2, "b": 3})}),
    MyList([{"spare1": 1, "a": 1}]),
    {"a": MyList([{"spare1": 1, "b": 1}])},
    {"a": {"spare1": {"spare2": {}}}, "b": {}},
    {"a": [], "b": [[]], "c": [{}]},
    # keys that are not strings
    {1: 2},
    {"a": {1: 2}, 2.5: 3},
    {"a": [{None: 1}], ("spare",): 2},
    {b"spare1": 1},
    {"preamble": {"record_length": 4680}, "blanks1": "", "positions": [{"x": 1, "spare3": ""}]},
]


def run_cases():
    results = []
    for case in CASES:
        results.append(observe(transformers.remove_spares, case))
    # inputs are never modified
    original = {"spare1": 1, "a": {"blanks": 2, "b": [{"spare": 1, "c": 2}]}}
    snapshot = repr(original)
    result = transformers.remove_spares(original)
    results.append(("unmodified", repr(original) == snapshot, result is original))
    # leaves are passed through by identity, containers are rebuilt
    leaf = object()
    inner = [leaf]
    out = transformers.remove_spares({"a": inner, "t": (leaf,)})
    results.append(("identity", out["a"] is inner, out["a"][0] is leaf, out["t"][0] is leaf))
    empty = {}
    results.append(("fresh", transformers.remove_spares(empty) is empty))
    return results


EXPECTED = ["('returns', ('dict', []))",
 "('returns', ('list', []))",
 "('returns', ('NoneType', 'None'))",
 "('returns', ('int', '1'))",
 '(\'returns\', (\'str\', "\'spare1\'"))',
 "('returns', ('tuple', [('int', '1'), ('int', '2')]))",
 '(\'returns\', (\'tuple\', [(\'dict\', [((\'str\', "\'spare1\'"), (\'int\', \'1\'))])]))',
 '(\'returns\', (\'dict\', [((\'str\', "\'a\'"), (\'int\', \'1\')), ((\'str\', "\'b\'"), (\'str\', '
 '"\'x\'"))]))',
 "('returns', ('dict', []))",
 "('returns', ('dict', []))",
 '(\'returns\', (\'dict\', [((\'str\', "\'a\'"), (\'int\', \'2\'))]))',
 '(\'returns\', (\'dict\', [((\'str\', "\'spare_time\'"), (\'int\', \'1\')), ((\'str\', '
 '"\'spares\'"), (\'int\', \'2\')), ((\'str\', "\'blanks_a\'"), (\'int\', \'3\')), ((\'str\', '
 '"\'spare1a\'"), (\'int\', \'4\')), ((\'str\', "\'spare 1\'"), (\'int\', \'5\'))]))',
 '(\'returns\', (\'dict\', [((\'str\', "\'sparespare\'"), (\'int\', \'1\')), ((\'str\', '
 '"\'blanksspare\'"), (\'int\', \'3\')), ((\'str\', "\'blanksblanks\'"), (\'int\', \'4\'))]))',
 '(\'returns\', (\'dict\', [((\'str\', "\'blanksspare1\'"), (\'int\', \'2\')), ((\'str\', '
 '"\'spare1blanks\'"), (\'int\', \'3\'))]))',
 '(\'returns\', (\'dict\', [((\'str\', "\'blanks½\'"), (\'int\', \'3\'))]))',
 '(\'returns\', (\'dict\', [((\'str\', "\'Spare1\'"), (\'int\', \'1\')), ((\'str\', "\'BLANKS\'"), '
 '(\'int\', \'2\')), ((\'str\', "\'aspare1\'"), (\'int\', \'3\')), ((\'str\', "\' spare1\'"), '
 "('int', '4'))]))",
 '(\'returns\', (\'dict\', [((\'str\', "\'\'"), (\'int\', \'1\'))]))',
 '(\'returns\', (\'dict\', [((\'str\', "\'a\'"), (\'dict\', [((\'str\', "\'b\'"), (\'dict\', '
 '[((\'str\', "\'c\'"), (\'list\', [(\'int\', \'1\'), (\'int\', \'2\')]))]))]))]))',
 '(\'returns\', (\'dict\', [((\'str\', "\'a\'"), (\'list\', [(\'dict\', [((\'str\', "\'b\'"), '
 '(\'int\', \'2\'))]), (\'dict\', [((\'str\', "\'c\'"), (\'dict\', [((\'str\', "\'d\'"), (\'int\', '
 "'3'))]))])]))]))",
 '(\'returns\', (\'list\', [(\'dict\', [((\'str\', "\'a\'"), (\'int\', \'1\'))]), (\'list\', '
 '[(\'dict\', [((\'str\', "\'b\'"), (\'list\', [(\'dict\', [])]))])]), (\'int\', \'3\'), (\'str\', '
 '"\'spare\'")]))',
 '(\'returns\', (\'dict\', [((\'str\', "\'a\'"), (\'tuple\', [(\'dict\', [((\'str\', '
 '"\'spare1\'"), (\'int\', \'1\'))]), (\'dict\', [((\'str\', "\'units\'"), (\'str\', '
 '"\'m\'"))])]))]))',
 '(\'returns\', (\'dict\', [((\'str\', "\'a\'"), (\'list\', [(\'tuple\', [(\'dict\', [((\'str\', '
 '"\'spare1\'"), (\'int\', \'1\'))]), (\'dict\', [((\'str\', "\'units\'"), (\'str\', '
 '"\'m\'"))])])]))]))',
 '(\'returns\', (\'dict\', [((\'str\', "\'z\'"), (\'int\', \'1\')), ((\'str\', "\'y\'"), (\'int\', '
 '\'2\')), ((\'str\', "\'x\'"), (\'int\', \'3\'))]))',
 '(\'returns\', (\'dict\', [((\'str\', "\'a\'"), (\'dict\', [((\'str\', "\'b\'"), (\'int\', '
 "'3'))]))]))",
 '(\'returns\', (\'list\', [(\'dict\', [((\'str\', "\'a\'"), (\'int\', \'1\'))])]))',
 '(\'returns\', (\'dict\', [((\'str\', "\'a\'"), (\'list\', [(\'dict\', [((\'str\', "\'b\'"), '
 "('int', '1'))])]))]))",
 '(\'returns\', (\'dict\', [((\'str\', "\'a\'"), (\'dict\', [])), ((\'str\', "\'b\'"), (\'dict\', '
 '[]))]))',
 '(\'returns\', (\'dict\', [((\'str\', "\'a\'"), (\'list\', [])), ((\'str\', "\'b\'"), (\'list\', '
 '[(\'list\', [])])), ((\'str\', "\'c\'"), (\'list\', [(\'dict\', [])]))]))',
 '(\'raises\', \'AttributeError\', "\'int\' object has no attribute \'startswith\'")',
 '(\'raises\', \'AttributeError\', "\'float\' object has no attribute \'startswith\'")',
 '(\'raises\', \'AttributeError\', "\'tuple\' object has no attribute \'startswith\'")',
 '(\'raises\', \'TypeError\', "a bytes-like object is required, not \'str\'")',
 '(\'returns\', (\'dict\', [((\'str\', "\'preamble\'"), (\'dict\', [((\'str\', '
 '"\'record_length\'"), (\'int\', \'4680\'))])), ((\'str\', "\'positions\'"), (\'list\', '
 '[(\'dict\', [((\'str\', "\'x\'"), (\'int\', \'1\'))])]))]))',
 "('unmodified', True, False)",
 "('identity', False, True, True)",
 "('fresh', False)"]


def test_equivalence():
    main(run_cases, EXPECTED)


if __name__ == "__main__":
    main(run_cases, EXPECTED)
