"""Equivalence check for refactoring 3 (``categorize_filenames`` and the ``transform_*``
functions in ceos_alos2/summary.py).

Run as

    cd <worktree> && PYTHONPATH=<worktree> /venv/bin/python _eq/3/equiv.py

The expected values below were recorded with the UNCHANGED code (clean HEAD); the
script has to pass both with and without ``patch.diff`` applied.
"""

from ceos_alos2 import summary


def describe(exc):
    # type, args and the types along the explicit / implicit exception chain
    chain = []
    current = exc
    while current.__cause__ is not None or current.__context__ is not None:
        kind = "cause" if current.__cause__ is not None else "context"
        current = current.__cause__ if current.__cause__ is not None else current.__context__
        chain.append((kind, type(current).__name__))
    return (type(exc).__name__, exc.args, chain)


def outcome(func, *args):
    try:
        # Group is a dataclass: its repr shows path, url, data and attrs (recursively),
        # and the repr of a dict also records the order of the keys
        return repr(("ok", func(*args)))
    except BaseException as e:  # StopIteration & co. included
        return repr(("raise", describe(e)))


class Values:
    """not a dict, but has ``values``"""

    def __init__(self, *values):
        self._values = values

    def values(self):
        return iter(self._values)


class Mapper(dict):
    root = "memory://product"


full_summary = "\n".join(
    [
        'Odi_SceneId="abc"',
        'Scs_SceneID="ALOS2225333200-180726"',
        'Scs_SceneShift="1"',
        'Pds_ProductID="WWDR1.5RUA"',
        'Pds_ResamplingMethod="CC"',
        'Pds_UTM_ZoneNo="53"',
        'Pds_PixelSpacing="25.000000"',
        'Img_SceneCenterDateTime="20191011 14:43:15.525"',
        'Img_OffNadirAngle="21.3"',
        'Pdi_ProductFormat="CEOS"',
        'Pdi_CntOfL11ProductFileName="4"',
        'Pdi_L11ProductFileName01="VOL-X"',
        'Pdi_L11ProductFileName02="LED-X"',
        'Pdi_L11ProductFileName03="IMG-HH-X"',
        'Pdi_L11ProductFileName04="TRL-X"',
        'Pdi_BitPixel="16"',
        'Pdi_NoOfPixels_1=" 9196"',
        'Pdi_NoOfLines_1="60568"',
        'Pdi_ProductDataSize="798.2"',
        'Ach_TimeCheck="GOOD"',
        'Ach_PRF_Check=""',
        'Rad_PracticeResultCode="GOOD"',
        'Lbi_ObservationDate="20180726"',
        'Lbi_ProcessFacility="SCMO"',
    ]
)

CASES = [
    # --- categorize_filenames
    ("categorize_filenames", {"1": "vd", "2": "l", "3": "im1", "4": "im2", "5": "tr"}),
    ("categorize_filenames", {"1": "vd", "2": "l", "3": "tr"}),
    ("categorize_filenames", {"z": "vd", "a": "l", "m": "i1", "b": "i2", "y": "i3", "c": "tr"}),
    ("categorize_filenames", {"1": "vd", "2": "l"}),
    ("categorize_filenames", {"1": "vd"}),
    ("categorize_filenames", {}),
    ("categorize_filenames", Values("vd", "l", "im", "tr")),
    ("categorize_filenames", Values("vd", "l")),
    ("categorize_filenames", None),
    ("categorize_filenames", ["vd", "l", "im", "tr"]),
    # --- transform_image_info
    (
        "transform_image_info",
        {
            "SceneCenterDateTime": "20191011 14:43:15.525",
            "OffNadirAngle": "21.3",
            "SceneEndDateTime": "20191011 14:43:41.524",
            "ImageSceneCenterLatitude": " 30.385 ",
        },
    ),
    ("transform_image_info", {}),
    ("transform_image_info", {"MyDateTimeOfSomething": "1 2"}),
    ("transform_image_info", {"Datetime": "1.5", "dateTime": "2e3"}),  # case sensitive
    ("transform_image_info", {"SceneCenterDateTime": "20191011T14:43:15.525"}),
    ("transform_image_info", {"SceneCenterDateTime": "2019 10 11"}),
    ("transform_image_info", {"SceneCenterDateTime": 20191011}),
    ("transform_image_info", {"OffNadirAngle": "21,3"}),
    ("transform_image_info", {"OffNadirAngle": None}),
    ("transform_image_info", {"OffNadirAngle": "1", 5: "2"}),
    ("transform_image_info", None),
    # --- transform_product_info
    (
        "transform_product_info",
        {
            "CntOfL15ProductFileName": "5",
            "L15ProductFileName01": "a",
            "L15ProductFileName02": "b",
            "L15ProductFileName03": "c",
            "L15ProductFileName04": "d",
            "L15ProductFileName05": "e",
        },
    ),
    (
        "transform_product_info",
        {
            "NoOfPixels_1": " 9196",
            "NoOfPixels_2": " 8722",
            "NoOfLines_1": "60568",
            "NoOfLines_2": "75710",
        },
    ),
    (
        "transform_product_info",
        {"ProductDataSize": "798.2", "ProductFormat": "CEOS", "BitPixel": "16"},
    ),
    (
        # everything interleaved: order of the sub groups / attributes
        "transform_product_info",
        {
            "BitPixel": "16",
            "NoOfLines_HV": "20",
            "L11ProductFileName01": "a",
            "Unknown": "kept as is",
            "NoOfLines_HH": "10",
            "L11ProductFileName02": "b",
            "CntOfL11ProductFileName": "3",
            "NoOfPixels_HH": "1",
            "ProductFormat": "CEOS",
            "L11ProductFileName03": "c",
            "NoOfPixels_HV": "2",
        },
    ),
    ("transform_product_info", {}),
    ("transform_product_info", {"CntOfL11ProductFileName": "0"}),
    ("transform_product_info", {"L11ProductFileName01": "a", "L11ProductFileName02": "b"}),
    ("transform_product_info", {"NoOfPixels_1": "1"}),  # lines missing
    ("transform_product_info", {"NoOfLines_1": "1"}),  # pixels missing
    ("transform_product_info", {"NoOfPixels_1": "x"}),  # lines missing AND bad number
    ("transform_product_info", {"NoOfPixels_1": "x", "NoOfLines_1": "y"}),
    ("transform_product_info", {"NoOfPixels_1": "1", "NoOfLines_1": "y"}),
    ("transform_product_info", {"NoOfPixels_1": "1.5", "NoOfLines_1": "2"}),
    ("transform_product_info", {"NoOfPixels_1": None, "NoOfLines_1": "2"}),
    ("transform_product_info", {"NoOfPixels": "1", "NoOfLines": "2"}),  # no suffix
    ("transform_product_info", {"NoOfPixels_": "1", "NoOfLines_": "2"}),  # empty suffix
    (
        "transform_product_info",
        {"NoOfPixels_1_a": "1", "NoOfLines_1": "2", "NoOfPixels_1_b": "3", "NoOfLinesX_1": "4"},
    ),
    ("transform_product_info", {"NoOfPixelsExtra_1": "1", "NoOfLines_1": "2"}),
    ("transform_product_info", {"BitPixel": "1.5"}),
    ("transform_product_info", {"ProductDataSize": "big"}),
    ("transform_product_info", {"BitPixel": "8", 3: "x"}),
    ("transform_product_info", None),
    # --- transform_summary
    ("transform_summary", {}),
    ("transform_summary", {"rad": {"PracticeResultCode": "GOOD"}, "odi": {"a": "b"}}),
    ("transform_summary", {"xyz": "unknown sections pass through", "ach": {"A": ""}}),
    ("transform_summary", {"scs": {"SceneID": "ALOS2225333200-181345"}}),
    ("transform_summary", {"pds": {"ProductID": "WWDR1.2__D"}}),
    ("transform_summary", {"lbi": {"ProcessFacility": "ESA"}}),
    ("transform_summary", {"pdi": {"NoOfPixels_1": None, "NoOfLines_1": "2"}}),
    ("transform_summary", {"img": None}),
    ("transform_summary", None),
    ("transform_summary", summary.parse_summary(full_summary)),
    # --- end to end
    ("open_summary", Mapper({"summary.txt": full_summary.encode()}), "summary.txt"),
    ("open_summary", Mapper({"summary.txt": b'Pdi_NoOfPixels="1"'}), "summary.txt"),
    ("open_summary", Mapper(), "summary.txt"),
]

# BEGIN EXPECTED (recorded on clean HEAD)
EXPECTED = [
    "('ok', {'volume_directory': 'vd', 'sar_leader': 'l', 'sar_imagery': ['im1', 'im2'], 'sar_trailer': 'tr'})",
    "('ok', {'volume_directory': 'vd', 'sar_leader': 'l', 'sar_imagery': [], 'sar_trailer': 'tr'})",
    "('ok', {'volume_directory': 'vd', 'sar_leader': 'l', 'sar_imagery': ['i1', 'i2', 'i3'], 'sar_trailer': 'tr'})",
    "('raise', ('ValueError', ('not enough values to unpack (expected at least 3, got 2)',), []))",
    "('raise', ('ValueError', ('not enough values to unpack (expected at least 3, got 1)',), []))",
    "('raise', ('ValueError', ('not enough values to unpack (expected at least 3, got 0)',), []))",
    "('ok', {'volume_directory': 'vd', 'sar_leader': 'l', 'sar_imagery': ['im'], 'sar_trailer': 'tr'})",
    "('raise', ('ValueError', ('not enough values to unpack (expected at least 3, got 2)',), []))",
    '(\'raise\', (\'AttributeError\', ("\'NoneType\' object has no attribute \'values\'",), []))',
    '(\'raise\', (\'AttributeError\', ("\'list\' object has no attribute \'values\'",), []))',
    "('ok', Group(path='/', url=None, data={}, attrs={'SceneCenterDateTime': '2019-10-11T14:43:15.525', 'OffNadirAngle': 21.3, 'SceneEndDateTime': '2019-10-11T14:43:41.524', 'ImageSceneCenterLatitude': 30.385}))",
    "('ok', Group(path='/', url=None, data={}, attrs={}))",
    "('ok', Group(path='/', url=None, data={}, attrs={'MyDateTimeOfSomething': '1--T2'}))",
    "('ok', Group(path='/', url=None, data={}, attrs={'Datetime': 1.5, 'dateTime': 2000.0}))",
    "('raise', ('ValueError', ('not enough values to unpack (expected 2, got 1)',), []))",
    "('raise', ('ValueError', ('too many values to unpack (expected 2)',), []))",
    '(\'raise\', (\'AttributeError\', ("\'int\' object has no attribute \'split\'",), []))',
    '(\'raise\', (\'ValueError\', ("could not convert string to float: \'21,3\'",), []))',
    '(\'raise\', (\'TypeError\', ("float() argument must be a string or a real number, not \'NoneType\'",), []))',
    '(\'raise\', (\'TypeError\', ("argument of type \'int\' is not iterable",), []))',
    '(\'raise\', (\'AttributeError\', ("\'NoneType\' object has no attribute \'items\'",), []))',
    "('ok', Group(path='product_info', url=None, data={'data_files': Group(path='product_info/data_files', url=None, data={}, attrs={'volume_directory': 'a', 'sar_leader': 'b', 'sar_imagery': ['c', 'd'], 'sar_trailer': 'e'})}, attrs={}))",
    "('ok', Group(path='product_info', url=None, data={'shapes': Group(path='product_info/shapes', url=None, data={}, attrs={'1': (9196, 60568), '2': (8722, 75710)})}, attrs={}))",
    "('ok', Group(path='product_info', url=None, data={}, attrs={'ProductDataSize': 798.2, 'ProductFormat': 'CEOS', 'BitPixel': 16}))",
    "('ok', Group(path='product_info', url=None, data={'shapes': Group(path='product_info/shapes', url=None, data={}, attrs={'HV': (2, 20), 'HH': (1, 10)}), 'data_files': Group(path='product_info/data_files', url=None, data={}, attrs={'volume_directory': 'a', 'sar_leader': 'b', 'sar_imagery': [], 'sar_trailer': 'c'})}, attrs={'BitPixel': 16, 'Unknown': 'kept as is', 'ProductFormat': 'CEOS'}))",
    "('ok', Group(path='product_info', url=None, data={}, attrs={}))",
    "('raise', ('ValueError', ('not enough values to unpack (expected at least 3, got 0)',), []))",
    "('raise', ('ValueError', ('not enough values to unpack (expected at least 3, got 2)',), []))",
    "('raise', ('KeyError', ('NoOfLines',), [('context', 'TypeError')]))",
    "('raise', ('KeyError', ('NoOfPixels',), [('context', 'TypeError')]))",
    "('raise', ('KeyError', ('NoOfLines',), [('context', 'TypeError')]))",
    '(\'raise\', (\'ValueError\', ("invalid literal for int() with base 10: \'x\'",), []))',
    '(\'raise\', (\'ValueError\', ("invalid literal for int() with base 10: \'y\'",), []))',
    '(\'raise\', (\'ValueError\', ("invalid literal for int() with base 10: \'1.5\'",), []))',
    '(\'raise\', (\'TypeError\', ("int() argument must be a string, a bytes-like object or a real number, not \'NoneType\'",), []))',
    "('raise', ('StopIteration', (), []))",
    "('ok', Group(path='product_info', url=None, data={'shapes': Group(path='product_info/shapes', url=None, data={}, attrs={'': (1, 2)})}, attrs={}))",
    "('ok', Group(path='product_info', url=None, data={'shapes': Group(path='product_info/shapes', url=None, data={}, attrs={'1': (3, 2)})}, attrs={}))",
    "('raise', ('KeyError', ('NoOfPixels',), [('context', 'TypeError')]))",
    '(\'raise\', (\'ValueError\', ("invalid literal for int() with base 10: \'1.5\'",), []))',
    '(\'raise\', (\'ValueError\', ("could not convert string to float: \'big\'",), []))',
    '(\'raise\', (\'TypeError\', ("argument of type \'int\' is not iterable",), []))',
    '(\'raise\', (\'AttributeError\', ("\'NoneType\' object has no attribute \'items\'",), []))',
    "('ok', Group(path='summary', url=None, data={}, attrs={}))",
    "('ok', Group(path='summary', url=None, data={'result_information': Group(path='summary/result_information', url=None, data={}, attrs={'PracticeResultCode': 'GOOD'}), 'ordering_information': Group(path='summary/ordering_information', url=None, data={}, attrs={'a': 'b'})}, attrs={}))",
    "('ok', Group(path='summary', url=None, data={'xyz': 'unknown sections pass through', 'autocheck': Group(path='summary/autocheck', url=None, data={}, attrs={'A': 'N/A'})}, attrs={}))",
    "('raise', ('ValueError', ('invalid scene id: ALOS2225333200-181345',), [('cause', 'ParserError'), ('cause', 'ValueError')]))",
    "('raise', ('ValueError', ('invalid product id: WWDR1.2__D',), []))",
    '(\'raise\', (\'ValueError\', ("invalid code \'ESA\'",), []))',
    '(\'raise\', (\'TypeError\', ("int() argument must be a string, a bytes-like object or a real number, not \'NoneType\'",), []))',
    '(\'raise\', (\'AttributeError\', ("\'NoneType\' object has no attribute \'items\'",), []))',
    '(\'raise\', (\'AttributeError\', ("\'NoneType\' object has no attribute \'items\'",), []))',
    "('ok', Group(path='summary', url=None, data={'ordering_information': Group(path='summary/ordering_information', url=None, data={}, attrs={'SceneId': 'abc'}), 'scene_specification': Group(path='summary/scene_specification', url=None, data={}, attrs={'mission_name': 'ALOS2', 'orbit_accumulation': 22533, 'scene_frame': 3200, 'date': '2018-07-26', 'SceneShift': 1}), 'product_specification': Group(path='summary/product_specification', url=None, data={}, attrs={'observation_mode': 'ScanSAR nominal 28MHz mode dual polarization', 'observation_direction': 'right looking', 'processing_level': 'level 1.5', 'processing_option': 'geo-reference', 'map_projection': 'UTM', 'orbit_direction': 'ascending', 'ResamplingMethod': 'cubic convolution', 'UTM_ZoneNo': 53, 'PixelSpacing': 25.0}), 'image_information': Group(path='summary/image_information', url=None, data={}, attrs={'SceneCenterDateTime': '2019-10-11T14:43:15.525', 'OffNadirAngle': 21.3}), 'product_information': Group(path='summary/product_information', url=None, data={'data_files': Group(path='summary/product_information/data_files', url=None, data={}, attrs={'volume_directory': 'VOL-X', 'sar_leader': 'LED-X', 'sar_imagery': ['IMG-HH-X'], 'sar_trailer': 'TRL-X'}), 'shapes': Group(path='summary/product_information/shapes', url=None, data={}, attrs={'1': (9196, 60568)})}, attrs={'ProductFormat': 'CEOS', 'BitPixel': 16, 'ProductDataSize': 798.2}), 'autocheck': Group(path='summary/autocheck', url=None, data={}, attrs={'TimeCheck': 'GOOD', 'PRF_Check': 'N/A'}), 'result_information': Group(path='summary/result_information', url=None, data={}, attrs={'PracticeResultCode': 'GOOD'}), 'label_information': Group(path='summary/label_information', url=None, data={}, attrs={'ObservationDate': '2018-07-26', 'ProcessFacility': 'spacecraft control mission operation system'})}, attrs={}))",
    "('ok', Group(path='summary', url=None, data={'ordering_information': Group(path='summary/ordering_information', url=None, data={}, attrs={'SceneId': 'abc'}), 'scene_specification': Group(path='summary/scene_specification', url=None, data={}, attrs={'mission_name': 'ALOS2', 'orbit_accumulation': 22533, 'scene_frame': 3200, 'date': '2018-07-26', 'SceneShift': 1}), 'product_specification': Group(path='summary/product_specification', url=None, data={}, attrs={'observation_mode': 'ScanSAR nominal 28MHz mode dual polarization', 'observation_direction': 'right looking', 'processing_level': 'level 1.5', 'processing_option': 'geo-reference', 'map_projection': 'UTM', 'orbit_direction': 'ascending', 'ResamplingMethod': 'cubic convolution', 'UTM_ZoneNo': 53, 'PixelSpacing': 25.0}), 'image_information': Group(path='summary/image_information', url=None, data={}, attrs={'SceneCenterDateTime': '2019-10-11T14:43:15.525', 'OffNadirAngle': 21.3}), 'product_information': Group(path='summary/product_information', url=None, data={'data_files': Group(path='summary/product_information/data_files', url=None, data={}, attrs={'volume_directory': 'VOL-X', 'sar_leader': 'LED-X', 'sar_imagery': ['IMG-HH-X'], 'sar_trailer': 'TRL-X'}), 'shapes': Group(path='summary/product_information/shapes', url=None, data={}, attrs={'1': (9196, 60568)})}, attrs={'ProductFormat': 'CEOS', 'BitPixel': 16, 'ProductDataSize': 798.2}), 'autocheck': Group(path='summary/autocheck', url=None, data={}, attrs={'TimeCheck': 'GOOD', 'PRF_Check': 'N/A'}), 'result_information': Group(path='summary/result_information', url=None, data={}, attrs={'PracticeResultCode': 'GOOD'}), 'label_information': Group(path='summary/label_information', url=None, data={}, attrs={'ObservationDate': '2018-07-26', 'ProcessFacility': 'spacecraft control mission operation system'})}, attrs={}))",
    "('raise', ('StopIteration', (), []))",
    "('raise', ('OSError', ('Cannot find the summary file (`summary.txt`). Make sure the dataset at memory://product is complete and in the JAXA CEOS format.',), [('cause', 'KeyError')]))",
]
# END EXPECTED


def observe():
    return [outcome(getattr(summary, name), *args) for name, *args in CASES]


RECORDED = {"EXPECTED": ("EXPECTED", observe)}

if __name__ == "__main__":
    observed = observe()
    assert len(observed) == len(EXPECTED), (len(observed), len(EXPECTED))
    for (name, *args), actual, expected in zip(CASES, observed, EXPECTED):
        assert actual == expected, f"{name}{tuple(args)!r}:\n  actual:   {actual}\n  expected: {expected}"

    # types that do not show in the repr
    result = summary.categorize_filenames(dict(enumerate("abcde")))
    assert type(result["sar_imagery"]) is list
    shapes = summary.transform_product_info({"NoOfPixels_1": "1", "NoOfLines_1": "2"})
    assert type(shapes["shapes"].attrs["1"]) is tuple
    assert [type(v) for v in shapes["shapes"].attrs["1"]] == [int, int]

    print(f"ok: {len(observed)} cases")
