"""Equivalence check for refactoring 2 (summary.open_summary).

Run as

    cd /tmp/wt9/e74 && PYTHONPATH=/tmp/wt9/e74 /venv/bin/python _eq/2/equiv.py

(or through pytest). ``EXPECTED`` was recorded from the unchanged code with
``equiv.py --record``; the script has to pass with and without ``patch.diff``.
"""

import pprint
import sys

import fsspec

from ceos_alos2 import summary
from fsspec.mapping import FSMap

from ceos_alos2.hierarchy import Group, Variable

try:
    ExceptionGroup
except NameError:  # pragma: no cover
    from exceptiongroup import ExceptionGroup


def describe_exc(e, depth=0):
    """a compact text form of an exception: type, arguments and how it is chained"""
    if e is None:
        return None

    parts = [f"{type(e).__module__}.{type(e).__qualname__}{e.args!r}"]
    if isinstance(e, OSError):
        parts.append(f"errno={e.errno!r} filename={e.filename!r}")
    if isinstance(e, ExceptionGroup):
        members = ", ".join(describe_exc(sub, depth + 1) for sub in e.exceptions)
        parts.append(f"message={e.message!r} exceptions=[{members}]")
    parts.append(f"suppress_context={e.__suppress_context__}")
    if depth < 4:
        parts.append(f"cause=({describe_exc(e.__cause__, depth + 1)})")
        parts.append(f"context=({describe_exc(e.__context__, depth + 1)})")
    # the name of this module depends on how it is run (script or pytest)
    return " ".join(parts).replace(f"{__name__}.", "local.")


def describe(value):
    """a compact, deterministic text form of results (keeps the types and the order of items)"""
    if isinstance(value, Group):
        fields = ", ".join(
            f"{name}={describe(getattr(value, name))}" for name in ("path", "url", "attrs", "data")
        )
        return f"Group({fields})"
    if isinstance(value, Variable):
        return f"Variable({describe(value.dims)}, {describe(value.data)}, {describe(value.attrs)})"
    if type(value) is dict:
        return "{" + ", ".join(f"{describe(k)}: {describe(v)}" for k, v in value.items()) + "}"
    if type(value) is list:
        return "[" + ", ".join(describe(v) for v in value) + "]"
    if type(value) is tuple:
        return "(" + "".join(f"{describe(v)}, " for v in value) + ")"
    if type(value) in (str, bytes, int, float, bool, type(None)):
        return repr(value)
    if isinstance(value, FSMap):
        return f"<{type(value).__name__} {value._root if hasattr(value, '_root') else value.root}>"
    text = repr(value)
    if " at 0x" in text:
        return f"<{type(value).__name__}>"
    return f"<{type(value).__name__} {text}>"


def call(f, *args, **kwargs):
    try:
        result = f(*args, **kwargs)
    except BaseException as e:  # noqa: B036
        return {"raised": describe_exc(e)}
    return {"returned": describe(result)}


full_summary = "\r\n".join(
    [
        'Odi_SceneId="ALOS2290760600-191011"',
        'Odi_SiteDateTime="20191012 03:04:05"',
        'Scs_SceneID="ALOS2290760600-191011"',
        'Scs_SceneShift="0"',
        'Pds_ProductID="WWDR1.1__D"',
        'Pds_ResamplingMethod="NN"',
        'Pds_UTM_ZoneNo="53"',
        'Pds_MapDirection="MapNorth"',
        'Pds_OrbitDataPrecision="Precision"',
        'Pds_AttitudeDataPrecision="Onboard"',
        'Pds_PixelSpacing="25.000000"',
        'Img_SceneCenterDateTime="20191011 14:43:15.525"',
        'Img_SceneStartDateTime="20191011 14:42:49.525"',
        'Img_ImageSceneCenterLatitude="30.385"',
        'Img_OffNadirAngle="21.3"',
        'Pdi_ProductFormat="CEOS"',
        'Pdi_BitPixel="16"',
        'Pdi_ProductDataSize="798.2"',
        'Pdi_CntOfL11ProductFileName="5"',
        'Pdi_L11ProductFileName01="VOL-ALOS2290760600-191011-WWDR1.1__D"',
        'Pdi_L11ProductFileName02="LED-ALOS2290760600-191011-WWDR1.1__D"',
        'Pdi_L11ProductFileName03="IMG-HH-ALOS2290760600-191011-WWDR1.1__D-F1"',
        'Pdi_L11ProductFileName04="IMG-HV-ALOS2290760600-191011-WWDR1.1__D-F1"',
        'Pdi_L11ProductFileName05="TRL-ALOS2290760600-191011-WWDR1.1__D"',
        'Pdi_NoOfPixels_1=" 9196"',
        'Pdi_NoOfLines_1="60568"',
        'Pdi_NoOfPixels_2=" 8722"',
        'Pdi_NoOfLines_2="75710"',
        'Ach_TimeCheck="GOOD"',
        'Ach_AttitudeCheck=""',
        'Rad_PracticeResultCode="GOOD"',
        'Lbi_Satellite="ALOS2"',
        'Lbi_ObservationDate="20191011"',
        'Lbi_ProcessFacility="SCMO"',
    ]
)
short_summary = 'Scs_SceneShift="3"\nLbi_ProcessLevel="1.1"\n'

files = {
    "full": full_summary.encode(),
    "full-lf": full_summary.replace("\r\n", "\n").encode(),
    "short": short_summary.encode(),
    "empty": b"",
    "bom": b"\xef\xbb\xbf" + short_summary.encode(),
    "not-utf8": b'Lbi_ProcessFacility="\xff\xfe"\n',
    "utf8": 'Lbi_Satellite="ALÖS2"\n'.encode(),
    "latin1": 'Lbi_Satellite="ALÖS2"\n'.encode("latin-1"),
    "invalid-lines": b'Scs_SceneShift="3"\ngarbage\nLbi_ProcessLevel="1.1"\n\nmore garbage',
    "bad-int": b'Scs_SceneShift="three"\n',
    "bad-scene-id": b'Scs_SceneID="garbage"\n',
    "too-few-files": b'Pdi_L11ProductFileName01="a"\nPdi_L11ProductFileName02="b"\n',
    "unknown-section": b'Xyz_Key="value"\n',
    "unknown-facility": b'Lbi_ProcessFacility="NOPE"\n',
}


def memory_mapper(root, contents):
    fs = fsspec.filesystem("memory")
    if fs.exists(root):
        fs.rm(root, recursive=True)
    for name, data in contents.items():
        fs.pipe_file(f"{root}/{name}", data)
    return fs.get_mapper(root)


def cases_memory():
    results = {}
    for name, data in files.items():
        mapper = memory_mapper(f"/eq2/{name}", {"summary.txt": data, "other.txt": b"x"})
        results[name] = call(summary.open_summary, mapper, "summary.txt")

    mapper = memory_mapper("/eq2/paths", {"summary.txt": files["short"], "sub/summary.txt": b""})
    for path in [
        "summary.txt",
        "sub/summary.txt",
        "/summary.txt",
        "missing.txt",
        "sub/missing.txt",
        "sub",
        "",
        "SUMMARY.TXT",
        "{path}",
        "{root} {0} {} %s %(path)s",
        "`quoted`",
        "ünicode.txt",
        "with\nnewline",
    ]:
        results[f"path:{path!r}"] = call(summary.open_summary, mapper, path)

    for root in ["/eq2/empty-root", "/eq2/{root}/{path}", "/eq2/{0} %s"]:
        mapper = memory_mapper(root, {"other.txt": b"x"})
        results[f"root:{root!r}"] = call(summary.open_summary, mapper, "summary.txt")

    # non-string paths
    mapper = memory_mapper("/eq2/nonstring", {"summary.txt": files["short"], "1": files["short"]})
    for path in [1, None, b"summary.txt", ("summary.txt",), 1.5]:
        results[f"path:{path!r}"] = call(summary.open_summary, mapper, path)

    return results


class Root:
    def __init__(self, events, text):
        self.events = events
        self.text = text

    def __format__(self, spec):
        self.events.append(("root.__format__", spec))
        return self.text

    def __str__(self):
        self.events.append(("root.__str__",))
        return f"str:{self.text}"

    def __repr__(self):
        return f"Root({self.text!r})"


class Path(str):
    events = None

    def __format__(self, spec):
        self.events.append(("path.__format__", spec))
        return str.__format__(self, spec)

    def __str__(self):
        self.events.append(("path.__str__",))
        return str.__str__(self)


class CustomKeyError(KeyError):
    pass


class RecordingMapper:
    """a mapping that records what `open_summary` does with it"""

    def __init__(self, contents, root=None, root_error=None, item_error=None):
        self.events = []
        self.contents = contents
        self._root = root
        self.root_error = root_error
        self.item_error = item_error
        self.raised = []

    def _raise(self, error):
        self.raised.append(error)
        raise error

    @property
    def root(self):
        self.events.append(("root",))
        if self.root_error is not None:
            self._raise(self.root_error)
        if self._root is None:
            return Root(self.events, "<the root>")
        return self._root

    def __getitem__(self, key):
        self.events.append(("__getitem__", f"{type(key).__name__}:{str.__repr__(key) if isinstance(key, str) else repr(key)}"))
        if self.item_error is not None:
            self._raise(self.item_error)
        try:
            return self.contents[key]
        except KeyError:
            self._raise(KeyError(key))

    def __getattr__(self, name):
        self.events.append(("__getattr__", name))
        raise AttributeError(name)


class Bytes(bytes):
    events = None

    def decode(self, *args, **kwargs):
        self.events.append(("decode", args, kwargs))
        return bytes.decode(self, *args, **kwargs)


class Undecodable:
    def __init__(self, error):
        self.error = error

    def decode(self):
        raise self.error


def cases_recording():
    def run(mapper, path):
        try:
            result = {"returned": describe(summary.open_summary(mapper, path))}
        except BaseException as e:  # noqa: B036
            result = {"raised": describe_exc(e)}
            chain = []
            current = e
            while current is not None and len(chain) < 5:
                chain.append(current)
                current = current.__cause__ or current.__context__
            result["cause-is-raised"] = [
                any(link is raised for raised in mapper.raised) for link in chain
            ]
        result["events"] = list(mapper.events)
        return result

    results = {}

    data = Bytes(files["short"])
    mapper = RecordingMapper({"summary.txt": data})
    data.events = mapper.events
    results["found"] = run(mapper, "summary.txt")

    mapper = RecordingMapper({"summary.txt": files["short"]})
    results["missing"] = run(mapper, "other.txt")

    mapper = RecordingMapper({})
    path = Path("summary.txt")
    path.events = mapper.events
    results["missing-custom-path"] = run(mapper, path)

    mapper = RecordingMapper({}, root="s3://bucket/product")
    results["missing-str-root"] = run(mapper, "summary.txt")

    mapper = RecordingMapper({}, root=("a", 1))
    results["missing-tuple-root"] = run(mapper, "summary.txt")

    mapper = RecordingMapper({}, root_error=AttributeError("no root"))
    results["missing-root-attribute-error"] = run(mapper, "summary.txt")

    mapper = RecordingMapper({}, root_error=RuntimeError("root failed"))
    results["missing-root-runtime-error"] = run(mapper, "summary.txt")

    mapper = RecordingMapper({}, root_error=KeyError("root"))
    results["missing-root-key-error"] = run(mapper, "summary.txt")

    for name, error in {
        "custom-key-error": CustomKeyError("summary.txt", "extra"),
        "key-error-no-args": KeyError(),
        "file-not-found": FileNotFoundError(2, "No such file", "summary.txt"),
        "permission-error": PermissionError(13, "denied"),
        "lookup-error": LookupError("lookup"),
        "index-error": IndexError("index"),
        "value-error": ValueError("value"),
        "type-error": TypeError("type"),
        "stop-iteration": StopIteration("stop"),
        "keyboard-interrupt": KeyboardInterrupt(),
    }.items():
        mapper = RecordingMapper({}, item_error=error)
        results[f"getitem-{name}"] = run(mapper, "summary.txt")

    # a `KeyError` with an existing context
    try:
        try:
            raise RuntimeError("earlier")
        except RuntimeError:
            raise KeyError("with context")
    except KeyError as e:
        error = e
    mapper = RecordingMapper({}, item_error=error)
    results["getitem-key-error-with-context"] = run(mapper, "summary.txt")

    # failures while decoding are not translated
    for name, value in {
        "str": short_summary,
        "none": None,
        "memoryview": memoryview(files["short"]),
        "bytearray": bytearray(files["short"]),
        "decode-key-error": Undecodable(KeyError("decode")),
        "decode-value-error": Undecodable(ValueError("decode")),
        "decode-os-error": Undecodable(OSError("decode")),
        "decode-returns-bytes": Undecodable.__new__(Undecodable),
    }.items():
        if name == "decode-returns-bytes":
            value = type("Decodes", (), {"decode": lambda self: b'Scs_SceneShift="3"'})()
        mapper = RecordingMapper({"summary.txt": value})
        results[f"value-{name}"] = run(mapper, "summary.txt")

    # called while handling another exception
    mapper = RecordingMapper({})
    try:
        raise RuntimeError("outer")
    except RuntimeError:
        results["nested-missing"] = run(mapper, "summary.txt")
    mapper = RecordingMapper({"summary.txt": files["short"]})
    try:
        raise RuntimeError("outer")
    except RuntimeError:
        results["nested-found"] = run(mapper, "summary.txt")

    return results


def cases_plain_mappings():
    results = {}
    results["dict-found"] = call(summary.open_summary, {"summary.txt": files["short"]}, "summary.txt")
    results["dict-missing"] = call(summary.open_summary, {}, "summary.txt")
    results["list"] = call(summary.open_summary, [files["short"]], 0)
    results["list-missing"] = call(summary.open_summary, [], 0)
    results["list-str-index"] = call(summary.open_summary, [], "summary.txt")
    results["none"] = call(summary.open_summary, None, "summary.txt")
    return results


def cases_hooks():
    """`parse_summary` and `transform_summary` are looked up when `open_summary` runs"""
    events = []

    def fake_parse(content):
        events.append(("parse_summary", content))
        return {"parsed": content}

    def fake_transform(raw):
        events.append(("transform_summary", raw))
        return ("transformed", raw)

    def failing_parse(content):
        events.append(("parse_summary", content))
        raise KeyError("parse")

    def failing_transform(raw):
        events.append(("transform_summary", raw))
        raise KeyError("transform")

    original = summary.parse_summary, summary.transform_summary
    results = {}
    try:
        mapper = {"summary.txt": b"content", "b": b""}
        summary.parse_summary, summary.transform_summary = fake_parse, fake_transform
        results["both"] = call(summary.open_summary, mapper, "summary.txt")
        results["both-empty"] = call(summary.open_summary, mapper, "b")
        results["both-missing"] = call(summary.open_summary, memory_mapper("/eq2/hooks", {}), "c")
        summary.parse_summary = failing_parse
        results["failing-parse"] = call(summary.open_summary, mapper, "summary.txt")
        summary.parse_summary, summary.transform_summary = fake_parse, failing_transform
        results["failing-transform"] = call(summary.open_summary, mapper, "summary.txt")
    finally:
        summary.parse_summary, summary.transform_summary = original
    results["events"] = events
    return results


def run():
    return {
        "memory": cases_memory(),
        "recording": cases_recording(),
        "plain": cases_plain_mappings(),
        "hooks": cases_hooks(),
        "public-names": sorted(
            name
            for name in ("open_summary", "parse_summary", "transform_summary")
            if hasattr(summary, name)
        ),
    }


# @@EXPECTED-BEGIN@@
EXPECTED = {
    'memory': {
        'full': (
            {'returned': "Group(path='summary', url=None, attrs={}, data={'ordering_information': "
                         "Group(path='summary/ordering_information', url=None, attrs={'SceneId': "
                         "'ALOS2290760600-191011', 'SiteDateTime': '20191012 03:04:05'}, data={}), "
                         "'scene_specification': Group(path='summary/scene_specification', url=None, "
                         "attrs={'mission_name': 'ALOS2', 'orbit_accumulation': 29076, 'scene_frame': 600, "
                         "'date': '2019-10-11', 'SceneShift': 0}, data={}), 'product_specification': "
                         "Group(path='summary/product_specification', url=None, attrs={'observation_mode': "
                         "'ScanSAR nominal 28MHz mode dual polarization', 'observation_direction': 'right "
                         "looking', 'processing_level': 'level 1.1', 'processing_option': 'not specified', "
                         "'map_projection': 'not specified', 'orbit_direction': 'descending', "
                         "'ResamplingMethod': 'nearest-neighbor', 'UTM_ZoneNo': 53, 'MapDirection': "
                         "'MapNorth', 'OrbitDataPrecision': 'Precision', 'AttitudeDataPrecision': 'Onboard', "
                         "'PixelSpacing': 25.0}, data={}), 'image_information': "
                         "Group(path='summary/image_information', url=None, attrs={'SceneCenterDateTime': "
                         "'2019-10-11T14:43:15.525', 'SceneStartDateTime': '2019-10-11T14:42:49.525', "
                         "'ImageSceneCenterLatitude': 30.385, 'OffNadirAngle': 21.3}, data={}), "
                         "'product_information': Group(path='summary/product_information', url=None, "
                         "attrs={'ProductFormat': 'CEOS', 'BitPixel': 16, 'ProductDataSize': 798.2}, "
                         "data={'data_files': Group(path='summary/product_information/data_files', url=None, "
                         "attrs={'volume_directory': 'VOL-ALOS2290760600-191011-WWDR1.1__D', 'sar_leader': "
                         "'LED-ALOS2290760600-191011-WWDR1.1__D', 'sar_imagery': "
                         "['IMG-HH-ALOS2290760600-191011-WWDR1.1__D-F1', "
                         "'IMG-HV-ALOS2290760600-191011-WWDR1.1__D-F1'], 'sar_trailer': "
                         "'TRL-ALOS2290760600-191011-WWDR1.1__D'}, data={}), 'shapes': "
                         "Group(path='summary/product_information/shapes', url=None, attrs={'1': (9196, 60568, "
                         "), '2': (8722, 75710, )}, data={})}), 'autocheck': Group(path='summary/autocheck', "
                         "url=None, attrs={'TimeCheck': 'GOOD', 'AttitudeCheck': 'N/A'}, data={}), "
                         "'result_information': Group(path='summary/result_information', url=None, "
                         "attrs={'PracticeResultCode': 'GOOD'}, data={}), 'label_information': "
                         "Group(path='summary/label_information', url=None, attrs={'Satellite': 'ALOS2', "
                         "'ObservationDate': '2019-10-11', 'ProcessFacility': 'spacecraft control mission "
                         "operation system'}, data={})})"}
        ),
        'full-lf': (
            {'returned': "Group(path='summary', url=None, attrs={}, data={'ordering_information': "
                         "Group(path='summary/ordering_information', url=None, attrs={'SceneId': "
                         "'ALOS2290760600-191011', 'SiteDateTime': '20191012 03:04:05'}, data={}), "
                         "'scene_specification': Group(path='summary/scene_specification', url=None, "
                         "attrs={'mission_name': 'ALOS2', 'orbit_accumulation': 29076, 'scene_frame': 600, "
                         "'date': '2019-10-11', 'SceneShift': 0}, data={}), 'product_specification': "
                         "Group(path='summary/product_specification', url=None, attrs={'observation_mode': "
                         "'ScanSAR nominal 28MHz mode dual polarization', 'observation_direction': 'right "
                         "looking', 'processing_level': 'level 1.1', 'processing_option': 'not specified', "
                         "'map_projection': 'not specified', 'orbit_direction': 'descending', "
                         "'ResamplingMethod': 'nearest-neighbor', 'UTM_ZoneNo': 53, 'MapDirection': "
                         "'MapNorth', 'OrbitDataPrecision': 'Precision', 'AttitudeDataPrecision': 'Onboard', "
                         "'PixelSpacing': 25.0}, data={}), 'image_information': "
                         "Group(path='summary/image_information', url=None, attrs={'SceneCenterDateTime': "
                         "'2019-10-11T14:43:15.525', 'SceneStartDateTime': '2019-10-11T14:42:49.525', "
                         "'ImageSceneCenterLatitude': 30.385, 'OffNadirAngle': 21.3}, data={}), "
                         "'product_information': Group(path='summary/product_information', url=None, "
                         "attrs={'ProductFormat': 'CEOS', 'BitPixel': 16, 'ProductDataSize': 798.2}, "
                         "data={'data_files': Group(path='summary/product_information/data_files', url=None, "
                         "attrs={'volume_directory': 'VOL-ALOS2290760600-191011-WWDR1.1__D', 'sar_leader': "
                         "'LED-ALOS2290760600-191011-WWDR1.1__D', 'sar_imagery': "
                         "['IMG-HH-ALOS2290760600-191011-WWDR1.1__D-F1', "
                         "'IMG-HV-ALOS2290760600-191011-WWDR1.1__D-F1'], 'sar_trailer': "
                         "'TRL-ALOS2290760600-191011-WWDR1.1__D'}, data={}), 'shapes': "
                         "Group(path='summary/product_information/shapes', url=None, attrs={'1': (9196, 60568, "
                         "), '2': (8722, 75710, )}, data={})}), 'autocheck': Group(path='summary/autocheck', "
                         "url=None, attrs={'TimeCheck': 'GOOD', 'AttitudeCheck': 'N/A'}, data={}), "
                         "'result_information': Group(path='summary/result_information', url=None, "
                         "attrs={'PracticeResultCode': 'GOOD'}, data={}), 'label_information': "
                         "Group(path='summary/label_information', url=None, attrs={'Satellite': 'ALOS2', "
                         "'ObservationDate': '2019-10-11', 'ProcessFacility': 'spacecraft control mission "
                         "operation system'}, data={})})"}
        ),
        'short': (
            {'returned': "Group(path='summary', url=None, attrs={}, data={'scene_specification': "
                         "Group(path='summary/scene_specification', url=None, attrs={'SceneShift': 3}, "
                         "data={}), 'label_information': Group(path='summary/label_information', url=None, "
                         "attrs={'ProcessLevel': '1.1'}, data={})})"}
        ),
        'empty': (
            {'returned': "Group(path='summary', url=None, attrs={}, data={})"}
        ),
        'bom': (
            {'raised': "builtins.ExceptionGroup('failed to parse the summary', [ValueError('line 00: invalid "
                       "line')]) message='failed to parse the summary' exceptions=[builtins.ValueError('line "
                       "00: invalid line',) suppress_context=False cause=(None) context=(None)] "
                       'suppress_context=False cause=(None) context=(None)'}
        ),
        'not-utf8': (
            {'raised': 'builtins.UnicodeDecodeError(\'utf-8\', b\'Lbi_ProcessFacility="\\xff\\xfe"\\n\', 21, '
                       "22, 'invalid start byte') suppress_context=False cause=(None) context=(None)"}
        ),
        'utf8': (
            {'returned': "Group(path='summary', url=None, attrs={}, data={'label_information': "
                         "Group(path='summary/label_information', url=None, attrs={'Satellite': 'ALÖS2'}, "
                         'data={})})'}
        ),
        'latin1': (
            {'raised': 'builtins.UnicodeDecodeError(\'utf-8\', b\'Lbi_Satellite="AL\\xd6S2"\\n\', 17, 18, '
                       "'invalid continuation byte') suppress_context=False cause=(None) context=(None)"}
        ),
        'invalid-lines': (
            {'raised': "builtins.ExceptionGroup('failed to parse the summary', [ValueError('line 01: invalid "
                       "line'), ValueError('line 03: invalid line'), ValueError('line 04: invalid line')]) "
                       "message='failed to parse the summary' exceptions=[builtins.ValueError('line 01: "
                       "invalid line',) suppress_context=False cause=(None) context=(None), "
                       "builtins.ValueError('line 03: invalid line',) suppress_context=False cause=(None) "
                       "context=(None), builtins.ValueError('line 04: invalid line',) suppress_context=False "
                       'cause=(None) context=(None)] suppress_context=False cause=(None) context=(None)'}
        ),
        'bad-int': (
            {'raised': 'builtins.ValueError("invalid literal for int() with base 10: \'three\'",) '
                       'suppress_context=False cause=(None) context=(None)'}
        ),
        'bad-scene-id': (
            {'raised': "builtins.ValueError('invalid scene id: garbage',) suppress_context=False cause=(None) "
                       'context=(None)'}
        ),
        'too-few-files': (
            {'raised': "builtins.ValueError('not enough values to unpack (expected at least 3, got 2)',) "
                       'suppress_context=False cause=(None) context=(None)'}
        ),
        'unknown-section': (
            {'returned': "Group(path='summary', url=None, attrs={}, data={'xyz': {'Key': 'value'}})"}
        ),
        'unknown-facility': (
            {'raised': 'builtins.ValueError("invalid code \'NOPE\'",) suppress_context=False cause=(None) '
                       'context=(None)'}
        ),
        "path:'summary.txt'": (
            {'returned': "Group(path='summary', url=None, attrs={}, data={'scene_specification': "
                         "Group(path='summary/scene_specification', url=None, attrs={'SceneShift': 3}, "
                         "data={}), 'label_information': Group(path='summary/label_information', url=None, "
                         "attrs={'ProcessLevel': '1.1'}, data={})})"}
        ),
        "path:'sub/summary.txt'": (
            {'returned': "Group(path='summary', url=None, attrs={}, data={})"}
        ),
        "path:'/summary.txt'": (
            {'raised': "builtins.OSError('Cannot find the summary file (`/summary.txt`). Make sure the dataset "
                       "at /eq2/paths is complete and in the JAXA CEOS format.',) errno=None filename=None "
                       "suppress_context=True cause=(builtins.KeyError('/summary.txt',) suppress_context=True "
                       "cause=(builtins.FileNotFoundError('/eq2/paths//summary.txt',) errno=None filename=None "
                       "suppress_context=True cause=(builtins.KeyError('/eq2/paths//summary.txt',) "
                       'suppress_context=False cause=(None) context=(None)) '
                       "context=(builtins.KeyError('/eq2/paths//summary.txt',) suppress_context=False "
                       'cause=(None) context=(None))) '
                       "context=(builtins.FileNotFoundError('/eq2/paths//summary.txt',) errno=None "
                       'filename=None suppress_context=True '
                       "cause=(builtins.KeyError('/eq2/paths//summary.txt',) suppress_context=False "
                       "cause=(None) context=(None)) context=(builtins.KeyError('/eq2/paths//summary.txt',) "
                       'suppress_context=False cause=(None) context=(None)))) '
                       "context=(builtins.KeyError('/summary.txt',) suppress_context=True "
                       "cause=(builtins.FileNotFoundError('/eq2/paths//summary.txt',) errno=None filename=None "
                       "suppress_context=True cause=(builtins.KeyError('/eq2/paths//summary.txt',) "
                       'suppress_context=False cause=(None) context=(None)) '
                       "context=(builtins.KeyError('/eq2/paths//summary.txt',) suppress_context=False "
                       'cause=(None) context=(None))) '
                       "context=(builtins.FileNotFoundError('/eq2/paths//summary.txt',) errno=None "
                       'filename=None suppress_context=True '
                       "cause=(builtins.KeyError('/eq2/paths//summary.txt',) suppress_context=False "
                       "cause=(None) context=(None)) context=(builtins.KeyError('/eq2/paths//summary.txt',) "
                       'suppress_context=False cause=(None) context=(None))))'}
        ),
        "path:'missing.txt'": (
            {'raised': "builtins.OSError('Cannot find the summary file (`missing.txt`). Make sure the dataset "
                       "at /eq2/paths is complete and in the JAXA CEOS format.',) errno=None filename=None "
                       "suppress_context=True cause=(builtins.KeyError('missing.txt',) suppress_context=True "
                       "cause=(builtins.FileNotFoundError('/eq2/paths/missing.txt',) errno=None filename=None "
                       "suppress_context=True cause=(builtins.KeyError('/eq2/paths/missing.txt',) "
                       'suppress_context=False cause=(None) context=(None)) '
                       "context=(builtins.KeyError('/eq2/paths/missing.txt',) suppress_context=False "
                       'cause=(None) context=(None))) '
                       "context=(builtins.FileNotFoundError('/eq2/paths/missing.txt',) errno=None "
                       'filename=None suppress_context=True '
                       "cause=(builtins.KeyError('/eq2/paths/missing.txt',) suppress_context=False "
                       "cause=(None) context=(None)) context=(builtins.KeyError('/eq2/paths/missing.txt',) "
                       'suppress_context=False cause=(None) context=(None)))) '
                       "context=(builtins.KeyError('missing.txt',) suppress_context=True "
                       "cause=(builtins.FileNotFoundError('/eq2/paths/missing.txt',) errno=None filename=None "
                       "suppress_context=True cause=(builtins.KeyError('/eq2/paths/missing.txt',) "
                       'suppress_context=False cause=(None) context=(None)) '
                       "context=(builtins.KeyError('/eq2/paths/missing.txt',) suppress_context=False "
                       'cause=(None) context=(None))) '
                       "context=(builtins.FileNotFoundError('/eq2/paths/missing.txt',) errno=None "
                       'filename=None suppress_context=True '
                       "cause=(builtins.KeyError('/eq2/paths/missing.txt',) suppress_context=False "
                       "cause=(None) context=(None)) context=(builtins.KeyError('/eq2/paths/missing.txt',) "
                       'suppress_context=False cause=(None) context=(None))))'}
        ),
        "path:'sub/missing.txt'": (
            {'raised': "builtins.OSError('Cannot find the summary file (`sub/missing.txt`). Make sure the "
                       "dataset at /eq2/paths is complete and in the JAXA CEOS format.',) errno=None "
                       "filename=None suppress_context=True cause=(builtins.KeyError('sub/missing.txt',) "
                       "suppress_context=True cause=(builtins.FileNotFoundError('/eq2/paths/sub/missing.txt',) "
                       'errno=None filename=None suppress_context=True '
                       "cause=(builtins.KeyError('/eq2/paths/sub/missing.txt',) suppress_context=False "
                       "cause=(None) context=(None)) context=(builtins.KeyError('/eq2/paths/sub/missing.txt',) "
                       'suppress_context=False cause=(None) context=(None))) '
                       "context=(builtins.FileNotFoundError('/eq2/paths/sub/missing.txt',) errno=None "
                       'filename=None suppress_context=True '
                       "cause=(builtins.KeyError('/eq2/paths/sub/missing.txt',) suppress_context=False "
                       "cause=(None) context=(None)) context=(builtins.KeyError('/eq2/paths/sub/missing.txt',) "
                       'suppress_context=False cause=(None) context=(None)))) '
                       "context=(builtins.KeyError('sub/missing.txt',) suppress_context=True "
                       "cause=(builtins.FileNotFoundError('/eq2/paths/sub/missing.txt',) errno=None "
                       'filename=None suppress_context=True '
                       "cause=(builtins.KeyError('/eq2/paths/sub/missing.txt',) suppress_context=False "
                       "cause=(None) context=(None)) context=(builtins.KeyError('/eq2/paths/sub/missing.txt',) "
                       'suppress_context=False cause=(None) context=(None))) '
                       "context=(builtins.FileNotFoundError('/eq2/paths/sub/missing.txt',) errno=None "
                       'filename=None suppress_context=True '
                       "cause=(builtins.KeyError('/eq2/paths/sub/missing.txt',) suppress_context=False "
                       "cause=(None) context=(None)) context=(builtins.KeyError('/eq2/paths/sub/missing.txt',) "
                       'suppress_context=False cause=(None) context=(None))))'}
        ),
        "path:'sub'": (
            {'raised': "builtins.OSError('Cannot find the summary file (`sub`). Make sure the dataset at "
                       "/eq2/paths is complete and in the JAXA CEOS format.',) errno=None filename=None "
                       "suppress_context=True cause=(builtins.KeyError('sub',) suppress_context=True "
                       "cause=(builtins.FileNotFoundError('/eq2/paths/sub',) errno=None filename=None "
                       "suppress_context=True cause=(builtins.KeyError('/eq2/paths/sub',) "
                       'suppress_context=False cause=(None) context=(None)) '
                       "context=(builtins.KeyError('/eq2/paths/sub',) suppress_context=False cause=(None) "
                       "context=(None))) context=(builtins.FileNotFoundError('/eq2/paths/sub',) errno=None "
                       "filename=None suppress_context=True cause=(builtins.KeyError('/eq2/paths/sub',) "
                       'suppress_context=False cause=(None) context=(None)) '
                       "context=(builtins.KeyError('/eq2/paths/sub',) suppress_context=False cause=(None) "
                       "context=(None)))) context=(builtins.KeyError('sub',) suppress_context=True "
                       "cause=(builtins.FileNotFoundError('/eq2/paths/sub',) errno=None filename=None "
                       "suppress_context=True cause=(builtins.KeyError('/eq2/paths/sub',) "
                       'suppress_context=False cause=(None) context=(None)) '
                       "context=(builtins.KeyError('/eq2/paths/sub',) suppress_context=False cause=(None) "
                       "context=(None))) context=(builtins.FileNotFoundError('/eq2/paths/sub',) errno=None "
                       "filename=None suppress_context=True cause=(builtins.KeyError('/eq2/paths/sub',) "
                       'suppress_context=False cause=(None) context=(None)) '
                       "context=(builtins.KeyError('/eq2/paths/sub',) suppress_context=False cause=(None) "
                       'context=(None))))'}
        ),
        "path:''": (
            {'raised': "builtins.OSError('Cannot find the summary file (``). Make sure the dataset at "
                       "/eq2/paths is complete and in the JAXA CEOS format.',) errno=None filename=None "
                       "suppress_context=True cause=(builtins.KeyError('',) suppress_context=True "
                       "cause=(builtins.FileNotFoundError('/eq2/paths',) errno=None filename=None "
                       "suppress_context=True cause=(builtins.KeyError('/eq2/paths',) suppress_context=False "
                       "cause=(None) context=(None)) context=(builtins.KeyError('/eq2/paths',) "
                       'suppress_context=False cause=(None) context=(None))) '
                       "context=(builtins.FileNotFoundError('/eq2/paths',) errno=None filename=None "
                       "suppress_context=True cause=(builtins.KeyError('/eq2/paths',) suppress_context=False "
                       "cause=(None) context=(None)) context=(builtins.KeyError('/eq2/paths',) "
                       "suppress_context=False cause=(None) context=(None)))) context=(builtins.KeyError('',) "
                       "suppress_context=True cause=(builtins.FileNotFoundError('/eq2/paths',) errno=None "
                       "filename=None suppress_context=True cause=(builtins.KeyError('/eq2/paths',) "
                       'suppress_context=False cause=(None) context=(None)) '
                       "context=(builtins.KeyError('/eq2/paths',) suppress_context=False cause=(None) "
                       "context=(None))) context=(builtins.FileNotFoundError('/eq2/paths',) errno=None "
                       "filename=None suppress_context=True cause=(builtins.KeyError('/eq2/paths',) "
                       'suppress_context=False cause=(None) context=(None)) '
                       "context=(builtins.KeyError('/eq2/paths',) suppress_context=False cause=(None) "
                       'context=(None))))'}
        ),
        "path:'SUMMARY.TXT'": (
            {'raised': "builtins.OSError('Cannot find the summary file (`SUMMARY.TXT`). Make sure the dataset "
                       "at /eq2/paths is complete and in the JAXA CEOS format.',) errno=None filename=None "
                       "suppress_context=True cause=(builtins.KeyError('SUMMARY.TXT',) suppress_context=True "
                       "cause=(builtins.FileNotFoundError('/eq2/paths/SUMMARY.TXT',) errno=None filename=None "
                       "suppress_context=True cause=(builtins.KeyError('/eq2/paths/SUMMARY.TXT',) "
                       'suppress_context=False cause=(None) context=(None)) '
                       "context=(builtins.KeyError('/eq2/paths/SUMMARY.TXT',) suppress_context=False "
                       'cause=(None) context=(None))) '
                       "context=(builtins.FileNotFoundError('/eq2/paths/SUMMARY.TXT',) errno=None "
                       'filename=None suppress_context=True '
                       "cause=(builtins.KeyError('/eq2/paths/SUMMARY.TXT',) suppress_context=False "
                       "cause=(None) context=(None)) context=(builtins.KeyError('/eq2/paths/SUMMARY.TXT',) "
                       'suppress_context=False cause=(None) context=(None)))) '
                       "context=(builtins.KeyError('SUMMARY.TXT',) suppress_context=True "
                       "cause=(builtins.FileNotFoundError('/eq2/paths/SUMMARY.TXT',) errno=None filename=None "
                       "suppress_context=True cause=(builtins.KeyError('/eq2/paths/SUMMARY.TXT',) "
                       'suppress_context=False cause=(None) context=(None)) '
                       "context=(builtins.KeyError('/eq2/paths/SUMMARY.TXT',) suppress_context=False "
                       'cause=(None) context=(None))) '
                       "context=(builtins.FileNotFoundError('/eq2/paths/SUMMARY.TXT',) errno=None "
                       'filename=None suppress_context=True '
                       "cause=(builtins.KeyError('/eq2/paths/SUMMARY.TXT',) suppress_context=False "
                       "cause=(None) context=(None)) context=(builtins.KeyError('/eq2/paths/SUMMARY.TXT',) "
                       'suppress_context=False cause=(None) context=(None))))'}
        ),
        "path:'{path}'": (
            {'raised': "builtins.OSError('Cannot find the summary file (`{path}`). Make sure the dataset at "
                       "/eq2/paths is complete and in the JAXA CEOS format.',) errno=None filename=None "
                       "suppress_context=True cause=(builtins.KeyError('{path}',) suppress_context=True "
                       "cause=(builtins.FileNotFoundError('/eq2/paths/{path}',) errno=None filename=None "
                       "suppress_context=True cause=(builtins.KeyError('/eq2/paths/{path}',) "
                       'suppress_context=False cause=(None) context=(None)) '
                       "context=(builtins.KeyError('/eq2/paths/{path}',) suppress_context=False cause=(None) "
                       "context=(None))) context=(builtins.FileNotFoundError('/eq2/paths/{path}',) errno=None "
                       "filename=None suppress_context=True cause=(builtins.KeyError('/eq2/paths/{path}',) "
                       'suppress_context=False cause=(None) context=(None)) '
                       "context=(builtins.KeyError('/eq2/paths/{path}',) suppress_context=False cause=(None) "
                       "context=(None)))) context=(builtins.KeyError('{path}',) suppress_context=True "
                       "cause=(builtins.FileNotFoundError('/eq2/paths/{path}',) errno=None filename=None "
                       "suppress_context=True cause=(builtins.KeyError('/eq2/paths/{path}',) "
                       'suppress_context=False cause=(None) context=(None)) '
                       "context=(builtins.KeyError('/eq2/paths/{path}',) suppress_context=False cause=(None) "
                       "context=(None))) context=(builtins.FileNotFoundError('/eq2/paths/{path}',) errno=None "
                       "filename=None suppress_context=True cause=(builtins.KeyError('/eq2/paths/{path}',) "
                       'suppress_context=False cause=(None) context=(None)) '
                       "context=(builtins.KeyError('/eq2/paths/{path}',) suppress_context=False cause=(None) "
                       'context=(None))))'}
        ),
        "path:'{root} {0} {} %s %(path)s'": (
            {'raised': "builtins.OSError('Cannot find the summary file (`{root} {0} {} %s %(path)s`). Make "
                       "sure the dataset at /eq2/paths is complete and in the JAXA CEOS format.',) errno=None "
                       "filename=None suppress_context=True cause=(builtins.KeyError('{root} {0} {} %s "
                       "%(path)s',) suppress_context=True cause=(builtins.FileNotFoundError('/eq2/paths/{root} "
                       "{0} {} %s %(path)s',) errno=None filename=None suppress_context=True "
                       "cause=(builtins.KeyError('/eq2/paths/{root} {0} {} %s %(path)s',) "
                       'suppress_context=False cause=(None) context=(None)) '
                       "context=(builtins.KeyError('/eq2/paths/{root} {0} {} %s %(path)s',) "
                       'suppress_context=False cause=(None) context=(None))) '
                       "context=(builtins.FileNotFoundError('/eq2/paths/{root} {0} {} %s %(path)s',) "
                       'errno=None filename=None suppress_context=True '
                       "cause=(builtins.KeyError('/eq2/paths/{root} {0} {} %s %(path)s',) "
                       'suppress_context=False cause=(None) context=(None)) '
                       "context=(builtins.KeyError('/eq2/paths/{root} {0} {} %s %(path)s',) "
                       'suppress_context=False cause=(None) context=(None)))) '
                       "context=(builtins.KeyError('{root} {0} {} %s %(path)s',) suppress_context=True "
                       "cause=(builtins.FileNotFoundError('/eq2/paths/{root} {0} {} %s %(path)s',) errno=None "
                       "filename=None suppress_context=True cause=(builtins.KeyError('/eq2/paths/{root} {0} {} "
                       "%s %(path)s',) suppress_context=False cause=(None) context=(None)) "
                       "context=(builtins.KeyError('/eq2/paths/{root} {0} {} %s %(path)s',) "
                       'suppress_context=False cause=(None) context=(None))) '
                       "context=(builtins.FileNotFoundError('/eq2/paths/{root} {0} {} %s %(path)s',) "
                       'errno=None filename=None suppress_context=True '
                       "cause=(builtins.KeyError('/eq2/paths/{root} {0} {} %s %(path)s',) "
                       'suppress_context=False cause=(None) context=(None)) '
                       "context=(builtins.KeyError('/eq2/paths/{root} {0} {} %s %(path)s',) "
                       'suppress_context=False cause=(None) context=(None))))'}
        ),
        "path:'`quoted`'": (
            {'raised': "builtins.OSError('Cannot find the summary file (``quoted``). Make sure the dataset at "
                       "/eq2/paths is complete and in the JAXA CEOS format.',) errno=None filename=None "
                       "suppress_context=True cause=(builtins.KeyError('`quoted`',) suppress_context=True "
                       "cause=(builtins.FileNotFoundError('/eq2/paths/`quoted`',) errno=None filename=None "
                       "suppress_context=True cause=(builtins.KeyError('/eq2/paths/`quoted`',) "
                       'suppress_context=False cause=(None) context=(None)) '
                       "context=(builtins.KeyError('/eq2/paths/`quoted`',) suppress_context=False cause=(None) "
                       "context=(None))) context=(builtins.FileNotFoundError('/eq2/paths/`quoted`',) "
                       'errno=None filename=None suppress_context=True '
                       "cause=(builtins.KeyError('/eq2/paths/`quoted`',) suppress_context=False cause=(None) "
                       "context=(None)) context=(builtins.KeyError('/eq2/paths/`quoted`',) "
                       'suppress_context=False cause=(None) context=(None)))) '
                       "context=(builtins.KeyError('`quoted`',) suppress_context=True "
                       "cause=(builtins.FileNotFoundError('/eq2/paths/`quoted`',) errno=None filename=None "
                       "suppress_context=True cause=(builtins.KeyError('/eq2/paths/`quoted`',) "
                       'suppress_context=False cause=(None) context=(None)) '
                       "context=(builtins.KeyError('/eq2/paths/`quoted`',) suppress_context=False cause=(None) "
                       "context=(None))) context=(builtins.FileNotFoundError('/eq2/paths/`quoted`',) "
                       'errno=None filename=None suppress_context=True '
                       "cause=(builtins.KeyError('/eq2/paths/`quoted`',) suppress_context=False cause=(None) "
                       "context=(None)) context=(builtins.KeyError('/eq2/paths/`quoted`',) "
                       'suppress_context=False cause=(None) context=(None))))'}
        ),
        "path:'ünicode.txt'": (
            {'raised': "builtins.OSError('Cannot find the summary file (`ünicode.txt`). Make sure the dataset "
                       "at /eq2/paths is complete and in the JAXA CEOS format.',) errno=None filename=None "
                       "suppress_context=True cause=(builtins.KeyError('ünicode.txt',) suppress_context=True "
                       "cause=(builtins.FileNotFoundError('/eq2/paths/ünicode.txt',) errno=None filename=None "
                       "suppress_context=True cause=(builtins.KeyError('/eq2/paths/ünicode.txt',) "
                       'suppress_context=False cause=(None) context=(None)) '
                       "context=(builtins.KeyError('/eq2/paths/ünicode.txt',) suppress_context=False "
                       'cause=(None) context=(None))) '
                       "context=(builtins.FileNotFoundError('/eq2/paths/ünicode.txt',) errno=None "
                       'filename=None suppress_context=True '
                       "cause=(builtins.KeyError('/eq2/paths/ünicode.txt',) suppress_context=False "
                       "cause=(None) context=(None)) context=(builtins.KeyError('/eq2/paths/ünicode.txt',) "
                       'suppress_context=False cause=(None) context=(None)))) '
                       "context=(builtins.KeyError('ünicode.txt',) suppress_context=True "
                       "cause=(builtins.FileNotFoundError('/eq2/paths/ünicode.txt',) errno=None filename=None "
                       "suppress_context=True cause=(builtins.KeyError('/eq2/paths/ünicode.txt',) "
                       'suppress_context=False cause=(None) context=(None)) '
                       "context=(builtins.KeyError('/eq2/paths/ünicode.txt',) suppress_context=False "
                       'cause=(None) context=(None))) '
                       "context=(builtins.FileNotFoundError('/eq2/paths/ünicode.txt',) errno=None "
                       'filename=None suppress_context=True '
                       "cause=(builtins.KeyError('/eq2/paths/ünicode.txt',) suppress_context=False "
                       "cause=(None) context=(None)) context=(builtins.KeyError('/eq2/paths/ünicode.txt',) "
                       'suppress_context=False cause=(None) context=(None))))'}
        ),
        "path:'with\\nnewline'": (
            {'raised': "builtins.OSError('Cannot find the summary file (`with\\nnewline`). Make sure the "
                       "dataset at /eq2/paths is complete and in the JAXA CEOS format.',) errno=None "
                       "filename=None suppress_context=True cause=(builtins.KeyError('with\\nnewline',) "
                       "suppress_context=True cause=(builtins.FileNotFoundError('/eq2/paths/with\\nnewline',) "
                       'errno=None filename=None suppress_context=True '
                       "cause=(builtins.KeyError('/eq2/paths/with\\nnewline',) suppress_context=False "
                       "cause=(None) context=(None)) context=(builtins.KeyError('/eq2/paths/with\\nnewline',) "
                       'suppress_context=False cause=(None) context=(None))) '
                       "context=(builtins.FileNotFoundError('/eq2/paths/with\\nnewline',) errno=None "
                       'filename=None suppress_context=True '
                       "cause=(builtins.KeyError('/eq2/paths/with\\nnewline',) suppress_context=False "
                       "cause=(None) context=(None)) context=(builtins.KeyError('/eq2/paths/with\\nnewline',) "
                       'suppress_context=False cause=(None) context=(None)))) '
                       "context=(builtins.KeyError('with\\nnewline',) suppress_context=True "
                       "cause=(builtins.FileNotFoundError('/eq2/paths/with\\nnewline',) errno=None "
                       'filename=None suppress_context=True '
                       "cause=(builtins.KeyError('/eq2/paths/with\\nnewline',) suppress_context=False "
                       "cause=(None) context=(None)) context=(builtins.KeyError('/eq2/paths/with\\nnewline',) "
                       'suppress_context=False cause=(None) context=(None))) '
                       "context=(builtins.FileNotFoundError('/eq2/paths/with\\nnewline',) errno=None "
                       'filename=None suppress_context=True '
                       "cause=(builtins.KeyError('/eq2/paths/with\\nnewline',) suppress_context=False "
                       "cause=(None) context=(None)) context=(builtins.KeyError('/eq2/paths/with\\nnewline',) "
                       'suppress_context=False cause=(None) context=(None))))'}
        ),
        "root:'/eq2/empty-root'": (
            {'raised': "builtins.OSError('Cannot find the summary file (`summary.txt`). Make sure the dataset "
                       "at /eq2/empty-root is complete and in the JAXA CEOS format.',) errno=None "
                       "filename=None suppress_context=True cause=(builtins.KeyError('summary.txt',) "
                       'suppress_context=True '
                       "cause=(builtins.FileNotFoundError('/eq2/empty-root/summary.txt',) errno=None "
                       'filename=None suppress_context=True '
                       "cause=(builtins.KeyError('/eq2/empty-root/summary.txt',) suppress_context=False "
                       'cause=(None) context=(None)) '
                       "context=(builtins.KeyError('/eq2/empty-root/summary.txt',) suppress_context=False "
                       'cause=(None) context=(None))) '
                       "context=(builtins.FileNotFoundError('/eq2/empty-root/summary.txt',) errno=None "
                       'filename=None suppress_context=True '
                       "cause=(builtins.KeyError('/eq2/empty-root/summary.txt',) suppress_context=False "
                       'cause=(None) context=(None)) '
                       "context=(builtins.KeyError('/eq2/empty-root/summary.txt',) suppress_context=False "
                       "cause=(None) context=(None)))) context=(builtins.KeyError('summary.txt',) "
                       'suppress_context=True '
                       "cause=(builtins.FileNotFoundError('/eq2/empty-root/summary.txt',) errno=None "
                       'filename=None suppress_context=True '
                       "cause=(builtins.KeyError('/eq2/empty-root/summary.txt',) suppress_context=False "
                       'cause=(None) context=(None)) '
                       "context=(builtins.KeyError('/eq2/empty-root/summary.txt',) suppress_context=False "
                       'cause=(None) context=(None))) '
                       "context=(builtins.FileNotFoundError('/eq2/empty-root/summary.txt',) errno=None "
                       'filename=None suppress_context=True '
                       "cause=(builtins.KeyError('/eq2/empty-root/summary.txt',) suppress_context=False "
                       'cause=(None) context=(None)) '
                       "context=(builtins.KeyError('/eq2/empty-root/summary.txt',) suppress_context=False "
                       'cause=(None) context=(None))))'}
        ),
        "root:'/eq2/{root}/{path}'": (
            {'raised': "builtins.OSError('Cannot find the summary file (`summary.txt`). Make sure the dataset "
                       "at /eq2/{root}/{path} is complete and in the JAXA CEOS format.',) errno=None "
                       "filename=None suppress_context=True cause=(builtins.KeyError('summary.txt',) "
                       'suppress_context=True '
                       "cause=(builtins.FileNotFoundError('/eq2/{root}/{path}/summary.txt',) errno=None "
                       'filename=None suppress_context=True '
                       "cause=(builtins.KeyError('/eq2/{root}/{path}/summary.txt',) suppress_context=False "
                       'cause=(None) context=(None)) '
                       "context=(builtins.KeyError('/eq2/{root}/{path}/summary.txt',) suppress_context=False "
                       'cause=(None) context=(None))) '
                       "context=(builtins.FileNotFoundError('/eq2/{root}/{path}/summary.txt',) errno=None "
                       'filename=None suppress_context=True '
                       "cause=(builtins.KeyError('/eq2/{root}/{path}/summary.txt',) suppress_context=False "
                       'cause=(None) context=(None)) '
                       "context=(builtins.KeyError('/eq2/{root}/{path}/summary.txt',) suppress_context=False "
                       "cause=(None) context=(None)))) context=(builtins.KeyError('summary.txt',) "
                       'suppress_context=True '
                       "cause=(builtins.FileNotFoundError('/eq2/{root}/{path}/summary.txt',) errno=None "
                       'filename=None suppress_context=True '
                       "cause=(builtins.KeyError('/eq2/{root}/{path}/summary.txt',) suppress_context=False "
                       'cause=(None) context=(None)) '
                       "context=(builtins.KeyError('/eq2/{root}/{path}/summary.txt',) suppress_context=False "
                       'cause=(None) context=(None))) '
                       "context=(builtins.FileNotFoundError('/eq2/{root}/{path}/summary.txt',) errno=None "
                       'filename=None suppress_context=True '
                       "cause=(builtins.KeyError('/eq2/{root}/{path}/summary.txt',) suppress_context=False "
                       'cause=(None) context=(None)) '
                       "context=(builtins.KeyError('/eq2/{root}/{path}/summary.txt',) suppress_context=False "
                       'cause=(None) context=(None))))'}
        ),
        "root:'/eq2/{0} %s'": (
            {'raised': "builtins.OSError('Cannot find the summary file (`summary.txt`). Make sure the dataset "
                       "at /eq2/{0} %s is complete and in the JAXA CEOS format.',) errno=None filename=None "
                       "suppress_context=True cause=(builtins.KeyError('summary.txt',) suppress_context=True "
                       "cause=(builtins.FileNotFoundError('/eq2/{0} %s/summary.txt',) errno=None filename=None "
                       "suppress_context=True cause=(builtins.KeyError('/eq2/{0} %s/summary.txt',) "
                       'suppress_context=False cause=(None) context=(None)) '
                       "context=(builtins.KeyError('/eq2/{0} %s/summary.txt',) suppress_context=False "
                       "cause=(None) context=(None))) context=(builtins.FileNotFoundError('/eq2/{0} "
                       "%s/summary.txt',) errno=None filename=None suppress_context=True "
                       "cause=(builtins.KeyError('/eq2/{0} %s/summary.txt',) suppress_context=False "
                       "cause=(None) context=(None)) context=(builtins.KeyError('/eq2/{0} %s/summary.txt',) "
                       'suppress_context=False cause=(None) context=(None)))) '
                       "context=(builtins.KeyError('summary.txt',) suppress_context=True "
                       "cause=(builtins.FileNotFoundError('/eq2/{0} %s/summary.txt',) errno=None filename=None "
                       "suppress_context=True cause=(builtins.KeyError('/eq2/{0} %s/summary.txt',) "
                       'suppress_context=False cause=(None) context=(None)) '
                       "context=(builtins.KeyError('/eq2/{0} %s/summary.txt',) suppress_context=False "
                       "cause=(None) context=(None))) context=(builtins.FileNotFoundError('/eq2/{0} "
                       "%s/summary.txt',) errno=None filename=None suppress_context=True "
                       "cause=(builtins.KeyError('/eq2/{0} %s/summary.txt',) suppress_context=False "
                       "cause=(None) context=(None)) context=(builtins.KeyError('/eq2/{0} %s/summary.txt',) "
                       'suppress_context=False cause=(None) context=(None))))'}
        ),
        'path:1': (
            {'returned': "Group(path='summary', url=None, attrs={}, data={'scene_specification': "
                         "Group(path='summary/scene_specification', url=None, attrs={'SceneShift': 3}, "
                         "data={}), 'label_information': Group(path='summary/label_information', url=None, "
                         "attrs={'ProcessLevel': '1.1'}, data={})})"}
        ),
        'path:None': (
            {'raised': "builtins.OSError('Cannot find the summary file (`None`). Make sure the dataset at "
                       "/eq2/nonstring is complete and in the JAXA CEOS format.',) errno=None filename=None "
                       'suppress_context=True cause=(builtins.KeyError(None,) suppress_context=True '
                       "cause=(builtins.FileNotFoundError('/eq2/nonstring/None',) errno=None filename=None "
                       "suppress_context=True cause=(builtins.KeyError('/eq2/nonstring/None',) "
                       'suppress_context=False cause=(None) context=(None)) '
                       "context=(builtins.KeyError('/eq2/nonstring/None',) suppress_context=False cause=(None) "
                       "context=(None))) context=(builtins.FileNotFoundError('/eq2/nonstring/None',) "
                       'errno=None filename=None suppress_context=True '
                       "cause=(builtins.KeyError('/eq2/nonstring/None',) suppress_context=False cause=(None) "
                       "context=(None)) context=(builtins.KeyError('/eq2/nonstring/None',) "
                       'suppress_context=False cause=(None) context=(None)))) '
                       'context=(builtins.KeyError(None,) suppress_context=True '
                       "cause=(builtins.FileNotFoundError('/eq2/nonstring/None',) errno=None filename=None "
                       "suppress_context=True cause=(builtins.KeyError('/eq2/nonstring/None',) "
                       'suppress_context=False cause=(None) context=(None)) '
                       "context=(builtins.KeyError('/eq2/nonstring/None',) suppress_context=False cause=(None) "
                       "context=(None))) context=(builtins.FileNotFoundError('/eq2/nonstring/None',) "
                       'errno=None filename=None suppress_context=True '
                       "cause=(builtins.KeyError('/eq2/nonstring/None',) suppress_context=False cause=(None) "
                       "context=(None)) context=(builtins.KeyError('/eq2/nonstring/None',) "
                       'suppress_context=False cause=(None) context=(None))))'}
        ),
        "path:b'summary.txt'": (
            {'raised': 'builtins.OSError("Cannot find the summary file (`b\'summary.txt\'`). Make sure the '
                       'dataset at /eq2/nonstring is complete and in the JAXA CEOS format.",) errno=None '
                       "filename=None suppress_context=True cause=(builtins.KeyError(b'summary.txt',) "
                       'suppress_context=True '
                       'cause=(builtins.FileNotFoundError("/eq2/nonstring/b\'summary.txt\'",) errno=None '
                       'filename=None suppress_context=True '
                       'cause=(builtins.KeyError("/eq2/nonstring/b\'summary.txt\'",) suppress_context=False '
                       'cause=(None) context=(None)) '
                       'context=(builtins.KeyError("/eq2/nonstring/b\'summary.txt\'",) suppress_context=False '
                       'cause=(None) context=(None))) '
                       'context=(builtins.FileNotFoundError("/eq2/nonstring/b\'summary.txt\'",) errno=None '
                       'filename=None suppress_context=True '
                       'cause=(builtins.KeyError("/eq2/nonstring/b\'summary.txt\'",) suppress_context=False '
                       'cause=(None) context=(None)) '
                       'context=(builtins.KeyError("/eq2/nonstring/b\'summary.txt\'",) suppress_context=False '
                       "cause=(None) context=(None)))) context=(builtins.KeyError(b'summary.txt',) "
                       'suppress_context=True '
                       'cause=(builtins.FileNotFoundError("/eq2/nonstring/b\'summary.txt\'",) errno=None '
                       'filename=None suppress_context=True '
                       'cause=(builtins.KeyError("/eq2/nonstring/b\'summary.txt\'",) suppress_context=False '
                       'cause=(None) context=(None)) '
                       'context=(builtins.KeyError("/eq2/nonstring/b\'summary.txt\'",) suppress_context=False '
                       'cause=(None) context=(None))) '
                       'context=(builtins.FileNotFoundError("/eq2/nonstring/b\'summary.txt\'",) errno=None '
                       'filename=None suppress_context=True '
                       'cause=(builtins.KeyError("/eq2/nonstring/b\'summary.txt\'",) suppress_context=False '
                       'cause=(None) context=(None)) '
                       'context=(builtins.KeyError("/eq2/nonstring/b\'summary.txt\'",) suppress_context=False '
                       'cause=(None) context=(None))))'}
        ),
        "path:('summary.txt',)": (
            {'raised': 'builtins.OSError("Cannot find the summary file (`(\'summary.txt\',)`). Make sure the '
                       'dataset at /eq2/nonstring is complete and in the JAXA CEOS format.",) errno=None '
                       "filename=None suppress_context=True cause=(builtins.KeyError(('summary.txt',),) "
                       'suppress_context=True '
                       'cause=(builtins.FileNotFoundError("/eq2/nonstring/(\'summary.txt\',)",) errno=None '
                       'filename=None suppress_context=True '
                       'cause=(builtins.KeyError("/eq2/nonstring/(\'summary.txt\',)",) suppress_context=False '
                       'cause=(None) context=(None)) '
                       'context=(builtins.KeyError("/eq2/nonstring/(\'summary.txt\',)",) '
                       'suppress_context=False cause=(None) context=(None))) '
                       'context=(builtins.FileNotFoundError("/eq2/nonstring/(\'summary.txt\',)",) errno=None '
                       'filename=None suppress_context=True '
                       'cause=(builtins.KeyError("/eq2/nonstring/(\'summary.txt\',)",) suppress_context=False '
                       'cause=(None) context=(None)) '
                       'context=(builtins.KeyError("/eq2/nonstring/(\'summary.txt\',)",) '
                       'suppress_context=False cause=(None) context=(None)))) '
                       "context=(builtins.KeyError(('summary.txt',),) suppress_context=True "
                       'cause=(builtins.FileNotFoundError("/eq2/nonstring/(\'summary.txt\',)",) errno=None '
                       'filename=None suppress_context=True '
                       'cause=(builtins.KeyError("/eq2/nonstring/(\'summary.txt\',)",) suppress_context=False '
                       'cause=(None) context=(None)) '
                       'context=(builtins.KeyError("/eq2/nonstring/(\'summary.txt\',)",) '
                       'suppress_context=False cause=(None) context=(None))) '
                       'context=(builtins.FileNotFoundError("/eq2/nonstring/(\'summary.txt\',)",) errno=None '
                       'filename=None suppress_context=True '
                       'cause=(builtins.KeyError("/eq2/nonstring/(\'summary.txt\',)",) suppress_context=False '
                       'cause=(None) context=(None)) '
                       'context=(builtins.KeyError("/eq2/nonstring/(\'summary.txt\',)",) '
                       'suppress_context=False cause=(None) context=(None))))'}
        ),
        'path:1.5': (
            {'raised': "builtins.OSError('Cannot find the summary file (`1.5`). Make sure the dataset at "
                       "/eq2/nonstring is complete and in the JAXA CEOS format.',) errno=None filename=None "
                       'suppress_context=True cause=(builtins.KeyError(1.5,) suppress_context=True '
                       "cause=(builtins.FileNotFoundError('/eq2/nonstring/1.5',) errno=None filename=None "
                       "suppress_context=True cause=(builtins.KeyError('/eq2/nonstring/1.5',) "
                       'suppress_context=False cause=(None) context=(None)) '
                       "context=(builtins.KeyError('/eq2/nonstring/1.5',) suppress_context=False cause=(None) "
                       "context=(None))) context=(builtins.FileNotFoundError('/eq2/nonstring/1.5',) errno=None "
                       "filename=None suppress_context=True cause=(builtins.KeyError('/eq2/nonstring/1.5',) "
                       'suppress_context=False cause=(None) context=(None)) '
                       "context=(builtins.KeyError('/eq2/nonstring/1.5',) suppress_context=False cause=(None) "
                       'context=(None)))) context=(builtins.KeyError(1.5,) suppress_context=True '
                       "cause=(builtins.FileNotFoundError('/eq2/nonstring/1.5',) errno=None filename=None "
                       "suppress_context=True cause=(builtins.KeyError('/eq2/nonstring/1.5',) "
                       'suppress_context=False cause=(None) context=(None)) '
                       "context=(builtins.KeyError('/eq2/nonstring/1.5',) suppress_context=False cause=(None) "
                       "context=(None))) context=(builtins.FileNotFoundError('/eq2/nonstring/1.5',) errno=None "
                       "filename=None suppress_context=True cause=(builtins.KeyError('/eq2/nonstring/1.5',) "
                       'suppress_context=False cause=(None) context=(None)) '
                       "context=(builtins.KeyError('/eq2/nonstring/1.5',) suppress_context=False cause=(None) "
                       'context=(None))))'}
        ),
    },
    'recording': {
        'found': (
            {'returned': "Group(path='summary', url=None, attrs={}, data={'scene_specification': "
                         "Group(path='summary/scene_specification', url=None, attrs={'SceneShift': 3}, "
                         "data={}), 'label_information': Group(path='summary/label_information', url=None, "
                         "attrs={'ProcessLevel': '1.1'}, data={})})",
             'events': [('__getitem__', "str:'summary.txt'"), ('decode', (), {})]}
        ),
        'missing': (
            {'raised': "builtins.OSError('Cannot find the summary file (`other.txt`). Make sure the dataset at "
                       "<the root> is complete and in the JAXA CEOS format.',) errno=None filename=None "
                       "suppress_context=True cause=(builtins.KeyError('other.txt',) suppress_context=False "
                       "cause=(None) context=(builtins.KeyError('other.txt',) suppress_context=False "
                       "cause=(None) context=(None))) context=(builtins.KeyError('other.txt',) "
                       "suppress_context=False cause=(None) context=(builtins.KeyError('other.txt',) "
                       'suppress_context=False cause=(None) context=(None)))',
             'cause-is-raised': [False, True, False],
             'events': [('__getitem__', "str:'other.txt'"), ('root',), ('root.__format__', '')]}
        ),
        'missing-custom-path': (
            {'raised': "builtins.OSError('Cannot find the summary file (`summary.txt`). Make sure the dataset "
                       "at <the root> is complete and in the JAXA CEOS format.',) errno=None filename=None "
                       "suppress_context=True cause=(builtins.KeyError('summary.txt',) suppress_context=False "
                       "cause=(None) context=(builtins.KeyError('summary.txt',) suppress_context=False "
                       "cause=(None) context=(None))) context=(builtins.KeyError('summary.txt',) "
                       "suppress_context=False cause=(None) context=(builtins.KeyError('summary.txt',) "
                       'suppress_context=False cause=(None) context=(None)))',
             'cause-is-raised': [False, True, False],
             'events': [('__getitem__', "Path:'summary.txt'"),
                        ('path.__format__', ''),
                        ('path.__str__',),
                        ('root',),
                        ('root.__format__', '')]}
        ),
        'missing-str-root': (
            {'raised': "builtins.OSError('Cannot find the summary file (`summary.txt`). Make sure the dataset "
                       "at s3://bucket/product is complete and in the JAXA CEOS format.',) errno=None "
                       "filename=None suppress_context=True cause=(builtins.KeyError('summary.txt',) "
                       "suppress_context=False cause=(None) context=(builtins.KeyError('summary.txt',) "
                       'suppress_context=False cause=(None) context=(None))) '
                       "context=(builtins.KeyError('summary.txt',) suppress_context=False cause=(None) "
                       "context=(builtins.KeyError('summary.txt',) suppress_context=False cause=(None) "
                       'context=(None)))',
             'cause-is-raised': [False, True, False],
             'events': [('__getitem__', "str:'summary.txt'"), ('root',)]}
        ),
        'missing-tuple-root': (
            {'raised': 'builtins.OSError("Cannot find the summary file (`summary.txt`). Make sure the dataset '
                       'at (\'a\', 1) is complete and in the JAXA CEOS format.",) errno=None filename=None '
                       "suppress_context=True cause=(builtins.KeyError('summary.txt',) suppress_context=False "
                       "cause=(None) context=(builtins.KeyError('summary.txt',) suppress_context=False "
                       "cause=(None) context=(None))) context=(builtins.KeyError('summary.txt',) "
                       "suppress_context=False cause=(None) context=(builtins.KeyError('summary.txt',) "
                       'suppress_context=False cause=(None) context=(None)))',
             'cause-is-raised': [False, True, False],
             'events': [('__getitem__', "str:'summary.txt'"), ('root',)]}
        ),
        'missing-root-attribute-error': (
            {'raised': "builtins.AttributeError('root',) suppress_context=False cause=(None) "
                       "context=(builtins.KeyError('summary.txt',) suppress_context=False cause=(None) "
                       "context=(builtins.KeyError('summary.txt',) suppress_context=False cause=(None) "
                       'context=(None)))',
             'cause-is-raised': [False, True, False],
             'events': [('__getitem__', "str:'summary.txt'"), ('root',), ('__getattr__', 'root')]}
        ),
        'missing-root-runtime-error': (
            {'raised': "builtins.RuntimeError('root failed',) suppress_context=False cause=(None) "
                       "context=(builtins.KeyError('summary.txt',) suppress_context=False cause=(None) "
                       "context=(builtins.KeyError('summary.txt',) suppress_context=False cause=(None) "
                       'context=(None)))',
             'cause-is-raised': [True, True, False],
             'events': [('__getitem__', "str:'summary.txt'"), ('root',)]}
        ),
        'missing-root-key-error': (
            {'raised': "builtins.KeyError('root',) suppress_context=False cause=(None) "
                       "context=(builtins.KeyError('summary.txt',) suppress_context=False cause=(None) "
                       "context=(builtins.KeyError('summary.txt',) suppress_context=False cause=(None) "
                       'context=(None)))',
             'cause-is-raised': [True, True, False],
             'events': [('__getitem__', "str:'summary.txt'"), ('root',)]}
        ),
        'getitem-custom-key-error': (
            {'raised': "builtins.OSError('Cannot find the summary file (`summary.txt`). Make sure the dataset "
                       "at <the root> is complete and in the JAXA CEOS format.',) errno=None filename=None "
                       "suppress_context=True cause=(local.CustomKeyError('summary.txt', 'extra') "
                       'suppress_context=False cause=(None) context=(None)) '
                       "context=(local.CustomKeyError('summary.txt', 'extra') suppress_context=False "
                       'cause=(None) context=(None))',
             'cause-is-raised': [False, True],
             'events': [('__getitem__', "str:'summary.txt'"), ('root',), ('root.__format__', '')]}
        ),
        'getitem-key-error-no-args': (
            {'raised': "builtins.OSError('Cannot find the summary file (`summary.txt`). Make sure the dataset "
                       "at <the root> is complete and in the JAXA CEOS format.',) errno=None filename=None "
                       'suppress_context=True cause=(builtins.KeyError() suppress_context=False cause=(None) '
                       'context=(None)) context=(builtins.KeyError() suppress_context=False cause=(None) '
                       'context=(None))',
             'cause-is-raised': [False, True],
             'events': [('__getitem__', "str:'summary.txt'"), ('root',), ('root.__format__', '')]}
        ),
        'getitem-file-not-found': (
            {'raised': "builtins.FileNotFoundError(2, 'No such file') errno=2 filename='summary.txt' "
                       'suppress_context=False cause=(None) context=(None)',
             'cause-is-raised': [True],
             'events': [('__getitem__', "str:'summary.txt'")]}
        ),
        'getitem-permission-error': (
            {'raised': "builtins.PermissionError(13, 'denied') errno=13 filename=None suppress_context=False "
                       'cause=(None) context=(None)',
             'cause-is-raised': [True],
             'events': [('__getitem__', "str:'summary.txt'")]}
        ),
        'getitem-lookup-error': (
            {'raised': "builtins.LookupError('lookup',) suppress_context=False cause=(None) context=(None)",
             'cause-is-raised': [True],
             'events': [('__getitem__', "str:'summary.txt'")]}
        ),
        'getitem-index-error': (
            {'raised': "builtins.IndexError('index',) suppress_context=False cause=(None) context=(None)",
             'cause-is-raised': [True],
             'events': [('__getitem__', "str:'summary.txt'")]}
        ),
        'getitem-value-error': (
            {'raised': "builtins.ValueError('value',) suppress_context=False cause=(None) context=(None)",
             'cause-is-raised': [True],
             'events': [('__getitem__', "str:'summary.txt'")]}
        ),
        'getitem-type-error': (
            {'raised': "builtins.TypeError('type',) suppress_context=False cause=(None) context=(None)",
             'cause-is-raised': [True],
             'events': [('__getitem__', "str:'summary.txt'")]}
        ),
        'getitem-stop-iteration': (
            {'raised': "builtins.StopIteration('stop',) suppress_context=False cause=(None) context=(None)",
             'cause-is-raised': [True],
             'events': [('__getitem__', "str:'summary.txt'")]}
        ),
        'getitem-keyboard-interrupt': (
            {'raised': 'builtins.KeyboardInterrupt() suppress_context=False cause=(None) context=(None)',
             'cause-is-raised': [True],
             'events': [('__getitem__', "str:'summary.txt'")]}
        ),
        'getitem-key-error-with-context': (
            {'raised': "builtins.OSError('Cannot find the summary file (`summary.txt`). Make sure the dataset "
                       "at <the root> is complete and in the JAXA CEOS format.',) errno=None filename=None "
                       "suppress_context=True cause=(builtins.KeyError('with context',) suppress_context=False "
                       "cause=(None) context=(builtins.RuntimeError('earlier',) suppress_context=False "
                       "cause=(None) context=(None))) context=(builtins.KeyError('with context',) "
                       "suppress_context=False cause=(None) context=(builtins.RuntimeError('earlier',) "
                       'suppress_context=False cause=(None) context=(None)))',
             'cause-is-raised': [False, True, False],
             'events': [('__getitem__', "str:'summary.txt'"), ('root',), ('root.__format__', '')]}
        ),
        'value-str': (
            {'raised': 'builtins.AttributeError("\'str\' object has no attribute \'decode\'",) '
                       'suppress_context=False cause=(None) context=(None)',
             'cause-is-raised': [False],
             'events': [('__getitem__', "str:'summary.txt'")]}
        ),
        'value-none': (
            {'raised': 'builtins.AttributeError("\'NoneType\' object has no attribute \'decode\'",) '
                       'suppress_context=False cause=(None) context=(None)',
             'cause-is-raised': [False],
             'events': [('__getitem__', "str:'summary.txt'")]}
        ),
        'value-memoryview': (
            {'raised': 'builtins.AttributeError("\'memoryview\' object has no attribute \'decode\'",) '
                       'suppress_context=False cause=(None) context=(None)',
             'cause-is-raised': [False],
             'events': [('__getitem__', "str:'summary.txt'")]}
        ),
        'value-bytearray': (
            {'returned': "Group(path='summary', url=None, attrs={}, data={'scene_specification': "
                         "Group(path='summary/scene_specification', url=None, attrs={'SceneShift': 3}, "
                         "data={}), 'label_information': Group(path='summary/label_information', url=None, "
                         "attrs={'ProcessLevel': '1.1'}, data={})})",
             'events': [('__getitem__', "str:'summary.txt'")]}
        ),
        'value-decode-key-error': (
            {'raised': "builtins.KeyError('decode',) suppress_context=False cause=(None) context=(None)",
             'cause-is-raised': [False],
             'events': [('__getitem__', "str:'summary.txt'")]}
        ),
        'value-decode-value-error': (
            {'raised': "builtins.ValueError('decode',) suppress_context=False cause=(None) context=(None)",
             'cause-is-raised': [False],
             'events': [('__getitem__', "str:'summary.txt'")]}
        ),
        'value-decode-os-error': (
            {'raised': "builtins.OSError('decode',) errno=None filename=None suppress_context=False "
                       'cause=(None) context=(None)',
             'cause-is-raised': [False],
             'events': [('__getitem__', "str:'summary.txt'")]}
        ),
        'value-decode-returns-bytes': (
            {'raised': "builtins.TypeError('cannot use a string pattern on a bytes-like object',) "
                       'suppress_context=False cause=(None) context=(None)',
             'cause-is-raised': [False],
             'events': [('__getitem__', "str:'summary.txt'")]}
        ),
        'nested-missing': (
            {'raised': "builtins.OSError('Cannot find the summary file (`summary.txt`). Make sure the dataset "
                       "at <the root> is complete and in the JAXA CEOS format.',) errno=None filename=None "
                       "suppress_context=True cause=(builtins.KeyError('summary.txt',) suppress_context=False "
                       "cause=(None) context=(builtins.KeyError('summary.txt',) suppress_context=False "
                       "cause=(None) context=(builtins.RuntimeError('outer',) suppress_context=False "
                       "cause=(None) context=(None)))) context=(builtins.KeyError('summary.txt',) "
                       "suppress_context=False cause=(None) context=(builtins.KeyError('summary.txt',) "
                       "suppress_context=False cause=(None) context=(builtins.RuntimeError('outer',) "
                       'suppress_context=False cause=(None) context=(None))))',
             'cause-is-raised': [False, True, False, False],
             'events': [('__getitem__', "str:'summary.txt'"), ('root',), ('root.__format__', '')]}
        ),
        'nested-found': (
            {'returned': "Group(path='summary', url=None, attrs={}, data={'scene_specification': "
                         "Group(path='summary/scene_specification', url=None, attrs={'SceneShift': 3}, "
                         "data={}), 'label_information': Group(path='summary/label_information', url=None, "
                         "attrs={'ProcessLevel': '1.1'}, data={})})",
             'events': [('__getitem__', "str:'summary.txt'")]}
        ),
    },
    'plain': {
        'dict-found': (
            {'returned': "Group(path='summary', url=None, attrs={}, data={'scene_specification': "
                         "Group(path='summary/scene_specification', url=None, attrs={'SceneShift': 3}, "
                         "data={}), 'label_information': Group(path='summary/label_information', url=None, "
                         "attrs={'ProcessLevel': '1.1'}, data={})})"}
        ),
        'dict-missing': (
            {'raised': 'builtins.AttributeError("\'dict\' object has no attribute \'root\'",) '
                       "suppress_context=False cause=(None) context=(builtins.KeyError('summary.txt',) "
                       'suppress_context=False cause=(None) context=(None))'}
        ),
        'list': (
            {'returned': "Group(path='summary', url=None, attrs={}, data={'scene_specification': "
                         "Group(path='summary/scene_specification', url=None, attrs={'SceneShift': 3}, "
                         "data={}), 'label_information': Group(path='summary/label_information', url=None, "
                         "attrs={'ProcessLevel': '1.1'}, data={})})"}
        ),
        'list-missing': (
            {'raised': "builtins.IndexError('list index out of range',) suppress_context=False cause=(None) "
                       'context=(None)'}
        ),
        'list-str-index': (
            {'raised': "builtins.TypeError('list indices must be integers or slices, not str',) "
                       'suppress_context=False cause=(None) context=(None)'}
        ),
        'none': (
            {'raised': 'builtins.TypeError("\'NoneType\' object is not subscriptable",) suppress_context=False '
                       'cause=(None) context=(None)'}
        ),
    },
    'hooks': {
        'both': (
            {'returned': "('transformed', {'parsed': 'content'}, )"}
        ),
        'both-empty': (
            {'returned': "('transformed', {'parsed': ''}, )"}
        ),
        'both-missing': (
            {'raised': "builtins.OSError('Cannot find the summary file (`c`). Make sure the dataset at "
                       "/eq2/hooks is complete and in the JAXA CEOS format.',) errno=None filename=None "
                       "suppress_context=True cause=(builtins.KeyError('c',) suppress_context=True "
                       "cause=(builtins.FileNotFoundError('/eq2/hooks/c',) errno=None filename=None "
                       "suppress_context=True cause=(builtins.KeyError('/eq2/hooks/c',) suppress_context=False "
                       "cause=(None) context=(None)) context=(builtins.KeyError('/eq2/hooks/c',) "
                       'suppress_context=False cause=(None) context=(None))) '
                       "context=(builtins.FileNotFoundError('/eq2/hooks/c',) errno=None filename=None "
                       "suppress_context=True cause=(builtins.KeyError('/eq2/hooks/c',) suppress_context=False "
                       "cause=(None) context=(None)) context=(builtins.KeyError('/eq2/hooks/c',) "
                       "suppress_context=False cause=(None) context=(None)))) context=(builtins.KeyError('c',) "
                       "suppress_context=True cause=(builtins.FileNotFoundError('/eq2/hooks/c',) errno=None "
                       "filename=None suppress_context=True cause=(builtins.KeyError('/eq2/hooks/c',) "
                       'suppress_context=False cause=(None) context=(None)) '
                       "context=(builtins.KeyError('/eq2/hooks/c',) suppress_context=False cause=(None) "
                       "context=(None))) context=(builtins.FileNotFoundError('/eq2/hooks/c',) errno=None "
                       "filename=None suppress_context=True cause=(builtins.KeyError('/eq2/hooks/c',) "
                       'suppress_context=False cause=(None) context=(None)) '
                       "context=(builtins.KeyError('/eq2/hooks/c',) suppress_context=False cause=(None) "
                       'context=(None))))'}
        ),
        'failing-parse': (
            {'raised': "builtins.KeyError('parse',) suppress_context=False cause=(None) context=(None)"}
        ),
        'failing-transform': (
            {'raised': "builtins.KeyError('transform',) suppress_context=False cause=(None) context=(None)"}
        ),
        'events': (
            [('parse_summary', 'content'),
             ('transform_summary', {'parsed': 'content'}),
             ('parse_summary', ''),
             ('transform_summary', {'parsed': ''}),
             ('parse_summary', 'content'),
             ('parse_summary', 'content'),
             ('transform_summary', {'parsed': 'content'})]
        ),
    },
    'public-names': ['open_summary', 'parse_summary', 'transform_summary'],
}
# @@EXPECTED-END@@


def emit(results):
    """print the results as a (not too deeply indented) python literal"""
    print("{")
    for section, cases in results.items():
        if not isinstance(cases, dict):
            print(f"    {section!r}: {pprint.pformat(cases, width=100, sort_dicts=False)},")
            continue
        print(f"    {section!r}: {{")
        for name, value in cases.items():
            text = pprint.pformat(value, width=100, sort_dicts=False)
            print(f"        {name!r}: (")
            print("\n".join("            " + line for line in text.splitlines()))
            print("        ),")
        print("    },")
    print("}")


def differences(actual, expected, path="root"):
    if type(actual) is not type(expected):
        yield f"{path}: {actual!r} != {expected!r}"
    elif isinstance(actual, dict):
        for key in sorted(set(actual) | set(expected), key=repr):
            if key not in actual or key not in expected:
                yield f"{path}[{key!r}]: only on one side"
            else:
                yield from differences(actual[key], expected[key], f"{path}[{key!r}]")
    elif isinstance(actual, (list, tuple)) and len(actual) == len(expected):
        for index, (a, e) in enumerate(zip(actual, expected)):
            yield from differences(a, e, f"{path}[{index}]")
    elif actual != expected:
        yield f"{path}: {actual!r} != {expected!r}"


def test_equivalence():
    actual = run()
    found = list(differences(actual, EXPECTED))
    assert not found, "\n".join(found)
    assert actual == EXPECTED


if __name__ == "__main__":
    if "--record" in sys.argv:
        emit(run())
        sys.exit(0)

    print("checking", summary.__file__)
    found = list(differences(run(), EXPECTED))
    for line in found:
        print(line)
    n_cases = sum(len(v) for v in EXPECTED.values())
    print(f"{n_cases} cases:", "FAILED" if found else "ok")
    sys.exit(1 if found else 0)
