"""Equivalence check for refactoring 1 (ceos_alos2/sar_image/caching/encoders.py).

Run as
    cd /tmp/wt5/e33 && PYTHONPATH=/tmp/wt5/e33 /venv/bin/python _eq/1/equiv.py
(or through pytest). The expected values in ``expected.json`` next to this file
were recorded from the UNCHANGED code with ``EQ_RECORD=1``.
"""

import collections
import json
import os
import pathlib
import warnings

import fsspec
import numpy as np
from fsspec.implementations.dirfs import DirFileSystem

from ceos_alos2.array import Array
from ceos_alos2.hierarchy import Group, Variable
from ceos_alos2.sar_image import caching
from ceos_alos2.sar_image.caching import encoders

HERE = pathlib.Path(__file__).resolve().parent
EXPECTED = HERE / "expected.json"


def canon(obj):
    """type-preserving, deterministic textual form"""
    if isinstance(obj, dict):
        items = ", ".join(f"{canon(k)}: {canon(v)}" for k, v in obj.items())
        return f"{type(obj).__name__}{{{items}}}"
    if isinstance(obj, (list, tuple)):
        items = ", ".join(canon(v) for v in obj)
        return f"{type(obj).__name__}[{items}]"
    if isinstance(obj, np.ndarray):
        return f"ndarray<{obj.dtype}>{obj.tolist()!r}"
    if isinstance(obj, (Group, Variable, Array)):
        return f"<{type(obj).__name__} id-preserved>"
    return f"{type(obj).__name__}({obj!r})"


def run(func, *args):
    try:
        return "OK " + canon(func(*args))
    except Exception as e:  # noqa: BLE001
        return f"EXC {type(e).__name__}: {e}"


def backend_array(**overrides):
    mapper = fsspec.get_mapper("memory:///path/to")
    fs = DirFileSystem(fs=mapper.fs, path=mapper.root)
    kwargs = dict(
        fs=fs,
        url="file",
        byte_ranges=[(5, 10), (15, 20), (25, 30), (35, 40)],
        shape=(4, 3),
        dtype="int16",
        type_code="IU2",
        records_per_chunk=2,
    )
    kwargs.update(overrides)
    return Array(**kwargs)


Point = collections.namedtuple("Point", ["x", "y"])


class NotAnArray:
    """neither hierarchy.Group nor Variable; encode_group treats it like a variable"""

    def __init__(self, data, dims=("x",), attrs=None):
        self.data = data
        self.dims = list(dims)
        self.attrs = attrs or {}


def array_cases():
    dt = np.array
    return {
        "int-list": [1, 2, 3],
        "int8": dt([1, 2], dtype="int8"),
        "uint16-2d": dt([[1, 2], [3, 4]], dtype="uint16"),
        "float-nan-inf": dt([1.5, np.nan, np.inf, -np.inf]),
        "float32": dt([0.1, 0.2], dtype="float32"),
        "bool": dt([True, False]),
        "complex": dt([1 + 2j, 3 - 4j], dtype="complex64"),
        "str": dt(["a", "bc"]),
        "bytes": dt([b"a", b"bc"]),
        "object": dt([None, "a", 1], dtype=object),
        "structured": dt([(1, 2.0)], dtype=[("a", "i4"), ("b", "f8")]),
        "empty-float": dt([], dtype="float64"),
        "0d-int": dt(5),
        "python-scalar": 1.25,
        "nested-list": [[1, 2], [3, 4]],
        "tuple": (1, 2),
        "td-s": dt([1, 2, 3], dtype="timedelta64[s]"),
        "td-ms": dt([-1, 0, 10], dtype="timedelta64[ms]"),
        "td-10s": dt([1, 2], dtype="timedelta64[10s]"),
        "td-nat": dt([1, "NaT"], dtype="timedelta64[D]"),
        "td-empty": dt([], dtype="timedelta64[ns]"),
        "td-0d": dt(3, dtype="timedelta64[h]"),
        "td-generic": dt([1, 2], dtype="timedelta64"),
        "dt-ns": dt(["2020-01-01T00:00:00", "2020-01-01T00:00:01.5"], dtype="datetime64[ns]"),
        "dt-s": dt(["1997-05-27T00:00:00", "1997-05-27T00:02:00"], dtype="datetime64[s]"),
        "dt-D": dt(["2019-12-31", "2020-01-02", "2019-01-01"], dtype="datetime64[D]"),
        "dt-10s": dt(["2020-01-01T00:00:00", "2020-01-01T00:01:00"], dtype="datetime64[10s]"),
        "dt-25us": dt(["2020-01-01T00:00:00.000025", "2020-01-01T00:00:00.000100"],
                      dtype="datetime64[25us]"),
        "dt-nat-later": dt(["2020-01-01", "NaT"], dtype="datetime64[ms]"),
        "dt-nat-first": dt(["NaT", "2020-01-01"], dtype="datetime64[ms]"),
        "dt-single": dt(["2020-01-01T12:00"], dtype="datetime64[m]"),
        "dt-2d": dt([["2020-01-01", "2020-01-02"], ["2020-01-03", "2020-01-05"]],
                    dtype="datetime64[D]"),
        "dt-empty": dt([], dtype="datetime64[s]"),
        "dt-0d": dt("2020-01-01", dtype="datetime64[s]"),
        "dt-generic": dt(["NaT"], dtype="datetime64"),
        "backend": backend_array(),
        "backend-complex": backend_array(dtype="complex64", type_code="C*8", url="dir/img",
                                         records_per_chunk=None),
        "backend-np-dtype": backend_array(dtype=np.dtype(">u2"), shape=[4, 3]),
        "backend-empty": backend_array(byte_ranges=[], shape=(0, 3)),
    }


def hierarchy_cases():
    arrays = array_cases()
    var_int = Variable("x", arrays["int8"], {"units": "m"})
    var_dt = Variable(["t"], arrays["dt-10s"], {})
    var_td = Variable(["t"], arrays["td-ms"], {"a": (1, 2)})
    var_backend = Variable(["rows", "cols"], arrays["backend"], {"nested": {"t": (1, (2, 3))}})
    var_tuple_dims = Variable(("a", "b"), arrays["uint16-2d"], {})
    empty = Group(path=None, url=None, data={}, attrs={})
    flat = Group(path="/", url="s3://bucket/x", data={"a": var_int, "t": var_dt}, attrs={"k": 1})
    nested = Group(
        path=None,
        url="memory://root",
        data={
            "v": var_backend,
            "sub": Group(
                path=None,
                url=None,
                data={
                    "w": var_td,
                    "deep": Group(path="ignored", url="file:///d", data={"z": var_tuple_dims},
                                  attrs={"d": [1, (2,)]}),
                    "none": Group(path=None, url=None, data={}, attrs={}),
                },
                attrs={"s": "t"},
            ),
            "last": var_int,
        },
        attrs={"coords": ("x", "y")},
    )
    foreign = Group(path="/", url="u", data={}, attrs={})
    # put an object which is neither group nor variable into a group
    foreign.data["odd"] = NotAnArray([1, 2])
    return {
        "var-int": var_int,
        "var-dt": var_dt,
        "var-td": var_td,
        "var-backend": var_backend,
        "var-tuple-dims": var_tuple_dims,
        "group-empty": empty,
        "group-flat": flat,
        "group-nested": nested,
        "group-foreign": foreign,
    }


def preprocess_cases():
    return {
        "scalar": 1,
        "none": None,
        "str": "abc",
        "list": [1, (2, 3), [4, (5,)]],
        "tuple": (1, 2),
        "empty-tuple": (),
        "nested-tuple": ((1, 2), (3, (4, [5, ()]))),
        "dict": {"a": (1, 2), "b": {"c": [(), {}]}, 3: (4,)},
        "ordered": collections.OrderedDict([("z", (1,)), ("a", [2])]),
        "defaultdict": collections.defaultdict(list, {"k": (1,)}),
        "namedtuple": Point(1, (2, 3)),
        "set": {1},
        "ndarray": np.array([1, 2]),
        "dict-with-type": {"__type__": "tuple", "data": (1, 2)},
        "bytes": b"ab",
    }


def compute():
    warnings.simplefilter("ignore", DeprecationWarning)  # generic-unit datetime cases
    out = {}
    for name, value in array_cases().items():
        out[f"encode_array/{name}"] = run(encoders.encode_array, value)
        if isinstance(value, np.ndarray) and value.dtype.kind == "M":
            out[f"encode_datetime/{name}"] = run(encoders.encode_datetime, value)
        if isinstance(value, np.ndarray) and value.dtype.kind == "m":
            out[f"encode_timedelta/{name}"] = run(encoders.encode_timedelta, value)
    # wrong kinds given to the specialised encoders
    out["encode_datetime/int"] = run(encoders.encode_datetime, np.array([1, 2]))
    out["encode_timedelta/int"] = run(encoders.encode_timedelta, np.array([1, 2]))
    out["encode_array/None"] = run(encoders.encode_array, None)
    out["encode_array/ragged"] = run(encoders.encode_array, [[1], [1, 2]])

    for name, value in hierarchy_cases().items():
        out[f"encode_hierarchy/{name}"] = run(encoders.encode_hierarchy, value)
        if isinstance(value, Group):
            out[f"encode_group/{name}"] = run(encoders.encode_group, value)
        else:
            out[f"encode_variable/{name}"] = run(encoders.encode_variable, value)
        out[f"preprocessed/{name}"] = run(
            lambda v: encoders.preprocess(encoders.encode_hierarchy(v)), value
        )
        out[f"encode/{name}"] = run(caching.encode, value)
    for name, value in {"int": 1, "dict": {"a": (1,)}, "none": None, "list": [1]}.items():
        out[f"encode_hierarchy/plain-{name}"] = run(encoders.encode_hierarchy, value)
        out[f"encode/plain-{name}"] = run(caching.encode, value)
    out["encode_group/variable"] = run(encoders.encode_group, hierarchy_cases()["var-int"])
    out["encode_variable/group"] = run(encoders.encode_variable, hierarchy_cases()["group-flat"])
    out["encode_variable/int"] = run(encoders.encode_variable, 1)

    for name, value in preprocess_cases().items():
        out[f"preprocess/{name}"] = run(encoders.preprocess, value)

    # identity: passthrough objects are returned, not copied
    marker = object()
    out["identity/encode_hierarchy"] = str(encoders.encode_hierarchy(marker) is marker)
    out["identity/preprocess"] = str(encoders.preprocess(marker) is marker)
    lst = [1, 2]
    out["identity/preprocess-list-copied"] = str(encoders.preprocess(lst) is not lst)
    grp = hierarchy_cases()["group-flat"]
    enc = encoders.encode_group(grp)
    out["identity/attrs-shared"] = str(enc["attrs"] is grp.attrs)
    out["identity/dims-shared"] = str(enc["data"]["a"]["dims"] is grp["a"].dims)
    out["keys/group"] = repr(list(enc))
    out["keys/variable"] = repr(list(enc["data"]["a"]))
    out["keys/array"] = repr(list(enc["data"]["a"]["data"]))
    out["keys/backend"] = repr(list(encoders.encode_array(backend_array())))
    return out


def test_equivalence():
    actual = compute()
    if os.environ.get("EQ_RECORD"):
        EXPECTED.write_text(json.dumps(actual, indent=1, sort_keys=True))
        print(f"recorded {len(actual)} results")
        return
    expected = json.loads(EXPECTED.read_text())
    assert sorted(actual) == sorted(expected)
    mismatches = {k: (expected[k], actual[k]) for k in expected if expected[k] != actual[k]}
    assert not mismatches, mismatches
    print(f"{len(actual)} results identical")


if __name__ == "__main__":
    test_equivalence()
