"""Equivalence check for refactoring 1 (``Array.__post_init__``).

Run as a script (``python equiv.py``) or through pytest. ``python equiv.py --record``
prints the observations of the code that is currently importable; the ``EXPECTED``
table below was recorded that way from the UNCHANGED code (HEAD).
"""

import pprint
import sys

import fsspec
import numpy as np

from ceos_alos2 import array
from ceos_alos2.array import Array

BYTE_RANGES = [(1, 40), (40, 80), (80, 120), (120, 160)]
UNEVEN_RANGES = [(0, 7), (10, 16), (20, 28), (28, 29), (30, 60)]


class MyStr(str):
    pass


class AutoLike:
    """compares equal to "auto" but is not a string"""

    def __eq__(self, other):
        return other == "auto"

    def __hash__(self):
        return hash("auto")

    def __gt__(self, other):
        return False

    def __repr__(self):
        return "AutoLike()"


def make(records_per_chunk, byte_ranges=BYTE_RANGES, shape=(4, 10), **kwargs):
    fs = fsspec.filesystem("dir", path="/eq1", fs=fsspec.filesystem("memory"))
    params = dict(
        fs=fs,
        url="image",
        byte_ranges=byte_ranges,
        shape=shape,
        dtype="uint16",
        type_code="IU2",
        records_per_chunk=records_per_chunk,
    )
    params.update(kwargs)
    return Array(**params)


def typed(value):
    return f"{type(value).__module__}.{type(value).__qualname__}:{value!r}"


def safe(f):
    try:
        return f()
    except Exception as e:
        return f"{type(e).__name__}: {e}"


def observe(*args, **kwargs):
    try:
        arr = make(*args, **kwargs)
    except BaseException as e:  # noqa: B902
        chain = []
        exc = e
        while exc is not None:
            chain.append(f"{type(exc).__name__}: {exc}")
            exc = exc.__cause__ or exc.__context__
        return {"raises": chain}

    return {
        "records_per_chunk": typed(arr.records_per_chunk),
        "chunk_offsets": repr(arr.chunk_offsets),
        "chunks": safe(lambda: repr(arr.chunks)),
        "repr": repr(arr),
    }


def default_observation():
    # records_per_chunk not passed at all
    fs = fsspec.filesystem("dir", path="/eq1", fs=fsspec.filesystem("memory"))
    arr = Array(fs, "image", BYTE_RANGES, (4, 10), "uint16", "IU2")
    return {
        "records_per_chunk": typed(arr.records_per_chunk),
        "chunk_offsets": repr(arr.chunk_offsets),
        "positional": repr(Array(fs, "image", BYTE_RANGES, (4, 10), "uint16", "IU2", "50B")),
    }


def state_after_failure():
    # the instance is left untouched if the specification cannot be resolved
    observations = {}
    for name, spec, shape in [
        ("bad-unit", "5 foos", (4, 10)),
        ("list", [2], (4, 10)),
        ("no-shape", 2, ()),
    ]:
        arr = make(2)
        arr.records_per_chunk = spec
        arr.shape = shape
        arr.chunk_offsets = "sentinel"
        try:
            arr.__post_init__()
        except Exception as e:
            observations[name] = (
                type(e).__name__,
                repr(arr.records_per_chunk),
                repr(arr.chunk_offsets),
            )
        else:
            observations[name] = "no error"
    return observations


def reinit():
    # __post_init__ is idempotent on an already normalized instance
    arr = make("auto", byte_ranges=UNEVEN_RANGES, shape=(5, 3))
    before = (typed(arr.records_per_chunk), repr(arr.chunk_offsets))
    arr.__post_init__()
    after = (typed(arr.records_per_chunk), repr(arr.chunk_offsets))
    return before, after


CASES = {
    "none": lambda: observe(None),
    "auto": lambda: observe("auto"),
    "auto-uneven": lambda: observe("auto", byte_ranges=UNEVEN_RANGES, shape=(5, 3)),
    "auto-big": lambda: observe(
        "auto", byte_ranges=[(i * 2**25, (i + 1) * 2**25) for i in range(6)], shape=(6, 1)
    ),
    "auto-subclass": lambda: observe(MyStr("auto")),
    "auto-like-object": lambda: observe(AutoLike()),
    "bytes-80B": lambda: observe("80B"),
    "bytes-subclass": lambda: observe(MyStr("80B")),
    "bytes-1kiB": lambda: observe("1kiB"),
    "bytes-0.1kB": lambda: observe("0.1 kB", byte_ranges=UNEVEN_RANGES, shape=(5, 3)),
    "bytes-plain-number": lambda: observe("45", byte_ranges=UNEVEN_RANGES, shape=(5, 3)),
    "bytes-1": lambda: observe("1"),
    "bytes-unit-only": lambda: observe("kB"),
    "bytes-empty-string": lambda: observe(""),
    "bytes-uppercase-auto": lambda: observe("AUTO"),
    "bytes-bad-unit": lambda: observe("5 foos"),
    "bytes-bad-number": lambda: observe("1.2.3kB"),
    "bytes-object": lambda: observe(b"80B"),
    "int-1": lambda: observe(1),
    "int-2": lambda: observe(2),
    "int-3": lambda: observe(3),
    "int-4": lambda: observe(4),
    "int-5": lambda: observe(5),
    "int-1024": lambda: observe(1024),
    "int-minus-1": lambda: observe(-1),
    "int-minus-2": lambda: observe(-2),
    "int-0": lambda: observe(0),
    "bool-true": lambda: observe(True),
    "bool-false": lambda: observe(False),
    "float": lambda: observe(2.0),
    "float-frac": lambda: observe(2.5),
    "float-minus-1": lambda: observe(-1.0),
    "np-int": lambda: observe(np.int64(2)),
    "np-int-large": lambda: observe(np.int64(20)),
    "list": lambda: observe([2]),
    "tuple": lambda: observe((2,)),
    "complex": lambda: observe(2j),
    "empty-ranges-none": lambda: observe(None, byte_ranges=[], shape=(0, 10)),
    "empty-ranges-auto": lambda: observe("auto", byte_ranges=[], shape=(0, 10)),
    "empty-ranges-int": lambda: observe(3, byte_ranges=[], shape=(0, 10)),
    "empty-ranges-minus-1": lambda: observe(-1, byte_ranges=[], shape=(0, 10)),
    "no-shape-none": lambda: observe(None, shape=()),
    "no-shape-auto": lambda: observe("auto", shape=()),
    "no-shape-int": lambda: observe(2, shape=()),
    "1d-int": lambda: observe(3, shape=(4,)),
    "3d-none": lambda: observe(None, shape=(4, 3, 3)),
    "shape-mismatch": lambda: observe(3, shape=(2, 10)),
    "shape-list": lambda: observe(8, shape=[4, 10]),
    "shape-none": lambda: observe(2, shape=None),
    "shape-none-auto": lambda: observe("10B", shape=None),
    "ranges-tuples-of-3": lambda: observe(2, byte_ranges=[(0, 1, 2)]),
    "ranges-tuples-of-3-bad-spec": lambda: observe("5 foos", byte_ranges=[(0, 1, 2)]),
    "ranges-not-iterable": lambda: observe(None, byte_ranges=None),
    "ranges-strings": lambda: observe("auto", byte_ranges=[("a", "b")]),
    "ranges-array": lambda: observe("60B", byte_ranges=np.array(BYTE_RANGES)),
    "ranges-generator": lambda: observe(2, byte_ranges=(r for r in BYTE_RANGES)),
    "ranges-float": lambda: observe("30B", byte_ranges=[(0.0, 10.5), (10.5, 30.0), (30.0, 31.0)]),
    "default": default_observation,
    "state-after-failure": state_after_failure,
    "reinit": reinit,
}

# BEGIN EXPECTED
EXPECTED = {'none': {'records_per_chunk': 'builtins.int:1024',
          'chunk_offsets': "{0: {'offset': 1, 'size': 159}}",
          'chunks': '(1024, 10)',
          'repr': "Array(url='image', shape=(4, 10), dtype='uint16', records_per_chunk=1024)"},
 'auto': {'records_per_chunk': 'numpy.int64:np.int64(4)',
          'chunk_offsets': "{0: {'offset': 1, 'size': 159}}",
          'chunks': '(np.int64(4), 10)',
          'repr': "Array(url='image', shape=(4, 10), dtype='uint16', "
                  'records_per_chunk=np.int64(4))'},
 'auto-uneven': {'records_per_chunk': 'numpy.int64:np.int64(5)',
                 'chunk_offsets': "{0: {'offset': 0, 'size': 60}}",
                 'chunks': '(np.int64(5), 3)',
                 'repr': "Array(url='image', shape=(5, 3), dtype='uint16', "
                         'records_per_chunk=np.int64(5))'},
 'auto-big': {'records_per_chunk': 'numpy.int64:np.int64(3)',
              'chunk_offsets': "{0: {'offset': 0, 'size': 100663296}, 1: {'offset': 100663296, "
                               "'size': 100663296}}",
              'chunks': '(np.int64(3), 1)',
              'repr': "Array(url='image', shape=(6, 1), dtype='uint16', "
                      'records_per_chunk=np.int64(3))'},
 'auto-subclass': {'records_per_chunk': 'numpy.int64:np.int64(4)',
                   'chunk_offsets': "{0: {'offset': 1, 'size': 159}}",
                   'chunks': '(np.int64(4), 10)',
                   'repr': "Array(url='image', shape=(4, 10), dtype='uint16', "
                           'records_per_chunk=np.int64(4))'},
 'auto-like-object': {'raises': ["TypeError: can't multiply sequence by non-int of type "
                                 "'AutoLike'"]},
 'bytes-80B': {'records_per_chunk': 'numpy.int64:np.int64(2)',
               'chunk_offsets': "{0: {'offset': 1, 'size': 79}, 1: {'offset': 80, 'size': 80}}",
               'chunks': '(np.int64(2), 10)',
               'repr': "Array(url='image', shape=(4, 10), dtype='uint16', "
                       'records_per_chunk=np.int64(2))'},
 'bytes-subclass': {'records_per_chunk': 'numpy.int64:np.int64(2)',
                    'chunk_offsets': "{0: {'offset': 1, 'size': 79}, 1: {'offset': 80, 'size': "
                                     '80}}',
                    'chunks': '(np.int64(2), 10)',
                    'repr': "Array(url='image', shape=(4, 10), dtype='uint16', "
                            'records_per_chunk=np.int64(2))'},
 'bytes-1kiB': {'records_per_chunk': 'numpy.int64:np.int64(4)',
                'chunk_offsets': "{0: {'offset': 1, 'size': 159}}",
                'chunks': '(np.int64(4), 10)',
                'repr': "Array(url='image', shape=(4, 10), dtype='uint16', "
                        'records_per_chunk=np.int64(4))'},
 'bytes-0.1kB': {'records_per_chunk': 'numpy.int64:np.int64(5)',
                 'chunk_offsets': "{0: {'offset': 0, 'size': 60}}",
                 'chunks': '(np.int64(5), 3)',
                 'repr': "Array(url='image', shape=(5, 3), dtype='uint16', "
                         'records_per_chunk=np.int64(5))'},
 'bytes-plain-number': {'records_per_chunk': 'numpy.int64:np.int64(5)',
                        'chunk_offsets': "{0: {'offset': 0, 'size': 60}}",
                        'chunks': '(np.int64(5), 3)',
                        'repr': "Array(url='image', shape=(5, 3), dtype='uint16', "
                                'records_per_chunk=np.int64(5))'},
 'bytes-1': {'records_per_chunk': 'numpy.int64:np.int64(1)',
             'chunk_offsets': "{0: {'offset': 1, 'size': 39}, 1: {'offset': 40, 'size': 40}, 2: "
                              "{'offset': 80, 'size': 40}, 3: {'offset': 120, 'size': 40}}",
             'chunks': '(np.int64(1), 10)',
             'repr': "Array(url='image', shape=(4, 10), dtype='uint16', "
                     'records_per_chunk=np.int64(1))'},
 'bytes-unit-only': {'records_per_chunk': 'numpy.int64:np.int64(4)',
                     'chunk_offsets': "{0: {'offset': 1, 'size': 159}}",
                     'chunks': '(np.int64(4), 10)',
                     'repr': "Array(url='image', shape=(4, 10), dtype='uint16', "
                             'records_per_chunk=np.int64(4))'},
 'bytes-empty-string': {'records_per_chunk': 'numpy.int64:np.int64(1)',
                        'chunk_offsets': "{0: {'offset': 1, 'size': 39}, 1: {'offset': 40, 'size': "
                                         "40}, 2: {'offset': 80, 'size': 40}, 3: {'offset': 120, "
                                         "'size': 40}}",
                        'chunks': '(np.int64(1), 10)',
                        'repr': "Array(url='image', shape=(4, 10), dtype='uint16', "
                                'records_per_chunk=np.int64(1))'},
 'bytes-uppercase-auto': {'raises': ["ValueError: Could not interpret 'AUTO' as a byte unit",
                                     "KeyError: 'auto'"]},
 'bytes-bad-unit': {'raises': ["ValueError: Could not interpret 'foos' as a byte unit",
                               "KeyError: 'foos'"]},
 'bytes-bad-number': {'raises': ["ValueError: Could not interpret '1.2.3' as a number",
                                 "ValueError: could not convert string to float: '1.2.3'"]},
 'bytes-object': {'raises': ["TypeError: '>' not supported between instances of 'bytes' and "
                             "'int'"]},
 'int-1': {'records_per_chunk': 'builtins.int:1',
           'chunk_offsets': "{0: {'offset': 1, 'size': 39}, 1: {'offset': 40, 'size': 40}, 2: "
                            "{'offset': 80, 'size': 40}, 3: {'offset': 120, 'size': 40}}",
           'chunks': '(1, 10)',
           'repr': "Array(url='image', shape=(4, 10), dtype='uint16', records_per_chunk=1)"},
 'int-2': {'records_per_chunk': 'builtins.int:2',
           'chunk_offsets': "{0: {'offset': 1, 'size': 79}, 1: {'offset': 80, 'size': 80}}",
           'chunks': '(2, 10)',
           'repr': "Array(url='image', shape=(4, 10), dtype='uint16', records_per_chunk=2)"},
 'int-3': {'records_per_chunk': 'builtins.int:3',
           'chunk_offsets': "{0: {'offset': 1, 'size': 119}, 1: {'offset': 120, 'size': 40}}",
           'chunks': '(3, 10)',
           'repr': "Array(url='image', shape=(4, 10), dtype='uint16', records_per_chunk=3)"},
 'int-4': {'records_per_chunk': 'builtins.int:4',
           'chunk_offsets': "{0: {'offset': 1, 'size': 159}}",
           'chunks': '(4, 10)',
           'repr': "Array(url='image', shape=(4, 10), dtype='uint16', records_per_chunk=4)"},
 'int-5': {'records_per_chunk': 'builtins.int:4',
           'chunk_offsets': "{0: {'offset': 1, 'size': 159}}",
           'chunks': '(4, 10)',
           'repr': "Array(url='image', shape=(4, 10), dtype='uint16', records_per_chunk=4)"},
 'int-1024': {'records_per_chunk': 'builtins.int:4',
              'chunk_offsets': "{0: {'offset': 1, 'size': 159}}",
              'chunks': '(4, 10)',
              'repr': "Array(url='image', shape=(4, 10), dtype='uint16', records_per_chunk=4)"},
 'int-minus-1': {'records_per_chunk': 'builtins.int:4',
                 'chunk_offsets': "{0: {'offset': 1, 'size': 159}}",
                 'chunks': '(4, 10)',
                 'repr': "Array(url='image', shape=(4, 10), dtype='uint16', records_per_chunk=4)"},
 'int-minus-2': {'records_per_chunk': 'builtins.int:-2',
                 'chunk_offsets': '{}',
                 'chunks': '(-2, 10)',
                 'repr': "Array(url='image', shape=(4, 10), dtype='uint16', records_per_chunk=-2)"},
 'int-0': {'records_per_chunk': 'builtins.int:0',
           'chunk_offsets': '{}',
           'chunks': '(0, 10)',
           'repr': "Array(url='image', shape=(4, 10), dtype='uint16', records_per_chunk=0)"},
 'bool-true': {'records_per_chunk': 'builtins.bool:True',
               'chunk_offsets': "{0: {'offset': 1, 'size': 39}, 1: {'offset': 40, 'size': 40}, 2: "
                                "{'offset': 80, 'size': 40}, 3: {'offset': 120, 'size': 40}}",
               'chunks': '(True, 10)',
               'repr': "Array(url='image', shape=(4, 10), dtype='uint16', records_per_chunk=True)"},
 'bool-false': {'records_per_chunk': 'builtins.bool:False',
                'chunk_offsets': '{}',
                'chunks': '(False, 10)',
                'repr': "Array(url='image', shape=(4, 10), dtype='uint16', "
                        'records_per_chunk=False)'},
 'float': {'raises': ["TypeError: can't multiply sequence by non-int of type 'float'"]},
 'float-frac': {'raises': ["TypeError: can't multiply sequence by non-int of type 'float'"]},
 'float-minus-1': {'records_per_chunk': 'builtins.int:4',
                   'chunk_offsets': "{0: {'offset': 1, 'size': 159}}",
                   'chunks': '(4, 10)',
                   'repr': "Array(url='image', shape=(4, 10), dtype='uint16', "
                           'records_per_chunk=4)'},
 'np-int': {'records_per_chunk': 'numpy.int64:np.int64(2)',
            'chunk_offsets': "{0: {'offset': 1, 'size': 79}, 1: {'offset': 80, 'size': 80}}",
            'chunks': '(np.int64(2), 10)',
            'repr': "Array(url='image', shape=(4, 10), dtype='uint16', "
                    'records_per_chunk=np.int64(2))'},
 'np-int-large': {'records_per_chunk': 'builtins.int:4',
                  'chunk_offsets': "{0: {'offset': 1, 'size': 159}}",
                  'chunks': '(4, 10)',
                  'repr': "Array(url='image', shape=(4, 10), dtype='uint16', records_per_chunk=4)"},
 'list': {'raises': ["TypeError: '>' not supported between instances of 'list' and 'int'"]},
 'tuple': {'raises': ["TypeError: '>' not supported between instances of 'tuple' and 'int'"]},
 'complex': {'raises': ["TypeError: '>' not supported between instances of 'complex' and 'int'"]},
 'empty-ranges-none': {'records_per_chunk': 'builtins.int:1024',
                       'chunk_offsets': '{}',
                       'chunks': '(1024, 10)',
                       'repr': "Array(url='image', shape=(0, 10), dtype='uint16', "
                               'records_per_chunk=1024)'},
 'empty-ranges-auto': {'raises': ['ValueError: attempt to get argmin of an empty sequence']},
 'empty-ranges-int': {'records_per_chunk': 'builtins.int:0',
                      'chunk_offsets': '{}',
                      'chunks': '(0, 10)',
                      'repr': "Array(url='image', shape=(0, 10), dtype='uint16', "
                              'records_per_chunk=0)'},
 'empty-ranges-minus-1': {'records_per_chunk': 'builtins.int:0',
                          'chunk_offsets': '{}',
                          'chunks': '(0, 10)',
                          'repr': "Array(url='image', shape=(0, 10), dtype='uint16', "
                                  'records_per_chunk=0)'},
 'no-shape-none': {'records_per_chunk': 'builtins.int:1024',
                   'chunk_offsets': "{0: {'offset': 1, 'size': 159}}",
                   'chunks': '(1024,)',
                   'repr': "Array(url='image', shape=(), dtype='uint16', records_per_chunk=1024)"},
 'no-shape-auto': {'records_per_chunk': 'numpy.int64:np.int64(4)',
                   'chunk_offsets': "{0: {'offset': 1, 'size': 159}}",
                   'chunks': '(np.int64(4),)',
                   'repr': "Array(url='image', shape=(), dtype='uint16', "
                           'records_per_chunk=np.int64(4))'},
 'no-shape-int': {'raises': ['IndexError: tuple index out of range']},
 '1d-int': {'records_per_chunk': 'builtins.int:3',
            'chunk_offsets': "{0: {'offset': 1, 'size': 119}, 1: {'offset': 120, 'size': 40}}",
            'chunks': '(3,)',
            'repr': "Array(url='image', shape=(4,), dtype='uint16', records_per_chunk=3)"},
 '3d-none': {'records_per_chunk': 'builtins.int:1024',
             'chunk_offsets': "{0: {'offset': 1, 'size': 159}}",
             'chunks': '(1024, 3, 3)',
             'repr': "Array(url='image', shape=(4, 3, 3), dtype='uint16', records_per_chunk=1024)"},
 'shape-mismatch': {'records_per_chunk': 'builtins.int:2',
                    'chunk_offsets': "{0: {'offset': 1, 'size': 79}, 1: {'offset': 80, 'size': "
                                     '80}}',
                    'chunks': '(2, 10)',
                    'repr': "Array(url='image', shape=(2, 10), dtype='uint16', "
                            'records_per_chunk=2)'},
 'shape-list': {'records_per_chunk': 'builtins.int:4',
                'chunk_offsets': "{0: {'offset': 1, 'size': 159}}",
                'chunks': '(4, 10)',
                'repr': "Array(url='image', shape=[4, 10], dtype='uint16', records_per_chunk=4)"},
 'shape-none': {'raises': ["TypeError: 'NoneType' object is not subscriptable"]},
 'shape-none-auto': {'records_per_chunk': 'numpy.int64:np.int64(1)',
                     'chunk_offsets': "{0: {'offset': 1, 'size': 39}, 1: {'offset': 40, 'size': "
                                      "40}, 2: {'offset': 80, 'size': 40}, 3: {'offset': 120, "
                                      "'size': 40}}",
                     'chunks': "TypeError: 'NoneType' object is not subscriptable",
                     'repr': "Array(url='image', shape=None, dtype='uint16', "
                             'records_per_chunk=np.int64(1))'},
 'ranges-tuples-of-3': {'raises': ['ValueError: too many values to unpack (expected 2)']},
 'ranges-tuples-of-3-bad-spec': {'raises': ['ValueError: too many values to unpack (expected 2)']},
 'ranges-not-iterable': {'raises': ["TypeError: 'NoneType' object is not iterable"]},
 'ranges-strings': {'raises': ["TypeError: unsupported operand type(s) for -: 'str' and 'str'"]},
 'ranges-array': {'records_per_chunk': 'numpy.int64:np.int64(2)',
                  'chunk_offsets': "{0: {'offset': np.int64(1), 'size': np.int64(79)}, 1: "
                                   "{'offset': np.int64(80), 'size': np.int64(80)}}",
                  'chunks': '(np.int64(2), 10)',
                  'repr': "Array(url='image', shape=(4, 10), dtype='uint16', "
                          'records_per_chunk=np.int64(2))'},
 'ranges-generator': {'records_per_chunk': 'builtins.int:2',
                      'chunk_offsets': '{}',
                      'chunks': '(2, 10)',
                      'repr': "Array(url='image', shape=(4, 10), dtype='uint16', "
                              'records_per_chunk=2)'},
 'ranges-float': {'records_per_chunk': 'numpy.int64:np.int64(2)',
                  'chunk_offsets': "{0: {'offset': 0.0, 'size': 30.0}, 1: {'offset': 30.0, 'size': "
                                   '1.0}}',
                  'chunks': '(np.int64(2), 10)',
                  'repr': "Array(url='image', shape=(4, 10), dtype='uint16', "
                          'records_per_chunk=np.int64(2))'},
 'default': {'records_per_chunk': 'builtins.int:1024',
             'chunk_offsets': "{0: {'offset': 1, 'size': 159}}",
             'positional': "Array(url='image', shape=(4, 10), dtype='uint16', "
                           'records_per_chunk=np.int64(1))'},
 'state-after-failure': {'bad-unit': ('ValueError', "'5 foos'", "'sentinel'"),
                         'list': ('TypeError', '[2]', "'sentinel'"),
                         'no-shape': ('IndexError', '2', "'sentinel'")},
 'reinit': (('numpy.int64:np.int64(5)', "{0: {'offset': 0, 'size': 60}}"),
            ('numpy.int64:np.int64(5)', "{0: {'offset': 0, 'size': 60}}"))}
# END EXPECTED


def collect():
    return {name: case() for name, case in CASES.items()}


def test_equiv():
    actual = collect()
    assert set(actual) == set(EXPECTED)
    for name in CASES:
        assert actual[name] == EXPECTED[name], (name, actual[name], EXPECTED[name])


def test_public_names():
    # everything that was importable still is, with the same constants
    assert array.raw_dtypes.keys() == {"C*8", "IU2"}
    for name in ("normalize_chunksize", "determine_nearest_chunksize", "compute_chunk_offsets"):
        assert callable(getattr(array, name))
    assert array.parse_bytes("1kiB") == 1024


if __name__ == "__main__":
    if "--record" in sys.argv:
        pprint.pprint(collect(), width=100, sort_dicts=False)
    else:
        test_equiv()
        test_public_names()
        print(f"OK: {len(CASES)} cases identical to the recorded behaviour")
