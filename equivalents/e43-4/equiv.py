"""Equivalence check for refactoring 4 (caching/decoders.py: decode_variable,
decode_group, decode_hierarchy).

Run: cd /tmp/wt6/e43 && PYTHONPATH=/tmp/wt6/e43 /venv/bin/python _eq/4/equiv.py
The expectations in EXPECTED were recorded from the unchanged code (HEAD); the
script must pass both with and without patch.diff applied.
"""
import collections
import json
import pathlib
import sys
import warnings

import numpy as np

warnings.simplefilter("ignore")


def canon(obj):
    """Deterministic, type-aware description of a result."""
    from ceos_alos2.array import Array
    from ceos_alos2.hierarchy import Group, Variable

    if isinstance(obj, Group):
        return [
            "Group",
            canon(obj.path),
            canon(obj.url),
            canon(obj.attrs),
            [type(obj.data).__name__, [[canon(k), canon(v)] for k, v in obj.data.items()]],
        ]
    if isinstance(obj, Variable):
        return ["Variable", canon(obj.dims), canon(obj.data), canon(obj.attrs)]
    if isinstance(obj, Array):
        return [
            "Array",
            type(obj.fs).__name__,
            canon(getattr(obj.fs, "path", None)),
            type(getattr(obj.fs, "fs", None)).__name__,
            canon(obj.url),
            canon(obj.byte_ranges),
            canon(obj.shape),
            canon(obj.dtype),
            canon(obj.type_code),
            canon(obj.records_per_chunk),
            canon(obj.chunk_offsets),
        ]
    if isinstance(obj, np.ndarray):
        flat = obj.ravel()
        if obj.dtype.kind in "mM":
            items = [[str(v), int(v.astype("int64"))] for v in flat]
        else:
            items = [canon(v) for v in flat.tolist()]
        return ["ndarray", str(obj.dtype), list(obj.shape), items]
    if isinstance(obj, np.generic):
        return [type(obj).__name__, str(obj)]
    if isinstance(obj, dict):
        return [type(obj).__name__, [[canon(k), canon(v)] for k, v in obj.items()]]
    if isinstance(obj, (list, tuple)):
        return [type(obj).__name__, [canon(v) for v in obj]]
    if isinstance(obj, pathlib.PurePath):
        return [type(obj).__name__, str(obj)]
    if isinstance(obj, BaseException):
        return ["exc", type(obj).__name__, str(obj)]
    if obj is None or isinstance(obj, (bool, int, float, str, bytes)):
        return [type(obj).__name__, repr(obj)]
    return ["other", type(obj).__name__, repr(obj)]


def outcome(thunk):
    try:
        result = thunk()
    except BaseException as e:  # noqa: B902
        chain = []
        cur = e
        while cur is not None:
            chain.append([type(cur).__name__, str(cur)])
            cur = cur.__cause__
        return ["raised", chain]
    return ["returned", canon(result)]


def main(cases, expected_text):
    actual = {name: outcome(thunk) for name, thunk in cases().items()}
    if "--record" in sys.argv:
        lines = [f" {json.dumps(name)}: {json.dumps(actual[name])}" for name in sorted(actual)]
        print("{\n" + ",\n".join(lines) + "\n}")
        return
    expected = json.loads(expected_text)
    assert sorted(actual) == sorted(expected), (sorted(actual), sorted(expected))
    failures = [name for name in actual if json.loads(json.dumps(actual[name])) != expected[name]]
    for name in failures:
        print("MISMATCH", name, "\n  expected:", expected[name], "\n  actual:  ", actual[name])
    assert not failures, failures
    print(f"OK: {len(actual)} cases identical to the recorded behaviour")


class LoggingDict(dict):
    """dict that records the order in which keys are requested"""

    def __init__(self, *args, **kwargs):
        super().__init__(*args, **kwargs)
        self.log = []

    def __getitem__(self, key):
        self.log.append(("getitem", key))
        return super().__getitem__(key)

    def get(self, key, default=None):
        self.log.append(("get", key))
        return super().get(key, default)


class Opaque:
    def __repr__(self):
        return "Opaque()"


def drop(mapping, *keys):
    return {k: v for k, v in mapping.items() if k not in keys}


def cases():
    from ceos_alos2.sar_image import caching
    from ceos_alos2.sar_image.caching import decoders as dec

    def arr(dtype="int8", data=(1, 2, 3)):
        return {"__type__": "array", "dtype": dtype, "data": list(data), "encoding": {}}

    def backend(**overrides):
        encoded = {
            "__type__": "backend_array",
            "root": "memory://path/to",
            "url": "file",
            "shape": (4, 3),
            "dtype": "int16",
            "byte_ranges": [(5, 10), (15, 20), (25, 30), (35, 40)],
            "type_code": "IU2",
        }
        encoded.update(overrides)
        return encoded

    def var(data=None, dims=("x",), attrs=None, **extra):
        return {
            "__type__": "variable",
            "dims": list(dims),
            "data": arr() if data is None else data,
            "attrs": {} if attrs is None else attrs,
            **extra,
        }

    def group(data=None, path="/", url="s3://bucket/scene", attrs=None, **extra):
        return {
            "__type__": "group",
            "url": url,
            "data": {} if data is None else data,
            "path": path,
            "attrs": {} if attrs is None else attrs,
            **extra,
        }

    datetime_arr = {
        "__type__": "array",
        "dtype": "datetime64[s]",
        "data": [0, 86400],
        "encoding": {"reference": "2020-01-01T00:00:00", "units": "s"},
    }

    def tree():
        return group(
            {
                "b": var(attrs={"units": "m", "range": (0, 1)}),
                "a": var(datetime_arr, ["t"]),
                "imagery": group(
                    {
                        "data": var(backend(), ["rows", "cols"], {"pol": "HH"}),
                        "deeper": group({}, path="/imagery/deeper", url="other", attrs={"n": (1,)}),
                        "plain": {"k": "v"},
                    },
                    path="/wrong/path",
                    url=None,
                    attrs={"k": [1, (2, 3)]},
                ),
                "z": var(arr("float64", [0.5, 1.5]), ["p"], {"a": None}),
            },
            attrs={"title": "scene", "shape": (2, 3)},
        )

    rpcs = [None, 2, "auto"]
    c = {}

    # decode_variable
    variables = {
        "plain": var(),
        "attrs": var(attrs={"a": 1, "b": (1, 2), "c": {"d": []}}),
        "str-dims": var(dims="x"),
        "str-dims-raw": {**var(), "dims": "rows"},
        "no-dims": var(dims=[]),
        "2d": var(arr("int64", [[1, 2], [3, 4]]), ["a", "b"]),
        "datetime": var(datetime_arr, ["t"]),
        "backend": var(backend(), ["rows", "cols"]),
        "backend-complex": var(backend(dtype="complex64", type_code="C*8"), ["rows", "cols"]),
        "extra-keys": var(extra=1),
        "no-type": drop(var(), "__type__"),
        "group-type": {**var(), "__type__": "group"},
        "missing-dims": drop(var(), "dims"),
        "missing-data": drop(var(), "data"),
        "missing-attrs": drop(var(), "attrs"),
        "missing-dims-and-attrs": drop(var(), "dims", "attrs"),
        "missing-data-and-dims": drop(var(), "data", "dims"),
        "bad-data-and-missing-dims": drop(var({"__type__": "array"}), "dims"),
        "bad-data": var({"__type__": "array", "dtype": "int65", "data": []}),
        "data-is-list": var([1, 2]),
        "data-is-none": {**var(), "data": None},
        "data-backend-without-root": var(drop(backend(), "root")),
        "attrs-none": {**var(), "attrs": None},
        "dims-none": {**var(), "dims": None},
        "empty": {},
    }
    for name, obj in variables.items():
        for rpc in rpcs:
            if rpc == "auto" and "backend" not in name:
                continue
            c[f"variable-{name}-rpc{rpc}"] = lambda obj=obj, rpc=rpc: dec.decode_variable(
                obj, records_per_chunk=rpc
            )
    c["variable-positional-rpc"] = lambda: dec.decode_variable(variables["backend"], 3)
    c["variable-on-list"] = lambda: dec.decode_variable([1], 2)
    c["variable-on-none"] = lambda: dec.decode_variable(None, 2)

    def access_order(func, obj):
        def run():
            logged = LoggingDict(obj)
            out = outcome(lambda: func(logged, records_per_chunk=2))
            return [out, logged.log]

        return run

    c["variable-access-order"] = access_order(dec.decode_variable, variables["plain"])
    c["variable-access-order-bad-data"] = access_order(dec.decode_variable, variables["bad-data"])
    c["variable-access-order-empty"] = access_order(dec.decode_variable, {})

    # decode_group
    groups = {
        "empty": group(),
        "attrs": group(attrs={"a": (1, 2), "b": {"c": None}}),
        "path-none": group(path=None),
        "path-relative": group(path="a/b"),
        "url-none": group(url=None),
        "vars": group({"y": var(), "x": var(dims=["q"])}),
        "tree": tree(),
        "subtree": tree()["data"]["imagery"],
        "backend": group({"data": var(backend(), ["rows", "cols"])}),
        "passthrough-members": group(
            {"d": {"k": 1}, "e": {}, "typed": {"__type__": "array", "dtype": "int8", "data": [1]}}
        ),
        "member-int": group({"i": 1}),
        "member-none": group({"v": var(), "n": None}),
        "member-list": group({"l": [var()]}),
        "member-str": group({"s": "abc"}),
        "member-tuple-type": group({"t": {"__type__": "tuple", "data": [1]}}),
        "member-unhashable-type": group({"v": var(), "u": {"__type__": ["group"]}}),
        "member-dict-type": group({"u": {"__type__": {"a": 1}}}),
        "member-broken-variable": group({"ok": var(), "bad": drop(var(), "dims")}),
        "member-broken-group": group({"bad": drop(group(), "path"), "never": 1}),
        "member-bad-array": group({"bad": var({"__type__": "array", "dtype": "int65", "data": []})}),
        "data-list": {**group(), "data": [var()]},
        "data-none": {**group(), "data": None},
        "data-str": {**group(), "data": "abc"},
        "data-ordered": {**group(), "data": collections.OrderedDict([("q", var()), ("p", var())])},
        "extra-keys": group(extra=1),
        "no-type": drop(group({"v": var()}), "__type__"),
        "variable-type": {**group(), "__type__": "variable"},
        "missing-data": drop(group(), "data"),
        "missing-path": drop(group(), "path"),
        "missing-url": drop(group(), "url"),
        "missing-attrs": drop(group(), "attrs"),
        "missing-path-and-url": drop(group(), "path", "url"),
        "missing-url-and-attrs": drop(group(), "url", "attrs"),
        "missing-data-and-path": drop(group(), "data", "path"),
        "bad-member-and-missing-path": drop(group({"i": 1}), "path"),
        "empty-dict": {},
    }
    for name, obj in groups.items():
        for rpc in rpcs:
            if rpc == "auto" and name not in ("tree", "backend", "subtree"):
                continue
            c[f"group-{name}-rpc{rpc}"] = lambda obj=obj, rpc=rpc: dec.decode_group(
                obj, records_per_chunk=rpc
            )
    c["group-positional-rpc"] = lambda: dec.decode_group(groups["backend"], 3)
    c["group-on-list"] = lambda: dec.decode_group([1], 2)
    c["group-on-none"] = lambda: dec.decode_group(None, 2)
    c["group-member-order"] = lambda: [
        list(dec.decode_group(tree(), records_per_chunk=2)),
        list(dec.decode_group(tree(), records_per_chunk=2)["imagery"]),
    ]
    c["group-access-order"] = access_order(dec.decode_group, groups["vars"])
    c["group-access-order-bad-member"] = access_order(dec.decode_group, groups["member-int"])
    c["group-access-order-empty"] = access_order(dec.decode_group, {})

    def group_rpc_reaches_leaves():
        decoded = dec.decode_group(tree(), records_per_chunk=3)
        return decoded["imagery"]["data"].data.records_per_chunk

    c["group-rpc-reaches-leaves"] = group_rpc_reaches_leaves

    def group_members_raising_typeerror():
        # a TypeError raised while decoding a member must surface unchanged
        bad = var(backend(byte_ranges=[1, 2]), ["rows", "cols"])
        return dec.decode_group(group({"bad": bad}), records_per_chunk=2)

    c["group-member-typeerror"] = group_members_raising_typeerror

    # decode_hierarchy
    objs = {
        "group": tree(),
        "variable": var(attrs={"a": (1, 2)}),
        "backend-variable": var(backend(), ["rows", "cols"]),
        "array": arr(),
        "backend-array": backend(),
        "tuple-type": {"__type__": "tuple", "data": [1]},
        "unknown-type": {"__type__": "dataset", "data": {}},
        "type-none": {"__type__": None, "data": {}},
        "type-int": {"__type__": 1},
        "type-bytes": {"__type__": b"group"},
        "type-upper": {"__type__": "GROUP"},
        "type-tuple": {"__type__": ("group",)},
        "type-list": {"__type__": ["group"]},
        "type-dict": {"__type__": {}},
        "type-set": {"__type__": {1}},
        "type-frozenset": {"__type__": frozenset(["group"])},
        "type-nan": {"__type__": float("nan")},
        "no-type": {"data": {}, "dims": []},
        "empty": {},
        "ordered": collections.OrderedDict(var()),
        "broken-group": {"__type__": "group"},
        "broken-variable": {"__type__": "variable"},
    }
    for name, obj in objs.items():
        for rpc in rpcs:
            if rpc == "auto" and name not in ("group", "backend-variable"):
                continue
            c[f"hierarchy-{name}-rpc{rpc}"] = lambda obj=obj, rpc=rpc: dec.decode_hierarchy(
                obj, records_per_chunk=rpc
            )
    c["hierarchy-positional-rpc"] = lambda: dec.decode_hierarchy(objs["backend-variable"], 3)
    for name, value in {
        "list": [1],
        "none": None,
        "int": 1,
        "str": "group",
        "tuple": (1,),
        "opaque": Opaque(),
    }.items():
        c[f"hierarchy-on-{name}"] = lambda value=value: dec.decode_hierarchy(value, 2)

    def passthrough_identity():
        return [
            dec.decode_hierarchy(o, records_per_chunk=2) is o
            for o in (objs["array"], objs["empty"], objs["unknown-type"], objs["type-none"])
        ]

    c["hierarchy-passthrough-identity"] = passthrough_identity
    c["hierarchy-access-order-group"] = access_order(dec.decode_hierarchy, groups["vars"])
    c["hierarchy-access-order-variable"] = access_order(dec.decode_hierarchy, variables["plain"])
    c["hierarchy-access-order-other"] = access_order(dec.decode_hierarchy, objs["array"])

    # through the public entry point
    def through_json(obj):
        from ceos_alos2.sar_image.caching.encoders import preprocess

        return lambda: caching.decode(json.dumps(preprocess(obj)), records_per_chunk=2)

    c["decode-tree"] = through_json(tree())
    c["decode-variable"] = through_json(variables["attrs"])
    c["decode-plain"] = through_json({"a": (1, 2)})
    c["decode-unhashable-type"] = through_json({"__type__": ["group"]})
    c["decode-nested-unhashable-type"] = through_json(groups["member-unhashable-type"])
    c["decode-list"] = lambda: caching.decode("[1, 2]", records_per_chunk=2)
    c["decode-scalar"] = lambda: caching.decode("1", records_per_chunk=2)

    return c


EXPECTED = r'''
{
 "decode-list": ["raised", [["AttributeError", "'list' object has no attribute 'get'"]]],
 "decode-nested-unhashable-type": ["raised", [["TypeError", "unhashable type: 'list'"]]],
 "decode-plain": ["returned", ["dict", [[["str", "'a'"], ["tuple", [["int", "1"], ["int", "2"]]]]]]],
 "decode-scalar": ["raised", [["AttributeError", "'int' object has no attribute 'get'"]]],
 "decode-tree": ["returned", ["Group", ["str", "'/'"], ["str", "'s3://bucket/scene'"], ["dict", [[["str", "'title'"], ["str", "'scene'"]], [["str", "'shape'"], ["tuple", [["int", "2"], ["int", "3"]]]]]], ["dict", [[["str", "'b'"], ["Variable", ["list", [["str", "'x'"]]], ["ndarray", "int8", [3], [["int", "1"], ["int", "2"], ["int", "3"]]], ["dict", [[["str", "'units'"], ["str", "'m'"]], [["str", "'range'"], ["tuple", [["int", "0"], ["int", "1"]]]]]]]], [["str", "'a'"], ["Variable", ["list", [["str", "'t'"]]], ["ndarray", "datetime64[s]", [2], [["2020-01-01T00:00:00", 1577836800], ["2020-01-02T00:00:00", 1577923200]]], ["dict", []]]], [["str", "'imagery'"], ["Group", ["str", "'/imagery'"], ["str", "'s3://bucket/scene'"], ["dict", [[["str", "'k'"], ["list", [["int", "1"], ["tuple", [["int", "2"], ["int", "3"]]]]]]]], ["dict", [[["str", "'data'"], ["Variable", ["list", [["str", "'rows'"], ["str", "'cols'"]]], ["Array", "DirFileSystem", ["str", "'/path/to'"], "MemoryFileSystem", ["str", "'file'"], ["list", [["tuple", [["int", "5"], ["int", "10"]]], ["tuple", [["int", "15"], ["int", "20"]]], ["tuple", [["int", "25"], ["int", "30"]]], ["tuple", [["int", "35"], ["int", "40"]]]]], ["tuple", [["int", "4"], ["int", "3"]]], ["str", "'int16'"], ["str", "'IU2'"], ["int", "2"], ["dict", [[["int", "0"], ["dict", [[["str", "'offset'"], ["int", "5"]], [["str", "'size'"], ["int", "15"]]]]], [["int", "1"], ["dict", [[["str", "'offset'"], ["int", "25"]], [["str", "'size'"], ["int", "15"]]]]]]]], ["dict", [[["str", "'pol'"], ["str", "'HH'"]]]]]], [["str", "'deeper'"], ["Group", ["str", "'/imagery/deeper'"], ["str", "'other'"], ["dict", [[["str", "'n'"], ["tuple", [["int", "1"]]]]]], ["dict", []]]], [["str", "'plain'"], ["dict", [[["str", "'k'"], ["str", "'v'"]]]]]]]]], [["str", "'z'"], ["Variable", ["list", [["str", "'p'"]]], ["ndarray", "float64", [2], [["float", "0.5"], ["float", "1.5"]]], ["dict", [[["str", "'a'"], ["NoneType", "None"]]]]]]]]]],
 "decode-unhashable-type": ["raised", [["TypeError", "unhashable type: 'list'"]]],
 "decode-variable": ["returned", ["Variable", ["list", [["str", "'x'"]]], ["ndarray", "int8", [3], [["int", "1"], ["int", "2"], ["int", "3"]]], ["dict", [[["str", "'a'"], ["int", "1"]], [["str", "'b'"], ["tuple", [["int", "1"], ["int", "2"]]]], [["str", "'c'"], ["dict", [[["str", "'d'"], ["list", []]]]]]]]]],
 "group-access-order": ["returned", ["list", [["list", [["str", "'returned'"], ["list", [["str", "'Group'"], ["list", [["str", "'str'"], ["str", "\"'/'\""]]], ["list", [["str", "'str'"], ["str", "\"'s3://bucket/scene'\""]]], ["list", [["str", "'dict'"], ["list", []]]], ["list", [["str", "'dict'"], ["list", [["list", [["list", [["str", "'str'"], ["str", "\"'y'\""]]], ["list", [["str", "'Variable'"], ["list", [["str", "'list'"], ["list", [["list", [["str", "'str'"], ["str", "\"'x'\""]]]]]]], ["list", [["str", "'ndarray'"], ["str", "'int8'"], ["list", [["int", "3"]]], ["list", [["list", [["str", "'int'"], ["str", "'1'"]]], ["list", [["str", "'int'"], ["str", "'2'"]]], ["list", [["str", "'int'"], ["str", "'3'"]]]]]]], ["list", [["str", "'dict'"], ["list", []]]]]]]], ["list", [["list", [["str", "'str'"], ["str", "\"'x'\""]]], ["list", [["str", "'Variable'"], ["list", [["str", "'list'"], ["list", [["list", [["str", "'str'"], ["str", "\"'q'\""]]]]]]], ["list", [["str", "'ndarray'"], ["str", "'int8'"], ["list", [["int", "3"]]], ["list", [["list", [["str", "'int'"], ["str", "'1'"]]], ["list", [["str", "'int'"], ["str", "'2'"]]], ["list", [["str", "'int'"], ["str", "'3'"]]]]]]], ["list", [["str", "'dict'"], ["list", []]]]]]]]]]]]]]]], ["list", [["tuple", [["str", "'getitem'"], ["str", "'data'"]]], ["tuple", [["str", "'getitem'"], ["str", "'path'"]]], ["tuple", [["str", "'getitem'"], ["str", "'url'"]]], ["tuple", [["str", "'getitem'"], ["str", "'attrs'"]]]]]]]],
 "group-access-order-bad-member": ["returned", ["list", [["list", [["str", "'raised'"], ["list", [["list", [["str", "'AttributeError'"], ["str", "\"'int' object has no attribute 'get'\""]]]]]]], ["list", [["tuple", [["str", "'getitem'"], ["str", "'data'"]]]]]]]],
 "group-access-order-empty": ["returned", ["list", [["list", [["str", "'raised'"], ["list", [["list", [["str", "'KeyError'"], ["str", "\"'data'\""]]]]]]], ["list", [["tuple", [["str", "'getitem'"], ["str", "'data'"]]]]]]]],
 "group-attrs-rpc2": ["returned", ["Group", ["str", "'/'"], ["str", "'s3://bucket/scene'"], ["dict", [[["str", "'a'"], ["tuple", [["int", "1"], ["int", "2"]]]], [["str", "'b'"], ["dict", [[["str", "'c'"], ["NoneType", "None"]]]]]]], ["dict", []]]],
 "group-attrs-rpcNone": ["returned", ["Group", ["str", "'/'"], ["str", "'s3://bucket/scene'"], ["dict", [[["str", "'a'"], ["tuple", [["int", "1"], ["int", "2"]]]], [["str", "'b'"], ["dict", [[["str", "'c'"], ["NoneType", "None"]]]]]]], ["dict", []]]],
 "group-backend-rpc2": ["returned", ["Group", ["str", "'/'"], ["str", "'s3://bucket/scene'"], ["dict", []], ["dict", [[["str", "'data'"], ["Variable", ["list", [["str", "'rows'"], ["str", "'cols'"]]], ["Array", "DirFileSystem", ["str", "'/path/to'"], "MemoryFileSystem", ["str", "'file'"], ["list", [["tuple", [["int", "5"], ["int", "10"]]], ["tuple", [["int", "15"], ["int", "20"]]], ["tuple", [["int", "25"], ["int", "30"]]], ["tuple", [["int", "35"], ["int", "40"]]]]], ["tuple", [["int", "4"], ["int", "3"]]], ["str", "'int16'"], ["str", "'IU2'"], ["int", "2"], ["dict", [[["int", "0"], ["dict", [[["str", "'offset'"], ["int", "5"]], [["str", "'size'"], ["int", "15"]]]]], [["int", "1"], ["dict", [[["str", "'offset'"], ["int", "25"]], [["str", "'size'"], ["int", "15"]]]]]]]], ["dict", []]]]]]]],
 "group-backend-rpcNone": ["returned", ["Group", ["str", "'/'"], ["str", "'s3://bucket/scene'"], ["dict", []], ["dict", [[["str", "'data'"], ["Variable", ["list", [["str", "'rows'"], ["str", "'cols'"]]], ["Array", "DirFileSystem", ["str", "'/path/to'"], "MemoryFileSystem", ["str", "'file'"], ["list", [["tuple", [["int", "5"], ["int", "10"]]], ["tuple", [["int", "15"], ["int", "20"]]], ["tuple", [["int", "25"], ["int", "30"]]], ["tuple", [["int", "35"], ["int", "40"]]]]], ["tuple", [["int", "4"], ["int", "3"]]], ["str", "'int16'"], ["str", "'IU2'"], ["int", "1024"], ["dict", [[["int", "0"], ["dict", [[["str", "'offset'"], ["int", "5"]], [["str", "'size'"], ["int", "35"]]]]]]]], ["dict", []]]]]]]],
 "group-backend-rpcauto": ["returned", ["Group", ["str", "'/'"], ["str", "'s3://bucket/scene'"], ["dict", []], ["dict", [[["str", "'data'"], ["Variable", ["list", [["str", "'rows'"], ["str", "'cols'"]]], ["Array", "DirFileSystem", ["str", "'/path/to'"], "MemoryFileSystem", ["str", "'file'"], ["list", [["tuple", [["int", "5"], ["int", "10"]]], ["tuple", [["int", "15"], ["int", "20"]]], ["tuple", [["int", "25"], ["int", "30"]]], ["tuple", [["int", "35"], ["int", "40"]]]]], ["tuple", [["int", "4"], ["int", "3"]]], ["str", "'int16'"], ["str", "'IU2'"], ["int64", "4"], ["dict", [[["int", "0"], ["dict", [[["str", "'offset'"], ["int", "5"]], [["str", "'size'"], ["int", "35"]]]]]]]], ["dict", []]]]]]]],
 "group-bad-member-and-missing-path-rpc2": ["raised", [["AttributeError", "'int' object has no attribute 'get'"]]],
 "group-bad-member-and-missing-path-rpcNone": ["raised", [["AttributeError", "'int' object has no attribute 'get'"]]],
 "group-data-list-rpc2": ["raised", [["AttributeError", "'list' object has no attribute 'keys'"]]],
 "group-data-list-rpcNone": ["raised", [["AttributeError", "'list' object has no attribute 'keys'"]]],
 "group-data-none-rpc2": ["raised", [["AttributeError", "'NoneType' object has no attribute 'keys'"]]],
 "group-data-none-rpcNone": ["raised", [["AttributeError", "'NoneType' object has no attribute 'keys'"]]],
 "group-data-ordered-rpc2": ["returned", ["Group", ["str", "'/'"], ["str", "'s3://bucket/scene'"], ["dict", []], ["dict", [[["str", "'q'"], ["Variable", ["list", [["str", "'x'"]]], ["ndarray", "int8", [3], [["int", "1"], ["int", "2"], ["int", "3"]]], ["dict", []]]], [["str", "'p'"], ["Variable", ["list", [["str", "'x'"]]], ["ndarray", "int8", [3], [["int", "1"], ["int", "2"], ["int", "3"]]], ["dict", []]]]]]]],
 "group-data-ordered-rpcNone": ["returned", ["Group", ["str", "'/'"], ["str", "'s3://bucket/scene'"], ["dict", []], ["dict", [[["str", "'q'"], ["Variable", ["list", [["str", "'x'"]]], ["ndarray", "int8", [3], [["int", "1"], ["int", "2"], ["int", "3"]]], ["dict", []]]], [["str", "'p'"], ["Variable", ["list", [["str", "'x'"]]], ["ndarray", "int8", [3], [["int", "1"], ["int", "2"], ["int", "3"]]], ["dict", []]]]]]]],
 "group-data-str-rpc2": ["raised", [["AttributeError", "'str' object has no attribute 'keys'"]]],
 "group-data-str-rpcNone": ["raised", [["AttributeError", "'str' object has no attribute 'keys'"]]],
 "group-empty-dict-rpc2": ["raised", [["KeyError", "'data'"]]],
 "group-empty-dict-rpcNone": ["raised", [["KeyError", "'data'"]]],
 "group-empty-rpc2": ["returned", ["Group", ["str", "'/'"], ["str", "'s3://bucket/scene'"], ["dict", []], ["dict", []]]],
 "group-empty-rpcNone": ["returned", ["Group", ["str", "'/'"], ["str", "'s3://bucket/scene'"], ["dict", []], ["dict", []]]],
 "group-extra-keys-rpc2": ["returned", ["Group", ["str", "'/'"], ["str", "'s3://bucket/scene'"], ["dict", []], ["dict", []]]],
 "group-extra-keys-rpcNone": ["returned", ["Group", ["str", "'/'"], ["str", "'s3://bucket/scene'"], ["dict", []], ["dict", []]]],
 "group-member-bad-array-rpc2": ["raised", [["TypeError", "data type 'int65' not understood"]]],
 "group-member-bad-array-rpcNone": ["raised", [["TypeError", "data type 'int65' not understood"]]],
 "group-member-broken-group-rpc2": ["raised", [["KeyError", "'path'"]]],
 "group-member-broken-group-rpcNone": ["raised", [["KeyError", "'path'"]]],
 "group-member-broken-variable-rpc2": ["raised", [["KeyError", "'dims'"]]],
 "group-member-broken-variable-rpcNone": ["raised", [["KeyError", "'dims'"]]],
 "group-member-dict-type-rpc2": ["raised", [["TypeError", "unhashable type: 'dict'"]]],
 "group-member-dict-type-rpcNone": ["raised", [["TypeError", "unhashable type: 'dict'"]]],
 "group-member-int-rpc2": ["raised", [["AttributeError", "'int' object has no attribute 'get'"]]],
 "group-member-int-rpcNone": ["raised", [["AttributeError", "'int' object has no attribute 'get'"]]],
 "group-member-list-rpc2": ["raised", [["AttributeError", "'list' object has no attribute 'get'"]]],
 "group-member-list-rpcNone": ["raised", [["AttributeError", "'list' object has no attribute 'get'"]]],
 "group-member-none-rpc2": ["raised", [["AttributeError", "'NoneType' object has no attribute 'get'"]]],
 "group-member-none-rpcNone": ["raised", [["AttributeError", "'NoneType' object has no attribute 'get'"]]],
 "group-member-order": ["returned", ["list", [["list", [["str", "'b'"], ["str", "'a'"], ["str", "'imagery'"], ["str", "'z'"]]], ["list", [["str", "'data'"], ["str", "'deeper'"], ["str", "'plain'"]]]]]],
 "group-member-str-rpc2": ["raised", [["AttributeError", "'str' object has no attribute 'get'"]]],
 "group-member-str-rpcNone": ["raised", [["AttributeError", "'str' object has no attribute 'get'"]]],
 "group-member-tuple-type-rpc2": ["returned", ["Group", ["str", "'/'"], ["str", "'s3://bucket/scene'"], ["dict", []], ["dict", [[["str", "'t'"], ["dict", [[["str", "'__type__'"], ["str", "'tuple'"]], [["str", "'data'"], ["list", [["int", "1"]]]]]]]]]]],
 "group-member-tuple-type-rpcNone": ["returned", ["Group", ["str", "'/'"], ["str", "'s3://bucket/scene'"], ["dict", []], ["dict", [[["str", "'t'"], ["dict", [[["str", "'__type__'"], ["str", "'tuple'"]], [["str", "'data'"], ["list", [["int", "1"]]]]]]]]]]],
 "group-member-typeerror": ["raised", [["TypeError", "cannot unpack non-iterable int object"]]],
 "group-member-unhashable-type-rpc2": ["raised", [["TypeError", "unhashable type: 'list'"]]],
 "group-member-unhashable-type-rpcNone": ["raised", [["TypeError", "unhashable type: 'list'"]]],
 "group-missing-attrs-rpc2": ["raised", [["KeyError", "'attrs'"]]],
 "group-missing-attrs-rpcNone": ["raised", [["KeyError", "'attrs'"]]],
 "group-missing-data-and-path-rpc2": ["raised", [["KeyError", "'data'"]]],
 "group-missing-data-and-path-rpcNone": ["raised", [["KeyError", "'data'"]]],
 "group-missing-data-rpc2": ["raised", [["KeyError", "'data'"]]],
 "group-missing-data-rpcNone": ["raised", [["KeyError", "'data'"]]],
 "group-missing-path-and-url-rpc2": ["raised", [["KeyError", "'path'"]]],
 "group-missing-path-and-url-rpcNone": ["raised", [["KeyError", "'path'"]]],
 "group-missing-path-rpc2": ["raised", [["KeyError", "'path'"]]],
 "group-missing-path-rpcNone": ["raised", [["KeyError", "'path'"]]],
 "group-missing-url-and-attrs-rpc2": ["raised", [["KeyError", "'url'"]]],
 "group-missing-url-and-attrs-rpcNone": ["raised", [["KeyError", "'url'"]]],
 "group-missing-url-rpc2": ["raised", [["KeyError", "'url'"]]],
 "group-missing-url-rpcNone": ["raised", [["KeyError", "'url'"]]],
 "group-no-type-rpc2": ["returned", ["Group", ["str", "'/'"], ["str", "'s3://bucket/scene'"], ["dict", []], ["dict", [[["str", "'v'"], ["Variable", ["list", [["str", "'x'"]]], ["ndarray", "int8", [3], [["int", "1"], ["int", "2"], ["int", "3"]]], ["dict", []]]]]]]],
 "group-no-type-rpcNone": ["returned", ["Group", ["str", "'/'"], ["str", "'s3://bucket/scene'"], ["dict", []], ["dict", [[["str", "'v'"], ["Variable", ["list", [["str", "'x'"]]], ["ndarray", "int8", [3], [["int", "1"], ["int", "2"], ["int", "3"]]], ["dict", []]]]]]]],
 "group-on-list": ["raised", [["TypeError", "list indices must be integers or slices, not str"]]],
 "group-on-none": ["raised", [["TypeError", "'NoneType' object is not subscriptable"]]],
 "group-passthrough-members-rpc2": ["returned", ["Group", ["str", "'/'"], ["str", "'s3://bucket/scene'"], ["dict", []], ["dict", [[["str", "'d'"], ["dict", [[["str", "'k'"], ["int", "1"]]]]], [["str", "'e'"], ["dict", []]], [["str", "'typed'"], ["dict", [[["str", "'__type__'"], ["str", "'array'"]], [["str", "'dtype'"], ["str", "'int8'"]], [["str", "'data'"], ["list", [["int", "1"]]]]]]]]]]],
 "group-passthrough-members-rpcNone": ["returned", ["Group", ["str", "'/'"], ["str", "'s3://bucket/scene'"], ["dict", []], ["dict", [[["str", "'d'"], ["dict", [[["str", "'k'"], ["int", "1"]]]]], [["str", "'e'"], ["dict", []]], [["str", "'typed'"], ["dict", [[["str", "'__type__'"], ["str", "'array'"]], [["str", "'dtype'"], ["str", "'int8'"]], [["str", "'data'"], ["list", [["int", "1"]]]]]]]]]]],
 "group-path-none-rpc2": ["returned", ["Group", ["str", "'/'"], ["str", "'s3://bucket/scene'"], ["dict", []], ["dict", []]]],
 "group-path-none-rpcNone": ["returned", ["Group", ["str", "'/'"], ["str", "'s3://bucket/scene'"], ["dict", []], ["dict", []]]],
 "group-path-relative-rpc2": ["returned", ["Group", ["str", "'a/b'"], ["str", "'s3://bucket/scene'"], ["dict", []], ["dict", []]]],
 "group-path-relative-rpcNone": ["returned", ["Group", ["str", "'a/b'"], ["str", "'s3://bucket/scene'"], ["dict", []], ["dict", []]]],
 "group-positional-rpc": ["returned", ["Group", ["str", "'/'"], ["str", "'s3://bucket/scene'"], ["dict", []], ["dict", [[["str", "'data'"], ["Variable", ["list", [["str", "'rows'"], ["str", "'cols'"]]], ["Array", "DirFileSystem", ["str", "'/path/to'"], "MemoryFileSystem", ["str", "'file'"], ["list", [["tuple", [["int", "5"], ["int", "10"]]], ["tuple", [["int", "15"], ["int", "20"]]], ["tuple", [["int", "25"], ["int", "30"]]], ["tuple", [["int", "35"], ["int", "40"]]]]], ["tuple", [["int", "4"], ["int", "3"]]], ["str", "'int16'"], ["str", "'IU2'"], ["int", "3"], ["dict", [[["int", "0"], ["dict", [[["str", "'offset'"], ["int", "5"]], [["str", "'size'"], ["int", "25"]]]]], [["int", "1"], ["dict", [[["str", "'offset'"], ["int", "35"]], [["str", "'size'"], ["int", "5"]]]]]]]], ["dict", []]]]]]]],
 "group-rpc-reaches-leaves": ["returned", ["int", "3"]],
 "group-subtree-rpc2": ["returned", ["Group", ["str", "'/wrong/path'"], ["NoneType", "None"], ["dict", [[["str", "'k'"], ["list", [["int", "1"], ["tuple", [["int", "2"], ["int", "3"]]]]]]]], ["dict", [[["str", "'data'"], ["Variable", ["list", [["str", "'rows'"], ["str", "'cols'"]]], ["Array", "DirFileSystem", ["str", "'/path/to'"], "MemoryFileSystem", ["str", "'file'"], ["list", [["tuple", [["int", "5"], ["int", "10"]]], ["tuple", [["int", "15"], ["int", "20"]]], ["tuple", [["int", "25"], ["int", "30"]]], ["tuple", [["int", "35"], ["int", "40"]]]]], ["tuple", [["int", "4"], ["int", "3"]]], ["str", "'int16'"], ["str", "'IU2'"], ["int", "2"], ["dict", [[["int", "0"], ["dict", [[["str", "'offset'"], ["int", "5"]], [["str", "'size'"], ["int", "15"]]]]], [["int", "1"], ["dict", [[["str", "'offset'"], ["int", "25"]], [["str", "'size'"], ["int", "15"]]]]]]]], ["dict", [[["str", "'pol'"], ["str", "'HH'"]]]]]], [["str", "'deeper'"], ["Group", ["str", "'/wrong/path/deeper'"], ["str", "'other'"], ["dict", [[["str", "'n'"], ["tuple", [["int", "1"]]]]]], ["dict", []]]], [["str", "'plain'"], ["dict", [[["str", "'k'"], ["str", "'v'"]]]]]]]]],
 "group-subtree-rpcNone": ["returned", ["Group", ["str", "'/wrong/path'"], ["NoneType", "None"], ["dict", [[["str", "'k'"], ["list", [["int", "1"], ["tuple", [["int", "2"], ["int", "3"]]]]]]]], ["dict", [[["str", "'data'"], ["Variable", ["list", [["str", "'rows'"], ["str", "'cols'"]]], ["Array", "DirFileSystem", ["str", "'/path/to'"], "MemoryFileSystem", ["str", "'file'"], ["list", [["tuple", [["int", "5"], ["int", "10"]]], ["tuple", [["int", "15"], ["int", "20"]]], ["tuple", [["int", "25"], ["int", "30"]]], ["tuple", [["int", "35"], ["int", "40"]]]]], ["tuple", [["int", "4"], ["int", "3"]]], ["str", "'int16'"], ["str", "'IU2'"], ["int", "1024"], ["dict", [[["int", "0"], ["dict", [[["str", "'offset'"], ["int", "5"]], [["str", "'size'"], ["int", "35"]]]]]]]], ["dict", [[["str", "'pol'"], ["str", "'HH'"]]]]]], [["str", "'deeper'"], ["Group", ["str", "'/wrong/path/deeper'"], ["str", "'other'"], ["dict", [[["str", "'n'"], ["tuple", [["int", "1"]]]]]], ["dict", []]]], [["str", "'plain'"], ["dict", [[["str", "'k'"], ["str", "'v'"]]]]]]]]],
 "group-subtree-rpcauto": ["returned", ["Group", ["str", "'/wrong/path'"], ["NoneType", "None"], ["dict", [[["str", "'k'"], ["list", [["int", "1"], ["tuple", [["int", "2"], ["int", "3"]]]]]]]], ["dict", [[["str", "'data'"], ["Variable", ["list", [["str", "'rows'"], ["str", "'cols'"]]], ["Array", "DirFileSystem", ["str", "'/path/to'"], "MemoryFileSystem", ["str", "'file'"], ["list", [["tuple", [["int", "5"], ["int", "10"]]], ["tuple", [["int", "15"], ["int", "20"]]], ["tuple", [["int", "25"], ["int", "30"]]], ["tuple", [["int", "35"], ["int", "40"]]]]], ["tuple", [["int", "4"], ["int", "3"]]], ["str", "'int16'"], ["str", "'IU2'"], ["int64", "4"], ["dict", [[["int", "0"], ["dict", [[["str", "'offset'"], ["int", "5"]], [["str", "'size'"], ["int", "35"]]]]]]]], ["dict", [[["str", "'pol'"], ["str", "'HH'"]]]]]], [["str", "'deeper'"], ["Group", ["str", "'/wrong/path/deeper'"], ["str", "'other'"], ["dict", [[["str", "'n'"], ["tuple", [["int", "1"]]]]]], ["dict", []]]], [["str", "'plain'"], ["dict", [[["str", "'k'"], ["str", "'v'"]]]]]]]]],
 "group-tree-rpc2": ["returned", ["Group", ["str", "'/'"], ["str", "'s3://bucket/scene'"], ["dict", [[["str", "'title'"], ["str", "'scene'"]], [["str", "'shape'"], ["tuple", [["int", "2"], ["int", "3"]]]]]], ["dict", [[["str", "'b'"], ["Variable", ["list", [["str", "'x'"]]], ["ndarray", "int8", [3], [["int", "1"], ["int", "2"], ["int", "3"]]], ["dict", [[["str", "'units'"], ["str", "'m'"]], [["str", "'range'"], ["tuple", [["int", "0"], ["int", "1"]]]]]]]], [["str", "'a'"], ["Variable", ["list", [["str", "'t'"]]], ["ndarray", "datetime64[s]", [2], [["2020-01-01T00:00:00", 1577836800], ["2020-01-02T00:00:00", 1577923200]]], ["dict", []]]], [["str", "'imagery'"], ["Group", ["str", "'/imagery'"], ["str", "'s3://bucket/scene'"], ["dict", [[["str", "'k'"], ["list", [["int", "1"], ["tuple", [["int", "2"], ["int", "3"]]]]]]]], ["dict", [[["str", "'data'"], ["Variable", ["list", [["str", "'rows'"], ["str", "'cols'"]]], ["Array", "DirFileSystem", ["str", "'/path/to'"], "MemoryFileSystem", ["str", "'file'"], ["list", [["tuple", [["int", "5"], ["int", "10"]]], ["tuple", [["int", "15"], ["int", "20"]]], ["tuple", [["int", "25"], ["int", "30"]]], ["tuple", [["int", "35"], ["int", "40"]]]]], ["tuple", [["int", "4"], ["int", "3"]]], ["str", "'int16'"], ["str", "'IU2'"], ["int", "2"], ["dict", [[["int", "0"], ["dict", [[["str", "'offset'"], ["int", "5"]], [["str", "'size'"], ["int", "15"]]]]], [["int", "1"], ["dict", [[["str", "'offset'"], ["int", "25"]], [["str", "'size'"], ["int", "15"]]]]]]]], ["dict", [[["str", "'pol'"], ["str", "'HH'"]]]]]], [["str", "'deeper'"], ["Group", ["str", "'/imagery/deeper'"], ["str", "'other'"], ["dict", [[["str", "'n'"], ["tuple", [["int", "1"]]]]]], ["dict", []]]], [["str", "'plain'"], ["dict", [[["str", "'k'"], ["str", "'v'"]]]]]]]]], [["str", "'z'"], ["Variable", ["list", [["str", "'p'"]]], ["ndarray", "float64", [2], [["float", "0.5"], ["float", "1.5"]]], ["dict", [[["str", "'a'"], ["NoneType", "None"]]]]]]]]]],
 "group-tree-rpcNone": ["returned", ["Group", ["str", "'/'"], ["str", "'s3://bucket/scene'"], ["dict", [[["str", "'title'"], ["str", "'scene'"]], [["str", "'shape'"], ["tuple", [["int", "2"], ["int", "3"]]]]]], ["dict", [[["str", "'b'"], ["Variable", ["list", [["str", "'x'"]]], ["ndarray", "int8", [3], [["int", "1"], ["int", "2"], ["int", "3"]]], ["dict", [[["str", "'units'"], ["str", "'m'"]], [["str", "'range'"], ["tuple", [["int", "0"], ["int", "1"]]]]]]]], [["str", "'a'"], ["Variable", ["list", [["str", "'t'"]]], ["ndarray", "datetime64[s]", [2], [["2020-01-01T00:00:00", 1577836800], ["2020-01-02T00:00:00", 1577923200]]], ["dict", []]]], [["str", "'imagery'"], ["Group", ["str", "'/imagery'"], ["str", "'s3://bucket/scene'"], ["dict", [[["str", "'k'"], ["list", [["int", "1"], ["tuple", [["int", "2"], ["int", "3"]]]]]]]], ["dict", [[["str", "'data'"], ["Variable", ["list", [["str", "'rows'"], ["str", "'cols'"]]], ["Array", "DirFileSystem", ["str", "'/path/to'"], "MemoryFileSystem", ["str", "'file'"], ["list", [["tuple", [["int", "5"], ["int", "10"]]], ["tuple", [["int", "15"], ["int", "20"]]], ["tuple", [["int", "25"], ["int", "30"]]], ["tuple", [["int", "35"], ["int", "40"]]]]], ["tuple", [["int", "4"], ["int", "3"]]], ["str", "'int16'"], ["str", "'IU2'"], ["int", "1024"], ["dict", [[["int", "0"], ["dict", [[["str", "'offset'"], ["int", "5"]], [["str", "'size'"], ["int", "35"]]]]]]]], ["dict", [[["str", "'pol'"], ["str", "'HH'"]]]]]], [["str", "'deeper'"], ["Group", ["str", "'/imagery/deeper'"], ["str", "'other'"], ["dict", [[["str", "'n'"], ["tuple", [["int", "1"]]]]]], ["dict", []]]], [["str", "'plain'"], ["dict", [[["str", "'k'"], ["str", "'v'"]]]]]]]]], [["str", "'z'"], ["Variable", ["list", [["str", "'p'"]]], ["ndarray", "float64", [2], [["float", "0.5"], ["float", "1.5"]]], ["dict", [[["str", "'a'"], ["NoneType", "None"]]]]]]]]]],
 "group-tree-rpcauto": ["returned", ["Group", ["str", "'/'"], ["str", "'s3://bucket/scene'"], ["dict", [[["str", "'title'"], ["str", "'scene'"]], [["str", "'shape'"], ["tuple", [["int", "2"], ["int", "3"]]]]]], ["dict", [[["str", "'b'"], ["Variable", ["list", [["str", "'x'"]]], ["ndarray", "int8", [3], [["int", "1"], ["int", "2"], ["int", "3"]]], ["dict", [[["str", "'units'"], ["str", "'m'"]], [["str", "'range'"], ["tuple", [["int", "0"], ["int", "1"]]]]]]]], [["str", "'a'"], ["Variable", ["list", [["str", "'t'"]]], ["ndarray", "datetime64[s]", [2], [["2020-01-01T00:00:00", 1577836800], ["2020-01-02T00:00:00", 1577923200]]], ["dict", []]]], [["str", "'imagery'"], ["Group", ["str", "'/imagery'"], ["str", "'s3://bucket/scene'"], ["dict", [[["str", "'k'"], ["list", [["int", "1"], ["tuple", [["int", "2"], ["int", "3"]]]]]]]], ["dict", [[["str", "'data'"], ["Variable", ["list", [["str", "'rows'"], ["str", "'cols'"]]], ["Array", "DirFileSystem", ["str", "'/path/to'"], "MemoryFileSystem", ["str", "'file'"], ["list", [["tuple", [["int", "5"], ["int", "10"]]], ["tuple", [["int", "15"], ["int", "20"]]], ["tuple", [["int", "25"], ["int", "30"]]], ["tuple", [["int", "35"], ["int", "40"]]]]], ["tuple", [["int", "4"], ["int", "3"]]], ["str", "'int16'"], ["str", "'IU2'"], ["int64", "4"], ["dict", [[["int", "0"], ["dict", [[["str", "'offset'"], ["int", "5"]], [["str", "'size'"], ["int", "35"]]]]]]]], ["dict", [[["str", "'pol'"], ["str", "'HH'"]]]]]], [["str", "'deeper'"], ["Group", ["str", "'/imagery/deeper'"], ["str", "'other'"], ["dict", [[["str", "'n'"], ["tuple", [["int", "1"]]]]]], ["dict", []]]], [["str", "'plain'"], ["dict", [[["str", "'k'"], ["str", "'v'"]]]]]]]]], [["str", "'z'"], ["Variable", ["list", [["str", "'p'"]]], ["ndarray", "float64", [2], [["float", "0.5"], ["float", "1.5"]]], ["dict", [[["str", "'a'"], ["NoneType", "None"]]]]]]]]]],
 "group-url-none-rpc2": ["returned", ["Group", ["str", "'/'"], ["NoneType", "None"], ["dict", []], ["dict", []]]],
 "group-url-none-rpcNone": ["returned", ["Group", ["str", "'/'"], ["NoneType", "None"], ["dict", []], ["dict", []]]],
 "group-variable-type-rpc2": ["returned", ["Group", ["str", "'/'"], ["str", "'s3://bucket/scene'"], ["dict", []], ["dict", []]]],
 "group-variable-type-rpcNone": ["returned", ["Group", ["str", "'/'"], ["str", "'s3://bucket/scene'"], ["dict", []], ["dict", []]]],
 "group-vars-rpc2": ["returned", ["Group", ["str", "'/'"], ["str", "'s3://bucket/scene'"], ["dict", []], ["dict", [[["str", "'y'"], ["Variable", ["list", [["str", "'x'"]]], ["ndarray", "int8", [3], [["int", "1"], ["int", "2"], ["int", "3"]]], ["dict", []]]], [["str", "'x'"], ["Variable", ["list", [["str", "'q'"]]], ["ndarray", "int8", [3], [["int", "1"], ["int", "2"], ["int", "3"]]], ["dict", []]]]]]]],
 "group-vars-rpcNone": ["returned", ["Group", ["str", "'/'"], ["str", "'s3://bucket/scene'"], ["dict", []], ["dict", [[["str", "'y'"], ["Variable", ["list", [["str", "'x'"]]], ["ndarray", "int8", [3], [["int", "1"], ["int", "2"], ["int", "3"]]], ["dict", []]]], [["str", "'x'"], ["Variable", ["list", [["str", "'q'"]]], ["ndarray", "int8", [3], [["int", "1"], ["int", "2"], ["int", "3"]]], ["dict", []]]]]]]],
 "hierarchy-access-order-group": ["returned", ["list", [["list", [["str", "'returned'"], ["list", [["str", "'Group'"], ["list", [["str", "'str'"], ["str", "\"'/'\""]]], ["list", [["str", "'str'"], ["str", "\"'s3://bucket/scene'\""]]], ["list", [["str", "'dict'"], ["list", []]]], ["list", [["str", "'dict'"], ["list", [["list", [["list", [["str", "'str'"], ["str", "\"'y'\""]]], ["list", [["str", "'Variable'"], ["list", [["str", "'list'"], ["list", [["list", [["str", "'str'"], ["str", "\"'x'\""]]]]]]], ["list", [["str", "'ndarray'"], ["str", "'int8'"], ["list", [["int", "3"]]], ["list", [["list", [["str", "'int'"], ["str", "'1'"]]], ["list", [["str", "'int'"], ["str", "'2'"]]], ["list", [["str", "'int'"], ["str", "'3'"]]]]]]], ["list", [["str", "'dict'"], ["list", []]]]]]]], ["list", [["list", [["str", "'str'"], ["str", "\"'x'\""]]], ["list", [["str", "'Variable'"], ["list", [["str", "'list'"], ["list", [["list", [["str", "'str'"], ["str", "\"'q'\""]]]]]]], ["list", [["str", "'ndarray'"], ["str", "'int8'"], ["list", [["int", "3"]]], ["list", [["list", [["str", "'int'"], ["str", "'1'"]]], ["list", [["str", "'int'"], ["str", "'2'"]]], ["list", [["str", "'int'"], ["str", "'3'"]]]]]]], ["list", [["str", "'dict'"], ["list", []]]]]]]]]]]]]]]], ["list", [["tuple", [["str", "'get'"], ["str", "'__type__'"]]], ["tuple", [["str", "'getitem'"], ["str", "'data'"]]], ["tuple", [["str", "'getitem'"], ["str", "'path'"]]], ["tuple", [["str", "'getitem'"], ["str", "'url'"]]], ["tuple", [["str", "'getitem'"], ["str", "'attrs'"]]]]]]]],
 "hierarchy-access-order-other": ["returned", ["list", [["list", [["str", "'returned'"], ["list", [["str", "'LoggingDict'"], ["list", [["list", [["list", [["str", "'str'"], ["str", "\"'__type__'\""]]], ["list", [["str", "'str'"], ["str", "\"'array'\""]]]]], ["list", [["list", [["str", "'str'"], ["str", "\"'dtype'\""]]], ["list", [["str", "'str'"], ["str", "\"'int8'\""]]]]], ["list", [["list", [["str", "'str'"], ["str", "\"'data'\""]]], ["list", [["str", "'list'"], ["list", [["list", [["str", "'int'"], ["str", "'1'"]]], ["list", [["str", "'int'"], ["str", "'2'"]]], ["list", [["str", "'int'"], ["str", "'3'"]]]]]]]]], ["list", [["list", [["str", "'str'"], ["str", "\"'encoding'\""]]], ["list", [["str", "'dict'"], ["list", []]]]]]]]]]]], ["list", [["tuple", [["str", "'get'"], ["str", "'__type__'"]]]]]]]],
 "hierarchy-access-order-variable": ["returned", ["list", [["list", [["str", "'returned'"], ["list", [["str", "'Variable'"], ["list", [["str", "'list'"], ["list", [["list", [["str", "'str'"], ["str", "\"'x'\""]]]]]]], ["list", [["str", "'ndarray'"], ["str", "'int8'"], ["list", [["int", "3"]]], ["list", [["list", [["str", "'int'"], ["str", "'1'"]]], ["list", [["str", "'int'"], ["str", "'2'"]]], ["list", [["str", "'int'"], ["str", "'3'"]]]]]]], ["list", [["str", "'dict'"], ["list", []]]]]]]], ["list", [["tuple", [["str", "'get'"], ["str", "'__type__'"]]], ["tuple", [["str", "'getitem'"], ["str", "'data'"]]], ["tuple", [["str", "'getitem'"], ["str", "'dims'"]]], ["tuple", [["str", "'getitem'"], ["str", "'attrs'"]]]]]]]],
 "hierarchy-array-rpc2": ["returned", ["dict", [[["str", "'__type__'"], ["str", "'array'"]], [["str", "'dtype'"], ["str", "'int8'"]], [["str", "'data'"], ["list", [["int", "1"], ["int", "2"], ["int", "3"]]]], [["str", "'encoding'"], ["dict", []]]]]],
 "hierarchy-array-rpcNone": ["returned", ["dict", [[["str", "'__type__'"], ["str", "'array'"]], [["str", "'dtype'"], ["str", "'int8'"]], [["str", "'data'"], ["list", [["int", "1"], ["int", "2"], ["int", "3"]]]], [["str", "'encoding'"], ["dict", []]]]]],
 "hierarchy-backend-array-rpc2": ["returned", ["dict", [[["str", "'__type__'"], ["str", "'backend_array'"]], [["str", "'root'"], ["str", "'memory://path/to'"]], [["str", "'url'"], ["str", "'file'"]], [["str", "'shape'"], ["tuple", [["int", "4"], ["int", "3"]]]], [["str", "'dtype'"], ["str", "'int16'"]], [["str", "'byte_ranges'"], ["list", [["tuple", [["int", "5"], ["int", "10"]]], ["tuple", [["int", "15"], ["int", "20"]]], ["tuple", [["int", "25"], ["int", "30"]]], ["tuple", [["int", "35"], ["int", "40"]]]]]], [["str", "'type_code'"], ["str", "'IU2'"]]]]],
 "hierarchy-backend-array-rpcNone": ["returned", ["dict", [[["str", "'__type__'"], ["str", "'backend_array'"]], [["str", "'root'"], ["str", "'memory://path/to'"]], [["str", "'url'"], ["str", "'file'"]], [["str", "'shape'"], ["tuple", [["int", "4"], ["int", "3"]]]], [["str", "'dtype'"], ["str", "'int16'"]], [["str", "'byte_ranges'"], ["list", [["tuple", [["int", "5"], ["int", "10"]]], ["tuple", [["int", "15"], ["int", "20"]]], ["tuple", [["int", "25"], ["int", "30"]]], ["tuple", [["int", "35"], ["int", "40"]]]]]], [["str", "'type_code'"], ["str", "'IU2'"]]]]],
 "hierarchy-backend-variable-rpc2": ["returned", ["Variable", ["list", [["str", "'rows'"], ["str", "'cols'"]]], ["Array", "DirFileSystem", ["str", "'/path/to'"], "MemoryFileSystem", ["str", "'file'"], ["list", [["tuple", [["int", "5"], ["int", "10"]]], ["tuple", [["int", "15"], ["int", "20"]]], ["tuple", [["int", "25"], ["int", "30"]]], ["tuple", [["int", "35"], ["int", "40"]]]]], ["tuple", [["int", "4"], ["int", "3"]]], ["str", "'int16'"], ["str", "'IU2'"], ["int", "2"], ["dict", [[["int", "0"], ["dict", [[["str", "'offset'"], ["int", "5"]], [["str", "'size'"], ["int", "15"]]]]], [["int", "1"], ["dict", [[["str", "'offset'"], ["int", "25"]], [["str", "'size'"], ["int", "15"]]]]]]]], ["dict", []]]],
 "hierarchy-backend-variable-rpcNone": ["returned", ["Variable", ["list", [["str", "'rows'"], ["str", "'cols'"]]], ["Array", "DirFileSystem", ["str", "'/path/to'"], "MemoryFileSystem", ["str", "'file'"], ["list", [["tuple", [["int", "5"], ["int", "10"]]], ["tuple", [["int", "15"], ["int", "20"]]], ["tuple", [["int", "25"], ["int", "30"]]], ["tuple", [["int", "35"], ["int", "40"]]]]], ["tuple", [["int", "4"], ["int", "3"]]], ["str", "'int16'"], ["str", "'IU2'"], ["int", "1024"], ["dict", [[["int", "0"], ["dict", [[["str", "'offset'"], ["int", "5"]], [["str", "'size'"], ["int", "35"]]]]]]]], ["dict", []]]],
 "hierarchy-backend-variable-rpcauto": ["returned", ["Variable", ["list", [["str", "'rows'"], ["str", "'cols'"]]], ["Array", "DirFileSystem", ["str", "'/path/to'"], "MemoryFileSystem", ["str", "'file'"], ["list", [["tuple", [["int", "5"], ["int", "10"]]], ["tuple", [["int", "15"], ["int", "20"]]], ["tuple", [["int", "25"], ["int", "30"]]], ["tuple", [["int", "35"], ["int", "40"]]]]], ["tuple", [["int", "4"], ["int", "3"]]], ["str", "'int16'"], ["str", "'IU2'"], ["int64", "4"], ["dict", [[["int", "0"], ["dict", [[["str", "'offset'"], ["int", "5"]], [["str", "'size'"], ["int", "35"]]]]]]]], ["dict", []]]],
 "hierarchy-broken-group-rpc2": ["raised", [["KeyError", "'data'"]]],
 "hierarchy-broken-group-rpcNone": ["raised", [["KeyError", "'data'"]]],
 "hierarchy-broken-variable-rpc2": ["raised", [["KeyError", "'data'"]]],
 "hierarchy-broken-variable-rpcNone": ["raised", [["KeyError", "'data'"]]],
 "hierarchy-empty-rpc2": ["returned", ["dict", []]],
 "hierarchy-empty-rpcNone": ["returned", ["dict", []]],
 "hierarchy-group-rpc2": ["returned", ["Group", ["str", "'/'"], ["str", "'s3://bucket/scene'"], ["dict", [[["str", "'title'"], ["str", "'scene'"]], [["str", "'shape'"], ["tuple", [["int", "2"], ["int", "3"]]]]]], ["dict", [[["str", "'b'"], ["Variable", ["list", [["str", "'x'"]]], ["ndarray", "int8", [3], [["int", "1"], ["int", "2"], ["int", "3"]]], ["dict", [[["str", "'units'"], ["str", "'m'"]], [["str", "'range'"], ["tuple", [["int", "0"], ["int", "1"]]]]]]]], [["str", "'a'"], ["Variable", ["list", [["str", "'t'"]]], ["ndarray", "datetime64[s]", [2], [["2020-01-01T00:00:00", 1577836800], ["2020-01-02T00:00:00", 1577923200]]], ["dict", []]]], [["str", "'imagery'"], ["Group", ["str", "'/imagery'"], ["str", "'s3://bucket/scene'"], ["dict", [[["str", "'k'"], ["list", [["int", "1"], ["tuple", [["int", "2"], ["int", "3"]]]]]]]], ["dict", [[["str", "'data'"], ["Variable", ["list", [["str", "'rows'"], ["str", "'cols'"]]], ["Array", "DirFileSystem", ["str", "'/path/to'"], "MemoryFileSystem", ["str", "'file'"], ["list", [["tuple", [["int", "5"], ["int", "10"]]], ["tuple", [["int", "15"], ["int", "20"]]], ["tuple", [["int", "25"], ["int", "30"]]], ["tuple", [["int", "35"], ["int", "40"]]]]], ["tuple", [["int", "4"], ["int", "3"]]], ["str", "'int16'"], ["str", "'IU2'"], ["int", "2"], ["dict", [[["int", "0"], ["dict", [[["str", "'offset'"], ["int", "5"]], [["str", "'size'"], ["int", "15"]]]]], [["int", "1"], ["dict", [[["str", "'offset'"], ["int", "25"]], [["str", "'size'"], ["int", "15"]]]]]]]], ["dict", [[["str", "'pol'"], ["str", "'HH'"]]]]]], [["str", "'deeper'"], ["Group", ["str", "'/imagery/deeper'"], ["str", "'other'"], ["dict", [[["str", "'n'"], ["tuple", [["int", "1"]]]]]], ["dict", []]]], [["str", "'plain'"], ["dict", [[["str", "'k'"], ["str", "'v'"]]]]]]]]], [["str", "'z'"], ["Variable", ["list", [["str", "'p'"]]], ["ndarray", "float64", [2], [["float", "0.5"], ["float", "1.5"]]], ["dict", [[["str", "'a'"], ["NoneType", "None"]]]]]]]]]],
 "hierarchy-group-rpcNone": ["returned", ["Group", ["str", "'/'"], ["str", "'s3://bucket/scene'"], ["dict", [[["str", "'title'"], ["str", "'scene'"]], [["str", "'shape'"], ["tuple", [["int", "2"], ["int", "3"]]]]]], ["dict", [[["str", "'b'"], ["Variable", ["list", [["str", "'x'"]]], ["ndarray", "int8", [3], [["int", "1"], ["int", "2"], ["int", "3"]]], ["dict", [[["str", "'units'"], ["str", "'m'"]], [["str", "'range'"], ["tuple", [["int", "0"], ["int", "1"]]]]]]]], [["str", "'a'"], ["Variable", ["list", [["str", "'t'"]]], ["ndarray", "datetime64[s]", [2], [["2020-01-01T00:00:00", 1577836800], ["2020-01-02T00:00:00", 1577923200]]], ["dict", []]]], [["str", "'imagery'"], ["Group", ["str", "'/imagery'"], ["str", "'s3://bucket/scene'"], ["dict", [[["str", "'k'"], ["list", [["int", "1"], ["tuple", [["int", "2"], ["int", "3"]]]]]]]], ["dict", [[["str", "'data'"], ["Variable", ["list", [["str", "'rows'"], ["str", "'cols'"]]], ["Array", "DirFileSystem", ["str", "'/path/to'"], "MemoryFileSystem", ["str", "'file'"], ["list", [["tuple", [["int", "5"], ["int", "10"]]], ["tuple", [["int", "15"], ["int", "20"]]], ["tuple", [["int", "25"], ["int", "30"]]], ["tuple", [["int", "35"], ["int", "40"]]]]], ["tuple", [["int", "4"], ["int", "3"]]], ["str", "'int16'"], ["str", "'IU2'"], ["int", "1024"], ["dict", [[["int", "0"], ["dict", [[["str", "'offset'"], ["int", "5"]], [["str", "'size'"], ["int", "35"]]]]]]]], ["dict", [[["str", "'pol'"], ["str", "'HH'"]]]]]], [["str", "'deeper'"], ["Group", ["str", "'/imagery/deeper'"], ["str", "'other'"], ["dict", [[["str", "'n'"], ["tuple", [["int", "1"]]]]]], ["dict", []]]], [["str", "'plain'"], ["dict", [[["str", "'k'"], ["str", "'v'"]]]]]]]]], [["str", "'z'"], ["Variable", ["list", [["str", "'p'"]]], ["ndarray", "float64", [2], [["float", "0.5"], ["float", "1.5"]]], ["dict", [[["str", "'a'"], ["NoneType", "None"]]]]]]]]]],
 "hierarchy-group-rpcauto": ["returned", ["Group", ["str", "'/'"], ["str", "'s3://bucket/scene'"], ["dict", [[["str", "'title'"], ["str", "'scene'"]], [["str", "'shape'"], ["tuple", [["int", "2"], ["int", "3"]]]]]], ["dict", [[["str", "'b'"], ["Variable", ["list", [["str", "'x'"]]], ["ndarray", "int8", [3], [["int", "1"], ["int", "2"], ["int", "3"]]], ["dict", [[["str", "'units'"], ["str", "'m'"]], [["str", "'range'"], ["tuple", [["int", "0"], ["int", "1"]]]]]]]], [["str", "'a'"], ["Variable", ["list", [["str", "'t'"]]], ["ndarray", "datetime64[s]", [2], [["2020-01-01T00:00:00", 1577836800], ["2020-01-02T00:00:00", 1577923200]]], ["dict", []]]], [["str", "'imagery'"], ["Group", ["str", "'/imagery'"], ["str", "'s3://bucket/scene'"], ["dict", [[["str", "'k'"], ["list", [["int", "1"], ["tuple", [["int", "2"], ["int", "3"]]]]]]]], ["dict", [[["str", "'data'"], ["Variable", ["list", [["str", "'rows'"], ["str", "'cols'"]]], ["Array", "DirFileSystem", ["str", "'/path/to'"], "MemoryFileSystem", ["str", "'file'"], ["list", [["tuple", [["int", "5"], ["int", "10"]]], ["tuple", [["int", "15"], ["int", "20"]]], ["tuple", [["int", "25"], ["int", "30"]]], ["tuple", [["int", "35"], ["int", "40"]]]]], ["tuple", [["int", "4"], ["int", "3"]]], ["str", "'int16'"], ["str", "'IU2'"], ["int64", "4"], ["dict", [[["int", "0"], ["dict", [[["str", "'offset'"], ["int", "5"]], [["str", "'size'"], ["int", "35"]]]]]]]], ["dict", [[["str", "'pol'"], ["str", "'HH'"]]]]]], [["str", "'deeper'"], ["Group", ["str", "'/imagery/deeper'"], ["str", "'other'"], ["dict", [[["str", "'n'"], ["tuple", [["int", "1"]]]]]], ["dict", []]]], [["str", "'plain'"], ["dict", [[["str", "'k'"], ["str", "'v'"]]]]]]]]], [["str", "'z'"], ["Variable", ["list", [["str", "'p'"]]], ["ndarray", "float64", [2], [["float", "0.5"], ["float", "1.5"]]], ["dict", [[["str", "'a'"], ["NoneType", "None"]]]]]]]]]],
 "hierarchy-no-type-rpc2": ["returned", ["dict", [[["str", "'data'"], ["dict", []]], [["str", "'dims'"], ["list", []]]]]],
 "hierarchy-no-type-rpcNone": ["returned", ["dict", [[["str", "'data'"], ["dict", []]], [["str", "'dims'"], ["list", []]]]]],
 "hierarchy-on-int": ["raised", [["AttributeError", "'int' object has no attribute 'get'"]]],
 "hierarchy-on-list": ["raised", [["AttributeError", "'list' object has no attribute 'get'"]]],
 "hierarchy-on-none": ["raised", [["AttributeError", "'NoneType' object has no attribute 'get'"]]],
 "hierarchy-on-opaque": ["raised", [["AttributeError", "'Opaque' object has no attribute 'get'"]]],
 "hierarchy-on-str": ["raised", [["AttributeError", "'str' object has no attribute 'get'"]]],
 "hierarchy-on-tuple": ["raised", [["AttributeError", "'tuple' object has no attribute 'get'"]]],
 "hierarchy-ordered-rpc2": ["returned", ["Variable", ["list", [["str", "'x'"]]], ["ndarray", "int8", [3], [["int", "1"], ["int", "2"], ["int", "3"]]], ["dict", []]]],
 "hierarchy-ordered-rpcNone": ["returned", ["Variable", ["list", [["str", "'x'"]]], ["ndarray", "int8", [3], [["int", "1"], ["int", "2"], ["int", "3"]]], ["dict", []]]],
 "hierarchy-passthrough-identity": ["returned", ["list", [["bool", "True"], ["bool", "True"], ["bool", "True"], ["bool", "True"]]]],
 "hierarchy-positional-rpc": ["returned", ["Variable", ["list", [["str", "'rows'"], ["str", "'cols'"]]], ["Array", "DirFileSystem", ["str", "'/path/to'"], "MemoryFileSystem", ["str", "'file'"], ["list", [["tuple", [["int", "5"], ["int", "10"]]], ["tuple", [["int", "15"], ["int", "20"]]], ["tuple", [["int", "25"], ["int", "30"]]], ["tuple", [["int", "35"], ["int", "40"]]]]], ["tuple", [["int", "4"], ["int", "3"]]], ["str", "'int16'"], ["str", "'IU2'"], ["int", "3"], ["dict", [[["int", "0"], ["dict", [[["str", "'offset'"], ["int", "5"]], [["str", "'size'"], ["int", "25"]]]]], [["int", "1"], ["dict", [[["str", "'offset'"], ["int", "35"]], [["str", "'size'"], ["int", "5"]]]]]]]], ["dict", []]]],
 "hierarchy-tuple-type-rpc2": ["returned", ["dict", [[["str", "'__type__'"], ["str", "'tuple'"]], [["str", "'data'"], ["list", [["int", "1"]]]]]]],
 "hierarchy-tuple-type-rpcNone": ["returned", ["dict", [[["str", "'__type__'"], ["str", "'tuple'"]], [["str", "'data'"], ["list", [["int", "1"]]]]]]],
 "hierarchy-type-bytes-rpc2": ["returned", ["dict", [[["str", "'__type__'"], ["bytes", "b'group'"]]]]],
 "hierarchy-type-bytes-rpcNone": ["returned", ["dict", [[["str", "'__type__'"], ["bytes", "b'group'"]]]]],
 "hierarchy-type-dict-rpc2": ["raised", [["TypeError", "unhashable type: 'dict'"]]],
 "hierarchy-type-dict-rpcNone": ["raised", [["TypeError", "unhashable type: 'dict'"]]],
 "hierarchy-type-frozenset-rpc2": ["returned", ["dict", [[["str", "'__type__'"], ["other", "frozenset", "frozenset({'group'})"]]]]],
 "hierarchy-type-frozenset-rpcNone": ["returned", ["dict", [[["str", "'__type__'"], ["other", "frozenset", "frozenset({'group'})"]]]]],
 "hierarchy-type-int-rpc2": ["returned", ["dict", [[["str", "'__type__'"], ["int", "1"]]]]],
 "hierarchy-type-int-rpcNone": ["returned", ["dict", [[["str", "'__type__'"], ["int", "1"]]]]],
 "hierarchy-type-list-rpc2": ["raised", [["TypeError", "unhashable type: 'list'"]]],
 "hierarchy-type-list-rpcNone": ["raised", [["TypeError", "unhashable type: 'list'"]]],
 "hierarchy-type-nan-rpc2": ["returned", ["dict", [[["str", "'__type__'"], ["float", "nan"]]]]],
 "hierarchy-type-nan-rpcNone": ["returned", ["dict", [[["str", "'__type__'"], ["float", "nan"]]]]],
 "hierarchy-type-none-rpc2": ["returned", ["dict", [[["str", "'__type__'"], ["NoneType", "None"]], [["str", "'data'"], ["dict", []]]]]],
 "hierarchy-type-none-rpcNone": ["returned", ["dict", [[["str", "'__type__'"], ["NoneType", "None"]], [["str", "'data'"], ["dict", []]]]]],
 "hierarchy-type-set-rpc2": ["raised", [["TypeError", "unhashable type: 'set'"]]],
 "hierarchy-type-set-rpcNone": ["raised", [["TypeError", "unhashable type: 'set'"]]],
 "hierarchy-type-tuple-rpc2": ["returned", ["dict", [[["str", "'__type__'"], ["tuple", [["str", "'group'"]]]]]]],
 "hierarchy-type-tuple-rpcNone": ["returned", ["dict", [[["str", "'__type__'"], ["tuple", [["str", "'group'"]]]]]]],
 "hierarchy-type-upper-rpc2": ["returned", ["dict", [[["str", "'__type__'"], ["str", "'GROUP'"]]]]],
 "hierarchy-type-upper-rpcNone": ["returned", ["dict", [[["str", "'__type__'"], ["str", "'GROUP'"]]]]],
 "hierarchy-unknown-type-rpc2": ["returned", ["dict", [[["str", "'__type__'"], ["str", "'dataset'"]], [["str", "'data'"], ["dict", []]]]]],
 "hierarchy-unknown-type-rpcNone": ["returned", ["dict", [[["str", "'__type__'"], ["str", "'dataset'"]], [["str", "'data'"], ["dict", []]]]]],
 "hierarchy-variable-rpc2": ["returned", ["Variable", ["list", [["str", "'x'"]]], ["ndarray", "int8", [3], [["int", "1"], ["int", "2"], ["int", "3"]]], ["dict", [[["str", "'a'"], ["tuple", [["int", "1"], ["int", "2"]]]]]]]],
 "hierarchy-variable-rpcNone": ["returned", ["Variable", ["list", [["str", "'x'"]]], ["ndarray", "int8", [3], [["int", "1"], ["int", "2"], ["int", "3"]]], ["dict", [[["str", "'a'"], ["tuple", [["int", "1"], ["int", "2"]]]]]]]],
 "variable-2d-rpc2": ["returned", ["Variable", ["list", [["str", "'a'"], ["str", "'b'"]]], ["ndarray", "int64", [2, 2], [["int", "1"], ["int", "2"], ["int", "3"], ["int", "4"]]], ["dict", []]]],
 "variable-2d-rpcNone": ["returned", ["Variable", ["list", [["str", "'a'"], ["str", "'b'"]]], ["ndarray", "int64", [2, 2], [["int", "1"], ["int", "2"], ["int", "3"], ["int", "4"]]], ["dict", []]]],
 "variable-access-order": ["returned", ["list", [["list", [["str", "'returned'"], ["list", [["str", "'Variable'"], ["list", [["str", "'list'"], ["list", [["list", [["str", "'str'"], ["str", "\"'x'\""]]]]]]], ["list", [["str", "'ndarray'"], ["str", "'int8'"], ["list", [["int", "3"]]], ["list", [["list", [["str", "'int'"], ["str", "'1'"]]], ["list", [["str", "'int'"], ["str", "'2'"]]], ["list", [["str", "'int'"], ["str", "'3'"]]]]]]], ["list", [["str", "'dict'"], ["list", []]]]]]]], ["list", [["tuple", [["str", "'getitem'"], ["str", "'data'"]]], ["tuple", [["str", "'getitem'"], ["str", "'dims'"]]], ["tuple", [["str", "'getitem'"], ["str", "'attrs'"]]]]]]]],
 "variable-access-order-bad-data": ["returned", ["list", [["list", [["str", "'raised'"], ["list", [["list", [["str", "'TypeError'"], ["str", "\"data type 'int65' not understood\""]]]]]]], ["list", [["tuple", [["str", "'getitem'"], ["str", "'data'"]]]]]]]],
 "variable-access-order-empty": ["returned", ["list", [["list", [["str", "'raised'"], ["list", [["list", [["str", "'KeyError'"], ["str", "\"'data'\""]]]]]]], ["list", [["tuple", [["str", "'getitem'"], ["str", "'data'"]]]]]]]],
 "variable-attrs-none-rpc2": ["returned", ["Variable", ["list", [["str", "'x'"]]], ["ndarray", "int8", [3], [["int", "1"], ["int", "2"], ["int", "3"]]], ["NoneType", "None"]]],
 "variable-attrs-none-rpcNone": ["returned", ["Variable", ["list", [["str", "'x'"]]], ["ndarray", "int8", [3], [["int", "1"], ["int", "2"], ["int", "3"]]], ["NoneType", "None"]]],
 "variable-attrs-rpc2": ["returned", ["Variable", ["list", [["str", "'x'"]]], ["ndarray", "int8", [3], [["int", "1"], ["int", "2"], ["int", "3"]]], ["dict", [[["str", "'a'"], ["int", "1"]], [["str", "'b'"], ["tuple", [["int", "1"], ["int", "2"]]]], [["str", "'c'"], ["dict", [[["str", "'d'"], ["list", []]]]]]]]]],
 "variable-attrs-rpcNone": ["returned", ["Variable", ["list", [["str", "'x'"]]], ["ndarray", "int8", [3], [["int", "1"], ["int", "2"], ["int", "3"]]], ["dict", [[["str", "'a'"], ["int", "1"]], [["str", "'b'"], ["tuple", [["int", "1"], ["int", "2"]]]], [["str", "'c'"], ["dict", [[["str", "'d'"], ["list", []]]]]]]]]],
 "variable-backend-complex-rpc2": ["returned", ["Variable", ["list", [["str", "'rows'"], ["str", "'cols'"]]], ["Array", "DirFileSystem", ["str", "'/path/to'"], "MemoryFileSystem", ["str", "'file'"], ["list", [["tuple", [["int", "5"], ["int", "10"]]], ["tuple", [["int", "15"], ["int", "20"]]], ["tuple", [["int", "25"], ["int", "30"]]], ["tuple", [["int", "35"], ["int", "40"]]]]], ["tuple", [["int", "4"], ["int", "3"]]], ["str", "'complex64'"], ["str", "'C*8'"], ["int", "2"], ["dict", [[["int", "0"], ["dict", [[["str", "'offset'"], ["int", "5"]], [["str", "'size'"], ["int", "15"]]]]], [["int", "1"], ["dict", [[["str", "'offset'"], ["int", "25"]], [["str", "'size'"], ["int", "15"]]]]]]]], ["dict", []]]],
 "variable-backend-complex-rpcNone": ["returned", ["Variable", ["list", [["str", "'rows'"], ["str", "'cols'"]]], ["Array", "DirFileSystem", ["str", "'/path/to'"], "MemoryFileSystem", ["str", "'file'"], ["list", [["tuple", [["int", "5"], ["int", "10"]]], ["tuple", [["int", "15"], ["int", "20"]]], ["tuple", [["int", "25"], ["int", "30"]]], ["tuple", [["int", "35"], ["int", "40"]]]]], ["tuple", [["int", "4"], ["int", "3"]]], ["str", "'complex64'"], ["str", "'C*8'"], ["int", "1024"], ["dict", [[["int", "0"], ["dict", [[["str", "'offset'"], ["int", "5"]], [["str", "'size'"], ["int", "35"]]]]]]]], ["dict", []]]],
 "variable-backend-complex-rpcauto": ["returned", ["Variable", ["list", [["str", "'rows'"], ["str", "'cols'"]]], ["Array", "DirFileSystem", ["str", "'/path/to'"], "MemoryFileSystem", ["str", "'file'"], ["list", [["tuple", [["int", "5"], ["int", "10"]]], ["tuple", [["int", "15"], ["int", "20"]]], ["tuple", [["int", "25"], ["int", "30"]]], ["tuple", [["int", "35"], ["int", "40"]]]]], ["tuple", [["int", "4"], ["int", "3"]]], ["str", "'complex64'"], ["str", "'C*8'"], ["int64", "4"], ["dict", [[["int", "0"], ["dict", [[["str", "'offset'"], ["int", "5"]], [["str", "'size'"], ["int", "35"]]]]]]]], ["dict", []]]],
 "variable-backend-rpc2": ["returned", ["Variable", ["list", [["str", "'rows'"], ["str", "'cols'"]]], ["Array", "DirFileSystem", ["str", "'/path/to'"], "MemoryFileSystem", ["str", "'file'"], ["list", [["tuple", [["int", "5"], ["int", "10"]]], ["tuple", [["int", "15"], ["int", "20"]]], ["tuple", [["int", "25"], ["int", "30"]]], ["tuple", [["int", "35"], ["int", "40"]]]]], ["tuple", [["int", "4"], ["int", "3"]]], ["str", "'int16'"], ["str", "'IU2'"], ["int", "2"], ["dict", [[["int", "0"], ["dict", [[["str", "'offset'"], ["int", "5"]], [["str", "'size'"], ["int", "15"]]]]], [["int", "1"], ["dict", [[["str", "'offset'"], ["int", "25"]], [["str", "'size'"], ["int", "15"]]]]]]]], ["dict", []]]],
 "variable-backend-rpcNone": ["returned", ["Variable", ["list", [["str", "'rows'"], ["str", "'cols'"]]], ["Array", "DirFileSystem", ["str", "'/path/to'"], "MemoryFileSystem", ["str", "'file'"], ["list", [["tuple", [["int", "5"], ["int", "10"]]], ["tuple", [["int", "15"], ["int", "20"]]], ["tuple", [["int", "25"], ["int", "30"]]], ["tuple", [["int", "35"], ["int", "40"]]]]], ["tuple", [["int", "4"], ["int", "3"]]], ["str", "'int16'"], ["str", "'IU2'"], ["int", "1024"], ["dict", [[["int", "0"], ["dict", [[["str", "'offset'"], ["int", "5"]], [["str", "'size'"], ["int", "35"]]]]]]]], ["dict", []]]],
 "variable-backend-rpcauto": ["returned", ["Variable", ["list", [["str", "'rows'"], ["str", "'cols'"]]], ["Array", "DirFileSystem", ["str", "'/path/to'"], "MemoryFileSystem", ["str", "'file'"], ["list", [["tuple", [["int", "5"], ["int", "10"]]], ["tuple", [["int", "15"], ["int", "20"]]], ["tuple", [["int", "25"], ["int", "30"]]], ["tuple", [["int", "35"], ["int", "40"]]]]], ["tuple", [["int", "4"], ["int", "3"]]], ["str", "'int16'"], ["str", "'IU2'"], ["int64", "4"], ["dict", [[["int", "0"], ["dict", [[["str", "'offset'"], ["int", "5"]], [["str", "'size'"], ["int", "35"]]]]]]]], ["dict", []]]],
 "variable-bad-data-and-missing-dims-rpc2": ["raised", [["KeyError", "'dtype'"]]],
 "variable-bad-data-and-missing-dims-rpcNone": ["raised", [["KeyError", "'dtype'"]]],
 "variable-bad-data-rpc2": ["raised", [["TypeError", "data type 'int65' not understood"]]],
 "variable-bad-data-rpcNone": ["raised", [["TypeError", "data type 'int65' not understood"]]],
 "variable-data-backend-without-root-rpc2": ["raised", [["KeyError", "'root'"]]],
 "variable-data-backend-without-root-rpcNone": ["raised", [["KeyError", "'root'"]]],
 "variable-data-backend-without-root-rpcauto": ["raised", [["KeyError", "'root'"]]],
 "variable-data-is-list-rpc2": ["raised", [["AttributeError", "'list' object has no attribute 'get'"]]],
 "variable-data-is-list-rpcNone": ["raised", [["AttributeError", "'list' object has no attribute 'get'"]]],
 "variable-data-is-none-rpc2": ["raised", [["AttributeError", "'NoneType' object has no attribute 'get'"]]],
 "variable-data-is-none-rpcNone": ["raised", [["AttributeError", "'NoneType' object has no attribute 'get'"]]],
 "variable-datetime-rpc2": ["returned", ["Variable", ["list", [["str", "'t'"]]], ["ndarray", "datetime64[s]", [2], [["2020-01-01T00:00:00", 1577836800], ["2020-01-02T00:00:00", 1577923200]]], ["dict", []]]],
 "variable-datetime-rpcNone": ["returned", ["Variable", ["list", [["str", "'t'"]]], ["ndarray", "datetime64[s]", [2], [["2020-01-01T00:00:00", 1577836800], ["2020-01-02T00:00:00", 1577923200]]], ["dict", []]]],
 "variable-dims-none-rpc2": ["returned", ["Variable", ["NoneType", "None"], ["ndarray", "int8", [3], [["int", "1"], ["int", "2"], ["int", "3"]]], ["dict", []]]],
 "variable-dims-none-rpcNone": ["returned", ["Variable", ["NoneType", "None"], ["ndarray", "int8", [3], [["int", "1"], ["int", "2"], ["int", "3"]]], ["dict", []]]],
 "variable-empty-rpc2": ["raised", [["KeyError", "'data'"]]],
 "variable-empty-rpcNone": ["raised", [["KeyError", "'data'"]]],
 "variable-extra-keys-rpc2": ["returned", ["Variable", ["list", [["str", "'x'"]]], ["ndarray", "int8", [3], [["int", "1"], ["int", "2"], ["int", "3"]]], ["dict", []]]],
 "variable-extra-keys-rpcNone": ["returned", ["Variable", ["list", [["str", "'x'"]]], ["ndarray", "int8", [3], [["int", "1"], ["int", "2"], ["int", "3"]]], ["dict", []]]],
 "variable-group-type-rpc2": ["returned", ["Variable", ["list", [["str", "'x'"]]], ["ndarray", "int8", [3], [["int", "1"], ["int", "2"], ["int", "3"]]], ["dict", []]]],
 "variable-group-type-rpcNone": ["returned", ["Variable", ["list", [["str", "'x'"]]], ["ndarray", "int8", [3], [["int", "1"], ["int", "2"], ["int", "3"]]], ["dict", []]]],
 "variable-missing-attrs-rpc2": ["raised", [["KeyError", "'attrs'"]]],
 "variable-missing-attrs-rpcNone": ["raised", [["KeyError", "'attrs'"]]],
 "variable-missing-data-and-dims-rpc2": ["raised", [["KeyError", "'data'"]]],
 "variable-missing-data-and-dims-rpcNone": ["raised", [["KeyError", "'data'"]]],
 "variable-missing-data-rpc2": ["raised", [["KeyError", "'data'"]]],
 "variable-missing-data-rpcNone": ["raised", [["KeyError", "'data'"]]],
 "variable-missing-dims-and-attrs-rpc2": ["raised", [["KeyError", "'dims'"]]],
 "variable-missing-dims-and-attrs-rpcNone": ["raised", [["KeyError", "'dims'"]]],
 "variable-missing-dims-rpc2": ["raised", [["KeyError", "'dims'"]]],
 "variable-missing-dims-rpcNone": ["raised", [["KeyError", "'dims'"]]],
 "variable-no-dims-rpc2": ["returned", ["Variable", ["list", []], ["ndarray", "int8", [3], [["int", "1"], ["int", "2"], ["int", "3"]]], ["dict", []]]],
 "variable-no-dims-rpcNone": ["returned", ["Variable", ["list", []], ["ndarray", "int8", [3], [["int", "1"], ["int", "2"], ["int", "3"]]], ["dict", []]]],
 "variable-no-type-rpc2": ["returned", ["Variable", ["list", [["str", "'x'"]]], ["ndarray", "int8", [3], [["int", "1"], ["int", "2"], ["int", "3"]]], ["dict", []]]],
 "variable-no-type-rpcNone": ["returned", ["Variable", ["list", [["str", "'x'"]]], ["ndarray", "int8", [3], [["int", "1"], ["int", "2"], ["int", "3"]]], ["dict", []]]],
 "variable-on-list": ["raised", [["TypeError", "list indices must be integers or slices, not str"]]],
 "variable-on-none": ["raised", [["TypeError", "'NoneType' object is not subscriptable"]]],
 "variable-plain-rpc2": ["returned", ["Variable", ["list", [["str", "'x'"]]], ["ndarray", "int8", [3], [["int", "1"], ["int", "2"], ["int", "3"]]], ["dict", []]]],
 "variable-plain-rpcNone": ["returned", ["Variable", ["list", [["str", "'x'"]]], ["ndarray", "int8", [3], [["int", "1"], ["int", "2"], ["int", "3"]]], ["dict", []]]],
 "variable-positional-rpc": ["returned", ["Variable", ["list", [["str", "'rows'"], ["str", "'cols'"]]], ["Array", "DirFileSystem", ["str", "'/path/to'"], "MemoryFileSystem", ["str", "'file'"], ["list", [["tuple", [["int", "5"], ["int", "10"]]], ["tuple", [["int", "15"], ["int", "20"]]], ["tuple", [["int", "25"], ["int", "30"]]], ["tuple", [["int", "35"], ["int", "40"]]]]], ["tuple", [["int", "4"], ["int", "3"]]], ["str", "'int16'"], ["str", "'IU2'"], ["int", "3"], ["dict", [[["int", "0"], ["dict", [[["str", "'offset'"], ["int", "5"]], [["str", "'size'"], ["int", "25"]]]]], [["int", "1"], ["dict", [[["str", "'offset'"], ["int", "35"]], [["str", "'size'"], ["int", "5"]]]]]]]], ["dict", []]]],
 "variable-str-dims-raw-rpc2": ["returned", ["Variable", ["list", [["str", "'rows'"]]], ["ndarray", "int8", [3], [["int", "1"], ["int", "2"], ["int", "3"]]], ["dict", []]]],
 "variable-str-dims-raw-rpcNone": ["returned", ["Variable", ["list", [["str", "'rows'"]]], ["ndarray", "int8", [3], [["int", "1"], ["int", "2"], ["int", "3"]]], ["dict", []]]],
 "variable-str-dims-rpc2": ["returned", ["Variable", ["list", [["str", "'x'"]]], ["ndarray", "int8", [3], [["int", "1"], ["int", "2"], ["int", "3"]]], ["dict", []]]],
 "variable-str-dims-rpcNone": ["returned", ["Variable", ["list", [["str", "'x'"]]], ["ndarray", "int8", [3], [["int", "1"], ["int", "2"], ["int", "3"]]], ["dict", []]]]
}
'''


def test_equivalence():
    main(cases, EXPECTED)


if __name__ == "__main__":
    main(cases, EXPECTED)
