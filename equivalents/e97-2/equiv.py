"""Equivalence check for refactoring 2 (``ceos_alos2.decoders``: the id decoders and ``lookup``).

Run as a script (``python equiv.py``) or through pytest. The expected outcomes were
recorded from the unchanged code (``python equiv.py --record`` prints them).
"""

import hashlib
import itertools
import sys

from ceos_alos2 import decoders


class Name(str):
    """a str subclass that records how often it is formatted into a message"""

    formatted = 0

    def __format__(self, spec):
        type(self).formatted += 1
        return "<" + str.__format__(self, spec) + ">"


SCENE_IDS = [
    "ALOS2014410740-140829",
    "ALOS2000010000-000101",
    "ABC12999999999-991231",
    "00000000000000-680101",
    "ALOS2014410740-690228",
    "ALOS2014410740-160229",
    # impossible dates
    "ALOS2014410740-150229",
    "ALOS2014410740-140832",
    "ALOS2014410740-141301",
    "ALOS2014410740-140015",
    "ALOS2014410740-000000",
    # pattern mismatches
    "",
    "ALOS2014410740",
    "ALOS2014410740-14082",
    "ALOS2014410740-1408290",
    "ALOS2014410740_140829",
    "alos2014410740-140829",
    "ALOS20144A0740-140829",
    "ALOS201441074A-140829",
    " ALOS2014410740-140829",
    "ALOS2014410740-140829\n",
    "ALOS2014410740-140829-WWDR1.5RUA",
    "ALOS2014410740-１４０８２９",
    None,
    b"ALOS2014410740-140829",
    14,
]

PRODUCT_IDS = [
    # every valid combination is covered by the product below; a few literal ones here
    "WWDR1.5RUA",
    "UBSL1.1__D",
    "HBQR3.1GMD",
    # codes that the pattern lets through but the tables do not know
    "XXXR1.5RUA",
    "AAAL1.0__A",
    "WB R1.5RUA",
    # pattern mismatches
    "",
    "WWDR1.5RU",
    "WWDR1.5RUAA",
    "WWDX1.5RUA",
    "WWDR1.2RUA",
    "WWDR15RUA_",
    "WWDR1_5RUA",
    "WWDR1.5XUA",
    "WWDR1.5RXA",
    "WWDR1.5RUX",
    "wwdr1.5rua",
    "WWDR1.5RUA\n",
    None,
    b"WWDR1.5RUA",
    1.5,
]

SCAN_INFOS = [
    None,
    *[m + n for m in "BF" for n in "0123456789"],
    "",
    "B",
    "5",
    "X1",
    "b1",
    "B12",
    "BF",
    "F1\n",
    " F1",
    "F１",
    b"F1",
    7,
]


def describe(exc):
    if exc is None:
        return None
    return (type(exc).__name__, str(exc), describe(exc.__cause__), exc.__suppress_context__)


def outcome(func, *args):
    try:
        result = func(*args)
    except Exception as e:  # noqa: BLE001
        return repr(("raised", describe(e)))
    if isinstance(result, dict):
        return repr(("returned", type(result).__name__, list(result), result))
    return repr(("returned", type(result).__name__, result))


def all_valid_product_ids():
    return [
        "".join(parts)
        for parts in itertools.product(
            decoders.observation_modes,
            decoders.observation_directions,
            decoders.processing_levels,
            decoders.processing_options,
            decoders.map_projections,
            decoders.orbit_directions,
        )
    ]


class Restore:
    def __init__(self):
        self.saved = []

    def setattr(self, obj, name, value):
        self.saved.append((obj, name, getattr(obj, name)))
        setattr(obj, name, value)

    def undo(self):
        for obj, name, value in reversed(self.saved):
            setattr(obj, name, value)
        self.saved.clear()


def run():
    outcomes = {}
    for index, value in enumerate(SCENE_IDS):
        outcomes[f"scene:{index}:{value!r}"] = outcome(decoders.decode_scene_id, value)
    for index, value in enumerate(PRODUCT_IDS):
        outcomes[f"product:{index}:{value!r}"] = outcome(decoders.decode_product_id, value)
    # all 3600 valid product ids: a digest over everything, every 97th one spelled out
    digest = hashlib.sha256()
    for index, value in enumerate(all_valid_product_ids()):
        result = outcome(decoders.decode_product_id, value)
        digest.update(f"{value}={result};".encode())
        if index % 97 == 0:
            outcomes[f"valid-product:{index}:{value!r}"] = result
    outcomes["valid-products:count"] = repr(index + 1)
    outcomes["valid-products:digest"] = digest.hexdigest()
    for index, value in enumerate(SCAN_INFOS):
        outcomes[f"scan:{index}:{value!r}"] = outcome(decoders.decode_scan_info, value)

    # lookup: every table, known / unknown / odd codes, odd mappings
    tables = {
        "observation_modes": decoders.observation_modes,
        "processing_options": decoders.processing_options,
        "resampling_methods": decoders.resampling_methods,
        "processing_facilities": decoders.processing_facilities,
        "falsy": {"a": "", "b": 0, "c": None, "d": [], None: "none"},
        "empty": {},
    }
    codes = ["SBS", "_", "NN", "SCMO", "a", "b", "c", "d", "e", "", None, 1, ("x",)]
    for (tname, table), code in itertools.product(tables.items(), codes):
        outcomes[f"lookup:{tname}:{code!r}"] = outcome(decoders.lookup, table, code)
    outcomes["lookup:unhashable"] = outcome(decoders.lookup, decoders.observation_modes, ["SBS"])
    outcomes["lookup:not-a-mapping"] = outcome(decoders.lookup, None, "SBS")
    outcomes["lookup:list"] = outcome(decoders.lookup, ["SBS"], "SBS")

    # the translation table is a module global that is consulted at call time
    restore = Restore()
    try:
        def fail_with(exc):
            def translator(value):
                raise exc
            return translator

        for label, exc in {
            "ValueError": ValueError("boom"),
            "KeyError": KeyError("boom"),
            "TypeError": TypeError("boom"),
            "UnicodeError": UnicodeError("boom"),  # a subclass of ValueError
        }.items():
            for key in ["mission_name", "scene_frame", "observation_direction", "scan_number"]:
                patched = dict(decoders.translations)
                patched[key] = fail_with(exc)
                restore.setattr(decoders, "translations", patched)
                prefix = f"patched:{key}:{label}"
                outcomes[f"{prefix}:scene"] = outcome(decoders.decode_scene_id, SCENE_IDS[0])
                outcomes[f"{prefix}:product"] = outcome(decoders.decode_product_id, PRODUCT_IDS[0])
                outcomes[f"{prefix}:scan"] = outcome(decoders.decode_scan_info, "F3")
                outcomes[f"{prefix}:scan-none"] = outcome(decoders.decode_scan_info, None)
                restore.undo()

        # missing entries in the table
        for key in ["date", "orbit_direction", "processing_method"]:
            patched = dict(decoders.translations)
            del patched[key]
            restore.setattr(decoders, "translations", patched)
            prefix = f"missing:{key}"
            outcomes[f"{prefix}:scene"] = outcome(decoders.decode_scene_id, SCENE_IDS[0])
            outcomes[f"{prefix}:product"] = outcome(decoders.decode_product_id, PRODUCT_IDS[0])
            outcomes[f"{prefix}:scan"] = outcome(decoders.decode_scan_info, "F3")
            restore.undo()

        # translators see the raw strings, in the order of the groups
        seen = []

        def record(name):
            def translator(value):
                seen.append((name, value))
                return len(seen)
            return translator

        restore.setattr(
            decoders, "translations", {name: record(name) for name in decoders.translations}
        )
        outcomes["recorded:scene"] = outcome(decoders.decode_scene_id, SCENE_IDS[0])
        outcomes["recorded:product"] = outcome(decoders.decode_product_id, PRODUCT_IDS[0])
        outcomes["recorded:scan"] = outcome(decoders.decode_scan_info, "B7")
        outcomes["recorded:seen"] = repr(seen)
        restore.undo()

        # the patterns are module globals that are consulted at call time, too
        import re

        restore.setattr(decoders, "scene_id_re", re.compile(r"(?P<mission_name>.+)"))
        restore.setattr(decoders, "product_id_re", re.compile(r"(?P<orbit_direction>.)"))
        restore.setattr(decoders, "scan_info_re", re.compile(r"(?P<scan_number>[0-9]+)"))
        outcomes["pattern:scene"] = outcome(decoders.decode_scene_id, "anything goes")
        outcomes["pattern:scene-empty"] = outcome(decoders.decode_scene_id, "")
        outcomes["pattern:product"] = outcome(decoders.decode_product_id, "A")
        outcomes["pattern:product-bad"] = outcome(decoders.decode_product_id, "X")
        outcomes["pattern:product-long"] = outcome(decoders.decode_product_id, "AD")
        outcomes["pattern:scan"] = outcome(decoders.decode_scan_info, "123")
        outcomes["pattern:scan-bad"] = outcome(decoders.decode_scan_info, "B1")
        restore.undo()
    finally:
        restore.undo()

    # str subclasses: matched like a str, formatted into the message exactly once
    for label, func, value in [
        ("scene-ok", decoders.decode_scene_id, "ALOS2014410740-140829"),
        ("scene-mismatch", decoders.decode_scene_id, "ALOS2014410740"),
        ("scene-date", decoders.decode_scene_id, "ALOS2014410740-140832"),
        ("product-ok", decoders.decode_product_id, "WWDR1.5RUA"),
        ("product-mismatch", decoders.decode_product_id, "WWDR1.5RUX"),
        ("product-code", decoders.decode_product_id, "XXXR1.5RUA"),
        ("scan-ok", decoders.decode_scan_info, "F1"),
        ("scan-mismatch", decoders.decode_scan_info, "F"),
    ]:
        Name.formatted = 0
        result = outcome(func, Name(value))
        outcomes[f"subclass:{label}"] = repr((result, Name.formatted))

    return outcomes


def check_fresh_results():
    first = decoders.decode_scan_info(None)
    first["x"] = 1
    assert decoders.decode_scan_info(None) == {}
    a = decoders.decode_scene_id(SCENE_IDS[0])
    b = decoders.decode_scene_id(SCENE_IDS[0])
    assert a == b and a is not b


def check_module_surface():
    for name in [
        "datetime", "re", "merge", "curry", "passthrough", "valsplit",
        "scene_id_re", "product_id_re", "scan_info_re", "fname_re",
        "observation_modes", "observation_directions", "processing_levels",
        "processing_options", "map_projections", "orbit_directions", "processing_methods",
        "resampling_methods", "processing_facilities", "parse_date", "lookup", "translations",
        "decode_scene_id", "decode_product_id", "decode_scan_info", "decode_filename",
    ]:  # fmt: skip
        assert hasattr(decoders, name), name


EXPECTED = {"scene:0:'ALOS2014410740-140829'": "('returned', 'dict', ['mission_name', "
                                    "'orbit_accumulation', 'scene_frame', 'date'], "
                                    "{'mission_name': 'ALOS2', 'orbit_accumulation': '01441', "
                                    "'scene_frame': '0740', 'date': datetime.datetime(2014, 8, "
                                    '29, 0, 0)})',
 "scene:1:'ALOS2000010000-000101'": "('returned', 'dict', ['mission_name', "
                                    "'orbit_accumulation', 'scene_frame', 'date'], "
                                    "{'mission_name': 'ALOS2', 'orbit_accumulation': '00001', "
                                    "'scene_frame': '0000', 'date': datetime.datetime(2000, 1, "
                                    '1, 0, 0)})',
 "scene:2:'ABC12999999999-991231'": "('returned', 'dict', ['mission_name', "
                                    "'orbit_accumulation', 'scene_frame', 'date'], "
                                    "{'mission_name': 'ABC12', 'orbit_accumulation': '99999', "
                                    "'scene_frame': '9999', 'date': datetime.datetime(1999, "
                                    '12, 31, 0, 0)})',
 "scene:3:'00000000000000-680101'": "('returned', 'dict', ['mission_name', "
                                    "'orbit_accumulation', 'scene_frame', 'date'], "
                                    "{'mission_name': '00000', 'orbit_accumulation': '00000', "
                                    "'scene_frame': '0000', 'date': datetime.datetime(2068, 1, "
                                    '1, 0, 0)})',
 "scene:4:'ALOS2014410740-690228'": "('returned', 'dict', ['mission_name', "
                                    "'orbit_accumulation', 'scene_frame', 'date'], "
                                    "{'mission_name': 'ALOS2', 'orbit_accumulation': '01441', "
                                    "'scene_frame': '0740', 'date': datetime.datetime(1969, 2, "
                                    '28, 0, 0)})',
 "scene:5:'ALOS2014410740-160229'": "('returned', 'dict', ['mission_name', "
                                    "'orbit_accumulation', 'scene_frame', 'date'], "
                                    "{'mission_name': 'ALOS2', 'orbit_accumulation': '01441', "
                                    "'scene_frame': '0740', 'date': datetime.datetime(2016, 2, "
                                    '29, 0, 0)})',
 "scene:6:'ALOS2014410740-150229'": "('raised', ('ValueError', 'invalid scene id: "
                                    "ALOS2014410740-150229', ('ValueError', 'day is out of "
                                    "range for month', None, False), True))",
 "scene:7:'ALOS2014410740-140832'": "('raised', ('ValueError', 'invalid scene id: "
                                    "ALOS2014410740-140832', ('ValueError', 'unconverted data "
                                    "remains: 2', None, False), True))",
 "scene:8:'ALOS2014410740-141301'": "('raised', ('ValueError', 'invalid scene id: "
                                    "ALOS2014410740-141301', ('ValueError', 'unconverted data "
                                    "remains: 1', None, False), True))",
 "scene:9:'ALOS2014410740-140015'": "('raised', ('ValueError', 'invalid scene id: "
                                    'ALOS2014410740-140015\', (\'ValueError\', "time data '
                                    '\'140015\' does not match format \'%y%m%d\'", None, '
                                    'False), True))',
 "scene:10:'ALOS2014410740-000000'": "('raised', ('ValueError', 'invalid scene id: "
                                     'ALOS2014410740-000000\', (\'ValueError\', "time data '
                                     '\'000000\' does not match format \'%y%m%d\'", None, '
                                     'False), True))',
 "scene:11:''": "('raised', ('ValueError', 'invalid scene id: ', None, False))",
 "scene:12:'ALOS2014410740'": "('raised', ('ValueError', 'invalid scene id: ALOS2014410740', "
                              'None, False))',
 "scene:13:'ALOS2014410740-14082'": "('raised', ('ValueError', 'invalid scene id: "
                                    "ALOS2014410740-14082', None, False))",
 "scene:14:'ALOS2014410740-1408290'": "('raised', ('ValueError', 'invalid scene id: "
                                      "ALOS2014410740-1408290', None, False))",
 "scene:15:'ALOS2014410740_140829'": "('raised', ('ValueError', 'invalid scene id: "
                                     "ALOS2014410740_140829', None, False))",
 "scene:16:'alos2014410740-140829'": "('raised', ('ValueError', 'invalid scene id: "
                                     "alos2014410740-140829', None, False))",
 "scene:17:'ALOS20144A0740-140829'": "('raised', ('ValueError', 'invalid scene id: "
                                     "ALOS20144A0740-140829', None, False))",
 "scene:18:'ALOS201441074A-140829'": "('raised', ('ValueError', 'invalid scene id: "
                                     "ALOS201441074A-140829', None, False))",
 "scene:19:' ALOS2014410740-140829'": "('raised', ('ValueError', 'invalid scene id:  "
                                      "ALOS2014410740-140829', None, False))",
 "scene:20:'ALOS2014410740-140829\\n'": "('raised', ('ValueError', 'invalid scene id: "
                                        "ALOS2014410740-140829\\n', None, False))",
 "scene:21:'ALOS2014410740-140829-WWDR1.5RUA'": "('raised', ('ValueError', 'invalid scene id: "
                                                "ALOS2014410740-140829-WWDR1.5RUA', None, "
                                                'False))',
 "scene:22:'ALOS2014410740-１４０８２９'": "('raised', ('ValueError', 'invalid scene id: "
                                     "ALOS2014410740-１４０８２９', None, False))",
 'scene:23:None': '(\'raised\', (\'TypeError\', "expected string or bytes-like object, got '
                  '\'NoneType\'", None, False))',
 "scene:24:b'ALOS2014410740-140829'": "('raised', ('TypeError', 'cannot use a string pattern "
                                      "on a bytes-like object', None, False))",
 'scene:25:14': '(\'raised\', (\'TypeError\', "expected string or bytes-like object, got '
                '\'int\'", None, False))',
 "product:0:'WWDR1.5RUA'": "('returned', 'dict', ['observation_mode', 'observation_direction', "
                           "'processing_level', 'processing_option', 'map_projection', "
                           "'orbit_direction'], {'observation_mode': 'ScanSAR nominal 28MHz "
                           "mode dual polarization', 'observation_direction': 'right looking', "
                           "'processing_level': 'level 1.5', 'processing_option': "
                           "'geo-reference', 'map_projection': 'UTM', 'orbit_direction': "
                           "'ascending'})",
 "product:1:'UBSL1.1__D'": "('returned', 'dict', ['observation_mode', 'observation_direction', "
                           "'processing_level', 'processing_option', 'map_projection', "
                           "'orbit_direction'], {'observation_mode': 'ultra-fine mode single "
                           "polarization', 'observation_direction': 'left looking', "
                           "'processing_level': 'level 1.1', 'processing_option': 'not "
                           "specified', 'map_projection': 'not specified', 'orbit_direction': "
                           "'descending'})",
 "product:2:'HBQR3.1GMD'": "('returned', 'dict', ['observation_mode', 'observation_direction', "
                           "'processing_level', 'processing_option', 'map_projection', "
                           "'orbit_direction'], {'observation_mode': 'high-sensitive mode full "
                           "(quad.) polarimetry', 'observation_direction': 'right looking', "
                           "'processing_level': 'level 3.1', 'processing_option': 'geo-code', "
                           "'map_projection': 'MER', 'orbit_direction': 'descending'})",
 "product:3:'XXXR1.5RUA'": "('raised', ('ValueError', 'invalid product id: XXXR1.5RUA', "
                           '(\'ValueError\', "invalid code \'XXX\'", None, False), True))',
 "product:4:'AAAL1.0__A'": "('raised', ('ValueError', 'invalid product id: AAAL1.0__A', "
                           '(\'ValueError\', "invalid code \'AAA\'", None, False), True))',
 "product:5:'WB R1.5RUA'": "('raised', ('ValueError', 'invalid product id: WB R1.5RUA', None, "
                           'False))',
 "product:6:''": "('raised', ('ValueError', 'invalid product id: ', None, False))",
 "product:7:'WWDR1.5RU'": "('raised', ('ValueError', 'invalid product id: WWDR1.5RU', None, "
                          'False))',
 "product:8:'WWDR1.5RUAA'": "('raised', ('ValueError', 'invalid product id: WWDR1.5RUAA', "
                            'None, False))',
 "product:9:'WWDX1.5RUA'": "('raised', ('ValueError', 'invalid product id: WWDX1.5RUA', None, "
                           'False))',
 "product:10:'WWDR1.2RUA'": "('raised', ('ValueError', 'invalid product id: WWDR1.2RUA', None, "
                            'False))',
 "product:11:'WWDR15RUA_'": "('raised', ('ValueError', 'invalid product id: WWDR15RUA_', None, "
                            'False))',
 "product:12:'WWDR1_5RUA'": "('raised', ('ValueError', 'invalid product id: WWDR1_5RUA', None, "
                            'False))',
 "product:13:'WWDR1.5XUA'": "('raised', ('ValueError', 'invalid product id: WWDR1.5XUA', None, "
                            'False))',
 "product:14:'WWDR1.5RXA'": "('raised', ('ValueError', 'invalid product id: WWDR1.5RXA', None, "
                            'False))',
 "product:15:'WWDR1.5RUX'": "('raised', ('ValueError', 'invalid product id: WWDR1.5RUX', None, "
                            'False))',
 "product:16:'wwdr1.5rua'": "('raised', ('ValueError', 'invalid product id: wwdr1.5rua', None, "
                            'False))',
 "product:17:'WWDR1.5RUA\\n'": "('raised', ('ValueError', 'invalid product id: WWDR1.5RUA\\n', "
                               'None, False))',
 'product:18:None': '(\'raised\', (\'TypeError\', "expected string or bytes-like object, got '
                    '\'NoneType\'", None, False))',
 "product:19:b'WWDR1.5RUA'": "('raised', ('TypeError', 'cannot use a string pattern on a "
                             "bytes-like object', None, False))",
 'product:20:1.5': '(\'raised\', (\'TypeError\', "expected string or bytes-like object, got '
                   '\'float\'", None, False))',
 "valid-product:0:'SBSL1.0GUA'": "('returned', 'dict', ['observation_mode', "
                                 "'observation_direction', 'processing_level', "
                                 "'processing_option', 'map_projection', 'orbit_direction'], "
                                 "{'observation_mode': 'spotlight mode', "
                                 "'observation_direction': 'left looking', 'processing_level': "
                                 "'level 1.0', 'processing_option': 'geo-code', "
                                 "'map_projection': 'UTM', 'orbit_direction': 'ascending'})",
 "valid-product:97:'SBSL3.1GLD'": "('returned', 'dict', ['observation_mode', "
                                  "'observation_direction', 'processing_level', "
                                  "'processing_option', 'map_projection', 'orbit_direction'], "
                                  "{'observation_mode': 'spotlight mode', "
                                  "'observation_direction': 'left looking', "
                                  "'processing_level': 'level 3.1', 'processing_option': "
                                  "'geo-code', 'map_projection': 'LCC', 'orbit_direction': "
                                  "'descending'})",
 "valid-product:194:'SBSR1.5RMA'": "('returned', 'dict', ['observation_mode', "
                                   "'observation_direction', 'processing_level', "
                                   "'processing_option', 'map_projection', 'orbit_direction'], "
                                   "{'observation_mode': 'spotlight mode', "
                                   "'observation_direction': 'right looking', "
                                   "'processing_level': 'level 1.5', 'processing_option': "
                                   "'geo-reference', 'map_projection': 'MER', "
                                   "'orbit_direction': 'ascending'})",
 "valid-product:291:'UBSL1.1_UD'": "('returned', 'dict', ['observation_mode', "
                                   "'observation_direction', 'processing_level', "
                                   "'processing_option', 'map_projection', 'orbit_direction'], "
                                   "{'observation_mode': 'ultra-fine mode single "
                                   "polarization', 'observation_direction': 'left looking', "
                                   "'processing_level': 'level 1.1', 'processing_option': 'not "
                                   "specified', 'map_projection': 'UTM', 'orbit_direction': "
                                   "'descending'})",
 "valid-product:388:'UBSR1.0__A'": "('returned', 'dict', ['observation_mode', "
                                   "'observation_direction', 'processing_level', "
                                   "'processing_option', 'map_projection', 'orbit_direction'], "
                                   "{'observation_mode': 'ultra-fine mode single "
                                   "polarization', 'observation_direction': 'right looking', "
                                   "'processing_level': 'level 1.0', 'processing_option': 'not "
                                   "specified', 'map_projection': 'not specified', "
                                   "'orbit_direction': 'ascending'})",
 "valid-product:485:'UBDL1.0GMD'": "('returned', 'dict', ['observation_mode', "
                                   "'observation_direction', 'processing_level', "
                                   "'processing_option', 'map_projection', 'orbit_direction'], "
                                   "{'observation_mode': 'ultra-fine mode dual polarization', "
                                   "'observation_direction': 'left looking', "
                                   "'processing_level': 'level 1.0', 'processing_option': "
                                   "'geo-code', 'map_projection': 'MER', 'orbit_direction': "
                                   "'descending'})",
 "valid-product:582:'UBDL3.1RPA'": "('returned', 'dict', ['observation_mode', "
                                   "'observation_direction', 'processing_level', "
                                   "'processing_option', 'map_projection', 'orbit_direction'], "
                                   "{'observation_mode': 'ultra-fine mode dual polarization', "
                                   "'observation_direction': 'left looking', "
                                   "'processing_level': 'level 3.1', 'processing_option': "
                                   "'geo-reference', 'map_projection': 'PS', "
                                   "'orbit_direction': 'ascending'})",
 "valid-product:679:'UBDR1.5R_D'": "('returned', 'dict', ['observation_mode', "
                                   "'observation_direction', 'processing_level', "
                                   "'processing_option', 'map_projection', 'orbit_direction'], "
                                   "{'observation_mode': 'ultra-fine mode dual polarization', "
                                   "'observation_direction': 'right looking', "
                                   "'processing_level': 'level 1.5', 'processing_option': "
                                   "'geo-reference', 'map_projection': 'not specified', "
                                   "'orbit_direction': 'descending'})",
 "valid-product:776:'HBSL1.1_LA'": "('returned', 'dict', ['observation_mode', "
                                   "'observation_direction', 'processing_level', "
                                   "'processing_option', 'map_projection', 'orbit_direction'], "
                                   "{'observation_mode': 'high-sensitive mode single "
                                   "polarization', 'observation_direction': 'left looking', "
                                   "'processing_level': 'level 1.1', 'processing_option': 'not "
                                   "specified', 'map_projection': 'LCC', 'orbit_direction': "
                                   "'ascending'})",
 "valid-product:873:'HBSR1.1GPD'": "('returned', 'dict', ['observation_mode', "
                                   "'observation_direction', 'processing_level', "
                                   "'processing_option', 'map_projection', 'orbit_direction'], "
                                   "{'observation_mode': 'high-sensitive mode single "
                                   "polarization', 'observation_direction': 'right looking', "
                                   "'processing_level': 'level 1.1', 'processing_option': "
                                   "'geo-code', 'map_projection': 'PS', 'orbit_direction': "
                                   "'descending'})",
 "valid-product:970:'HBDL1.0RUA'": "('returned', 'dict', ['observation_mode', "
                                   "'observation_direction', 'processing_level', "
                                   "'processing_option', 'map_projection', 'orbit_direction'], "
                                   "{'observation_mode': 'high-sensitive mode dual "
                                   "polarization', 'observation_direction': 'left looking', "
                                   "'processing_level': 'level 1.0', 'processing_option': "
                                   "'geo-reference', 'map_projection': 'UTM', "
                                   "'orbit_direction': 'ascending'})",
 "valid-product:1067:'HBDL3.1RLD'": "('returned', 'dict', ['observation_mode', "
                                    "'observation_direction', 'processing_level', "
                                    "'processing_option', 'map_projection', "
                                    "'orbit_direction'], {'observation_mode': 'high-sensitive "
                                    "mode dual polarization', 'observation_direction': 'left "
                                    "looking', 'processing_level': 'level 3.1', "
                                    "'processing_option': 'geo-reference', 'map_projection': "
                                    "'LCC', 'orbit_direction': 'descending'})",
 "valid-product:1164:'HBDR1.5_MA'": "('returned', 'dict', ['observation_mode', "
                                    "'observation_direction', 'processing_level', "
                                    "'processing_option', 'map_projection', "
                                    "'orbit_direction'], {'observation_mode': 'high-sensitive "
                                    "mode dual polarization', 'observation_direction': 'right "
                                    "looking', 'processing_level': 'level 1.5', "
                                    "'processing_option': 'not specified', 'map_projection': "
                                    "'MER', 'orbit_direction': 'ascending'})",
 "valid-product:1261:'HBQL1.5GUD'": "('returned', 'dict', ['observation_mode', "
                                    "'observation_direction', 'processing_level', "
                                    "'processing_option', 'map_projection', "
                                    "'orbit_direction'], {'observation_mode': 'high-sensitive "
                                    "mode full (quad.) polarimetry', 'observation_direction': "
                                    "'left looking', 'processing_level': 'level 1.5', "
                                    "'processing_option': 'geo-code', 'map_projection': 'UTM', "
                                    "'orbit_direction': 'descending'})",
 "valid-product:1358:'HBQR1.1G_A'": "('returned', 'dict', ['observation_mode', "
                                    "'observation_direction', 'processing_level', "
                                    "'processing_option', 'map_projection', "
                                    "'orbit_direction'], {'observation_mode': 'high-sensitive "
                                    "mode full (quad.) polarimetry', 'observation_direction': "
                                    "'right looking', 'processing_level': 'level 1.1', "
                                    "'processing_option': 'geo-code', 'map_projection': 'not "
                                    "specified', 'orbit_direction': 'ascending'})",
 "valid-product:1455:'FBSL1.0RMD'": "('returned', 'dict', ['observation_mode', "
                                    "'observation_direction', 'processing_level', "
                                    "'processing_option', 'map_projection', "
                                    "'orbit_direction'], {'observation_mode': 'fine mode "
                                    "single polarization', 'observation_direction': 'left "
                                    "looking', 'processing_level': 'level 1.0', "
                                    "'processing_option': 'geo-reference', 'map_projection': "
                                    "'MER', 'orbit_direction': 'descending'})",
 "valid-product:1552:'FBSL3.1_PA'": "('returned', 'dict', ['observation_mode', "
                                    "'observation_direction', 'processing_level', "
                                    "'processing_option', 'map_projection', "
                                    "'orbit_direction'], {'observation_mode': 'fine mode "
                                    "single polarization', 'observation_direction': 'left "
                                    "looking', 'processing_level': 'level 3.1', "
                                    "'processing_option': 'not specified', 'map_projection': "
                                    "'PS', 'orbit_direction': 'ascending'})",
 "valid-product:1649:'FBSR1.5__D'": "('returned', 'dict', ['observation_mode', "
                                    "'observation_direction', 'processing_level', "
                                    "'processing_option', 'map_projection', "
                                    "'orbit_direction'], {'observation_mode': 'fine mode "
                                    "single polarization', 'observation_direction': 'right "
                                    "looking', 'processing_level': 'level 1.5', "
                                    "'processing_option': 'not specified', 'map_projection': "
                                    "'not specified', 'orbit_direction': 'descending'})",
 "valid-product:1746:'FBDL1.5GLA'": "('returned', 'dict', ['observation_mode', "
                                    "'observation_direction', 'processing_level', "
                                    "'processing_option', 'map_projection', "
                                    "'orbit_direction'], {'observation_mode': 'fine mode dual "
                                    "polarization', 'observation_direction': 'left looking', "
                                    "'processing_level': 'level 1.5', 'processing_option': "
                                    "'geo-code', 'map_projection': 'LCC', 'orbit_direction': "
                                    "'ascending'})",
 "valid-product:1843:'FBDR1.1RPD'": "('returned', 'dict', ['observation_mode', "
                                    "'observation_direction', 'processing_level', "
                                    "'processing_option', 'map_projection', "
                                    "'orbit_direction'], {'observation_mode': 'fine mode dual "
                                    "polarization', 'observation_direction': 'right looking', "
                                    "'processing_level': 'level 1.1', 'processing_option': "
                                    "'geo-reference', 'map_projection': 'PS', "
                                    "'orbit_direction': 'descending'})",
 "valid-product:1940:'FBQL1.0_UA'": "('returned', 'dict', ['observation_mode', "
                                    "'observation_direction', 'processing_level', "
                                    "'processing_option', 'map_projection', "
                                    "'orbit_direction'], {'observation_mode': 'fine mode full "
                                    "(quad.) polarimetry', 'observation_direction': 'left "
                                    "looking', 'processing_level': 'level 1.0', "
                                    "'processing_option': 'not specified', 'map_projection': "
                                    "'UTM', 'orbit_direction': 'ascending'})",
 "valid-product:2037:'FBQL3.1_LD'": "('returned', 'dict', ['observation_mode', "
                                    "'observation_direction', 'processing_level', "
                                    "'processing_option', 'map_projection', "
                                    "'orbit_direction'], {'observation_mode': 'fine mode full "
                                    "(quad.) polarimetry', 'observation_direction': 'left "
                                    "looking', 'processing_level': 'level 3.1', "
                                    "'processing_option': 'not specified', 'map_projection': "
                                    "'LCC', 'orbit_direction': 'descending'})",
 "valid-product:2134:'FBQR3.1GMA'": "('returned', 'dict', ['observation_mode', "
                                    "'observation_direction', 'processing_level', "
                                    "'processing_option', 'map_projection', "
                                    "'orbit_direction'], {'observation_mode': 'fine mode full "
                                    "(quad.) polarimetry', 'observation_direction': 'right "
                                    "looking', 'processing_level': 'level 3.1', "
                                    "'processing_option': 'geo-code', 'map_projection': 'MER', "
                                    "'orbit_direction': 'ascending'})",
 "valid-product:2231:'WBSL1.5RUD'": "('returned', 'dict', ['observation_mode', "
                                    "'observation_direction', 'processing_level', "
                                    "'processing_option', 'map_projection', "
                                    "'orbit_direction'], {'observation_mode': 'ScanSAR nominal "
                                    "14MHz mode single polarization', 'observation_direction': "
                                    "'left looking', 'processing_level': 'level 1.5', "
                                    "'processing_option': 'geo-reference', 'map_projection': "
                                    "'UTM', 'orbit_direction': 'descending'})",
 "valid-product:2328:'WBSR1.1R_A'": "('returned', 'dict', ['observation_mode', "
                                    "'observation_direction', 'processing_level', "
                                    "'processing_option', 'map_projection', "
                                    "'orbit_direction'], {'observation_mode': 'ScanSAR nominal "
                                    "14MHz mode single polarization', 'observation_direction': "
                                    "'right looking', 'processing_level': 'level 1.1', "
                                    "'processing_option': 'geo-reference', 'map_projection': "
                                    "'not specified', 'orbit_direction': 'ascending'})",
 "valid-product:2425:'WBDL1.0_MD'": "('returned', 'dict', ['observation_mode', "
                                    "'observation_direction', 'processing_level', "
                                    "'processing_option', 'map_projection', "
                                    "'orbit_direction'], {'observation_mode': 'ScanSAR nominal "
                                    "14MHz mode dual polarization', 'observation_direction': "
                                    "'left looking', 'processing_level': 'level 1.0', "
                                    "'processing_option': 'not specified', 'map_projection': "
                                    "'MER', 'orbit_direction': 'descending'})",
 "valid-product:2522:'WBDR1.0GPA'": "('returned', 'dict', ['observation_mode', "
                                    "'observation_direction', 'processing_level', "
                                    "'processing_option', 'map_projection', "
                                    "'orbit_direction'], {'observation_mode': 'ScanSAR nominal "
                                    "14MHz mode dual polarization', 'observation_direction': "
                                    "'right looking', 'processing_level': 'level 1.0', "
                                    "'processing_option': 'geo-code', 'map_projection': 'PS', "
                                    "'orbit_direction': 'ascending'})",
 "valid-product:2619:'WBDR3.1G_D'": "('returned', 'dict', ['observation_mode', "
                                    "'observation_direction', 'processing_level', "
                                    "'processing_option', 'map_projection', "
                                    "'orbit_direction'], {'observation_mode': 'ScanSAR nominal "
                                    "14MHz mode dual polarization', 'observation_direction': "
                                    "'right looking', 'processing_level': 'level 3.1', "
                                    "'processing_option': 'geo-code', 'map_projection': 'not "
                                    "specified', 'orbit_direction': 'descending'})",
 "valid-product:2716:'WWSL1.5RLA'": "('returned', 'dict', ['observation_mode', "
                                    "'observation_direction', 'processing_level', "
                                    "'processing_option', 'map_projection', "
                                    "'orbit_direction'], {'observation_mode': 'ScanSAR nominal "
                                    "28MHz mode single polarization', 'observation_direction': "
                                    "'left looking', 'processing_level': 'level 1.5', "
                                    "'processing_option': 'geo-reference', 'map_projection': "
                                    "'LCC', 'orbit_direction': 'ascending'})",
 "valid-product:2813:'WWSR1.1_PD'": "('returned', 'dict', ['observation_mode', "
                                    "'observation_direction', 'processing_level', "
                                    "'processing_option', 'map_projection', "
                                    "'orbit_direction'], {'observation_mode': 'ScanSAR nominal "
                                    "28MHz mode single polarization', 'observation_direction': "
                                    "'right looking', 'processing_level': 'level 1.1', "
                                    "'processing_option': 'not specified', 'map_projection': "
                                    "'PS', 'orbit_direction': 'descending'})",
 "valid-product:2910:'WWDL1.1GUA'": "('returned', 'dict', ['observation_mode', "
                                    "'observation_direction', 'processing_level', "
                                    "'processing_option', 'map_projection', "
                                    "'orbit_direction'], {'observation_mode': 'ScanSAR nominal "
                                    "28MHz mode dual polarization', 'observation_direction': "
                                    "'left looking', 'processing_level': 'level 1.1', "
                                    "'processing_option': 'geo-code', 'map_projection': 'UTM', "
                                    "'orbit_direction': 'ascending'})",
 "valid-product:3007:'WWDR1.0GLD'": "('returned', 'dict', ['observation_mode', "
                                    "'observation_direction', 'processing_level', "
                                    "'processing_option', 'map_projection', "
                                    "'orbit_direction'], {'observation_mode': 'ScanSAR nominal "
                                    "28MHz mode dual polarization', 'observation_direction': "
                                    "'right looking', 'processing_level': 'level 1.0', "
                                    "'processing_option': 'geo-code', 'map_projection': 'LCC', "
                                    "'orbit_direction': 'descending'})",
 "valid-product:3104:'WWDR3.1RMA'": "('returned', 'dict', ['observation_mode', "
                                    "'observation_direction', 'processing_level', "
                                    "'processing_option', 'map_projection', "
                                    "'orbit_direction'], {'observation_mode': 'ScanSAR nominal "
                                    "28MHz mode dual polarization', 'observation_direction': "
                                    "'right looking', 'processing_level': 'level 3.1', "
                                    "'processing_option': 'geo-reference', 'map_projection': "
                                    "'MER', 'orbit_direction': 'ascending'})",
 "valid-product:3201:'VBSL1.5_UD'": "('returned', 'dict', ['observation_mode', "
                                    "'observation_direction', 'processing_level', "
                                    "'processing_option', 'map_projection', "
                                    "'orbit_direction'], {'observation_mode': 'ScanSAR wide "
                                    "mode single polarization', 'observation_direction': 'left "
                                    "looking', 'processing_level': 'level 1.5', "
                                    "'processing_option': 'not specified', 'map_projection': "
                                    "'UTM', 'orbit_direction': 'descending'})",
 "valid-product:3298:'VBSR1.1__A'": "('returned', 'dict', ['observation_mode', "
                                    "'observation_direction', 'processing_level', "
                                    "'processing_option', 'map_projection', "
                                    "'orbit_direction'], {'observation_mode': 'ScanSAR wide "
                                    "mode single polarization', 'observation_direction': "
                                    "'right looking', 'processing_level': 'level 1.1', "
                                    "'processing_option': 'not specified', 'map_projection': "
                                    "'not specified', 'orbit_direction': 'ascending'})",
 "valid-product:3395:'VBDL1.1GMD'": "('returned', 'dict', ['observation_mode', "
                                    "'observation_direction', 'processing_level', "
                                    "'processing_option', 'map_projection', "
                                    "'orbit_direction'], {'observation_mode': 'ScanSAR wide "
                                    "mode dual polarization', 'observation_direction': 'left "
                                    "looking', 'processing_level': 'level 1.1', "
                                    "'processing_option': 'geo-code', 'map_projection': 'MER', "
                                    "'orbit_direction': 'descending'})",
 "valid-product:3492:'VBDR1.0RPA'": "('returned', 'dict', ['observation_mode', "
                                    "'observation_direction', 'processing_level', "
                                    "'processing_option', 'map_projection', "
                                    "'orbit_direction'], {'observation_mode': 'ScanSAR wide "
                                    "mode dual polarization', 'observation_direction': 'right "
                                    "looking', 'processing_level': 'level 1.0', "
                                    "'processing_option': 'geo-reference', 'map_projection': "
                                    "'PS', 'orbit_direction': 'ascending'})",
 "valid-product:3589:'VBDR3.1R_D'": "('returned', 'dict', ['observation_mode', "
                                    "'observation_direction', 'processing_level', "
                                    "'processing_option', 'map_projection', "
                                    "'orbit_direction'], {'observation_mode': 'ScanSAR wide "
                                    "mode dual polarization', 'observation_direction': 'right "
                                    "looking', 'processing_level': 'level 3.1', "
                                    "'processing_option': 'geo-reference', 'map_projection': "
                                    "'not specified', 'orbit_direction': 'descending'})",
 'valid-products:count': '3600',
 'valid-products:digest': 'f814f09b140b53f93da85e97a042c714569ee2334cf308dfbc2949683cea9797',
 'scan:0:None': "('returned', 'dict', [], {})",
 "scan:1:'B0'": "('returned', 'dict', ['processing_method', 'scan_number'], "
                "{'processing_method': 'SPECAN method', 'scan_number': '0'})",
 "scan:2:'B1'": "('returned', 'dict', ['processing_method', 'scan_number'], "
                "{'processing_method': 'SPECAN method', 'scan_number': '1'})",
 "scan:3:'B2'": "('returned', 'dict', ['processing_method', 'scan_number'], "
                "{'processing_method': 'SPECAN method', 'scan_number': '2'})",
 "scan:4:'B3'": "('returned', 'dict', ['processing_method', 'scan_number'], "
                "{'processing_method': 'SPECAN method', 'scan_number': '3'})",
 "scan:5:'B4'": "('returned', 'dict', ['processing_method', 'scan_number'], "
                "{'processing_method': 'SPECAN method', 'scan_number': '4'})",
 "scan:6:'B5'": "('returned', 'dict', ['processing_method', 'scan_number'], "
                "{'processing_method': 'SPECAN method', 'scan_number': '5'})",
 "scan:7:'B6'": "('returned', 'dict', ['processing_method', 'scan_number'], "
                "{'processing_method': 'SPECAN method', 'scan_number': '6'})",
 "scan:8:'B7'": "('returned', 'dict', ['processing_method', 'scan_number'], "
                "{'processing_method': 'SPECAN method', 'scan_number': '7'})",
 "scan:9:'B8'": "('returned', 'dict', ['processing_method', 'scan_number'], "
                "{'processing_method': 'SPECAN method', 'scan_number': '8'})",
 "scan:10:'B9'": "('returned', 'dict', ['processing_method', 'scan_number'], "
                 "{'processing_method': 'SPECAN method', 'scan_number': '9'})",
 "scan:11:'F0'": "('returned', 'dict', ['processing_method', 'scan_number'], "
                 "{'processing_method': 'full aperture_method', 'scan_number': '0'})",
 "scan:12:'F1'": "('returned', 'dict', ['processing_method', 'scan_number'], "
                 "{'processing_method': 'full aperture_method', 'scan_number': '1'})",
 "scan:13:'F2'": "('returned', 'dict', ['processing_method', 'scan_number'], "
                 "{'processing_method': 'full aperture_method', 'scan_number': '2'})",
 "scan:14:'F3'": "('returned', 'dict', ['processing_method', 'scan_number'], "
                 "{'processing_method': 'full aperture_method', 'scan_number': '3'})",
 "scan:15:'F4'": "('returned', 'dict', ['processing_method', 'scan_number'], "
                 "{'processing_method': 'full aperture_method', 'scan_number': '4'})",
 "scan:16:'F5'": "('returned', 'dict', ['processing_method', 'scan_number'], "
                 "{'processing_method': 'full aperture_method', 'scan_number': '5'})",
 "scan:17:'F6'": "('returned', 'dict', ['processing_method', 'scan_number'], "
                 "{'processing_method': 'full aperture_method', 'scan_number': '6'})",
 "scan:18:'F7'": "('returned', 'dict', ['processing_method', 'scan_number'], "
                 "{'processing_method': 'full aperture_method', 'scan_number': '7'})",
 "scan:19:'F8'": "('returned', 'dict', ['processing_method', 'scan_number'], "
                 "{'processing_method': 'full aperture_method', 'scan_number': '8'})",
 "scan:20:'F9'": "('returned', 'dict', ['processing_method', 'scan_number'], "
                 "{'processing_method': 'full aperture_method', 'scan_number': '9'})",
 "scan:21:''": "('raised', ('ValueError', 'invalid scan info: ', None, False))",
 "scan:22:'B'": "('raised', ('ValueError', 'invalid scan info: B', None, False))",
 "scan:23:'5'": "('raised', ('ValueError', 'invalid scan info: 5', None, False))",
 "scan:24:'X1'": "('raised', ('ValueError', 'invalid scan info: X1', None, False))",
 "scan:25:'b1'": "('raised', ('ValueError', 'invalid scan info: b1', None, False))",
 "scan:26:'B12'": "('raised', ('ValueError', 'invalid scan info: B12', None, False))",
 "scan:27:'BF'": "('raised', ('ValueError', 'invalid scan info: BF', None, False))",
 "scan:28:'F1\\n'": "('raised', ('ValueError', 'invalid scan info: F1\\n', None, False))",
 "scan:29:' F1'": "('raised', ('ValueError', 'invalid scan info:  F1', None, False))",
 "scan:30:'F１'": "('raised', ('ValueError', 'invalid scan info: F１', None, False))",
 "scan:31:b'F1'": "('raised', ('TypeError', 'cannot use a string pattern on a bytes-like "
                  "object', None, False))",
 'scan:32:7': '(\'raised\', (\'TypeError\', "expected string or bytes-like object, got '
              '\'int\'", None, False))',
 "lookup:observation_modes:'SBS'": "('returned', 'str', 'spotlight mode')",
 "lookup:observation_modes:'_'": '(\'raised\', (\'ValueError\', "invalid code \'_\'", None, '
                                 'False))',
 "lookup:observation_modes:'NN'": '(\'raised\', (\'ValueError\', "invalid code \'NN\'", None, '
                                  'False))',
 "lookup:observation_modes:'SCMO'": '(\'raised\', (\'ValueError\', "invalid code \'SCMO\'", '
                                    'None, False))',
 "lookup:observation_modes:'a'": '(\'raised\', (\'ValueError\', "invalid code \'a\'", None, '
                                 'False))',
 "lookup:observation_modes:'b'": '(\'raised\', (\'ValueError\', "invalid code \'b\'", None, '
                                 'False))',
 "lookup:observation_modes:'c'": '(\'raised\', (\'ValueError\', "invalid code \'c\'", None, '
                                 'False))',
 "lookup:observation_modes:'d'": '(\'raised\', (\'ValueError\', "invalid code \'d\'", None, '
                                 'False))',
 "lookup:observation_modes:'e'": '(\'raised\', (\'ValueError\', "invalid code \'e\'", None, '
                                 'False))',
 "lookup:observation_modes:''": '(\'raised\', (\'ValueError\', "invalid code \'\'", None, '
                                'False))',
 'lookup:observation_modes:None': "('raised', ('ValueError', 'invalid code None', None, "
                                  'False))',
 'lookup:observation_modes:1': "('raised', ('ValueError', 'invalid code 1', None, False))",
 "lookup:observation_modes:('x',)": '(\'raised\', (\'ValueError\', "invalid code (\'x\',)", '
                                    'None, False))',
 "lookup:processing_options:'SBS'": '(\'raised\', (\'ValueError\', "invalid code \'SBS\'", '
                                    'None, False))',
 "lookup:processing_options:'_'": "('returned', 'str', 'not specified')",
 "lookup:processing_options:'NN'": '(\'raised\', (\'ValueError\', "invalid code \'NN\'", None, '
                                   'False))',
 "lookup:processing_options:'SCMO'": '(\'raised\', (\'ValueError\', "invalid code \'SCMO\'", '
                                     'None, False))',
 "lookup:processing_options:'a'": '(\'raised\', (\'ValueError\', "invalid code \'a\'", None, '
                                  'False))',
 "lookup:processing_options:'b'": '(\'raised\', (\'ValueError\', "invalid code \'b\'", None, '
                                  'False))',
 "lookup:processing_options:'c'": '(\'raised\', (\'ValueError\', "invalid code \'c\'", None, '
                                  'False))',
 "lookup:processing_options:'d'": '(\'raised\', (\'ValueError\', "invalid code \'d\'", None, '
                                  'False))',
 "lookup:processing_options:'e'": '(\'raised\', (\'ValueError\', "invalid code \'e\'", None, '
                                  'False))',
 "lookup:processing_options:''": '(\'raised\', (\'ValueError\', "invalid code \'\'", None, '
                                 'False))',
 'lookup:processing_options:None': "('raised', ('ValueError', 'invalid code None', None, "
                                   'False))',
 'lookup:processing_options:1': "('raised', ('ValueError', 'invalid code 1', None, False))",
 "lookup:processing_options:('x',)": '(\'raised\', (\'ValueError\', "invalid code (\'x\',)", '
                                     'None, False))',
 "lookup:resampling_methods:'SBS'": '(\'raised\', (\'ValueError\', "invalid code \'SBS\'", '
                                    'None, False))',
 "lookup:resampling_methods:'_'": '(\'raised\', (\'ValueError\', "invalid code \'_\'", None, '
                                  'False))',
 "lookup:resampling_methods:'NN'": "('returned', 'str', 'nearest-neighbor')",
 "lookup:resampling_methods:'SCMO'": '(\'raised\', (\'ValueError\', "invalid code \'SCMO\'", '
                                     'None, False))',
 "lookup:resampling_methods:'a'": '(\'raised\', (\'ValueError\', "invalid code \'a\'", None, '
                                  'False))',
 "lookup:resampling_methods:'b'": '(\'raised\', (\'ValueError\', "invalid code \'b\'", None, '
                                  'False))',
 "lookup:resampling_methods:'c'": '(\'raised\', (\'ValueError\', "invalid code \'c\'", None, '
                                  'False))',
 "lookup:resampling_methods:'d'": '(\'raised\', (\'ValueError\', "invalid code \'d\'", None, '
                                  'False))',
 "lookup:resampling_methods:'e'": '(\'raised\', (\'ValueError\', "invalid code \'e\'", None, '
                                  'False))',
 "lookup:resampling_methods:''": '(\'raised\', (\'ValueError\', "invalid code \'\'", None, '
                                 'False))',
 'lookup:resampling_methods:None': "('raised', ('ValueError', 'invalid code None', None, "
                                   'False))',
 'lookup:resampling_methods:1': "('raised', ('ValueError', 'invalid code 1', None, False))",
 "lookup:resampling_methods:('x',)": '(\'raised\', (\'ValueError\', "invalid code (\'x\',)", '
                                     'None, False))',
 "lookup:processing_facilities:'SBS'": '(\'raised\', (\'ValueError\', "invalid code \'SBS\'", '
                                       'None, False))',
 "lookup:processing_facilities:'_'": '(\'raised\', (\'ValueError\', "invalid code \'_\'", '
                                     'None, False))',
 "lookup:processing_facilities:'NN'": '(\'raised\', (\'ValueError\', "invalid code \'NN\'", '
                                      'None, False))',
 "lookup:processing_facilities:'SCMO'": "('returned', 'str', 'spacecraft control mission "
                                        "operation system')",
 "lookup:processing_facilities:'a'": '(\'raised\', (\'ValueError\', "invalid code \'a\'", '
                                     'None, False))',
 "lookup:processing_facilities:'b'": '(\'raised\', (\'ValueError\', "invalid code \'b\'", '
                                     'None, False))',
 "lookup:processing_facilities:'c'": '(\'raised\', (\'ValueError\', "invalid code \'c\'", '
                                     'None, False))',
 "lookup:processing_facilities:'d'": '(\'raised\', (\'ValueError\', "invalid code \'d\'", '
                                     'None, False))',
 "lookup:processing_facilities:'e'": '(\'raised\', (\'ValueError\', "invalid code \'e\'", '
                                     'None, False))',
 "lookup:processing_facilities:''": '(\'raised\', (\'ValueError\', "invalid code \'\'", None, '
                                    'False))',
 'lookup:processing_facilities:None': "('raised', ('ValueError', 'invalid code None', None, "
                                      'False))',
 'lookup:processing_facilities:1': "('raised', ('ValueError', 'invalid code 1', None, False))",
 "lookup:processing_facilities:('x',)": '(\'raised\', (\'ValueError\', "invalid code '
                                        '(\'x\',)", None, False))',
 "lookup:falsy:'SBS'": '(\'raised\', (\'ValueError\', "invalid code \'SBS\'", None, False))',
 "lookup:falsy:'_'": '(\'raised\', (\'ValueError\', "invalid code \'_\'", None, False))',
 "lookup:falsy:'NN'": '(\'raised\', (\'ValueError\', "invalid code \'NN\'", None, False))',
 "lookup:falsy:'SCMO'": '(\'raised\', (\'ValueError\', "invalid code \'SCMO\'", None, False))',
 "lookup:falsy:'a'": "('returned', 'str', '')",
 "lookup:falsy:'b'": "('returned', 'int', 0)",
 "lookup:falsy:'c'": '(\'raised\', (\'ValueError\', "invalid code \'c\'", None, False))',
 "lookup:falsy:'d'": "('returned', 'list', [])",
 "lookup:falsy:'e'": '(\'raised\', (\'ValueError\', "invalid code \'e\'", None, False))',
 "lookup:falsy:''": '(\'raised\', (\'ValueError\', "invalid code \'\'", None, False))',
 'lookup:falsy:None': "('returned', 'str', 'none')",
 'lookup:falsy:1': "('raised', ('ValueError', 'invalid code 1', None, False))",
 "lookup:falsy:('x',)": '(\'raised\', (\'ValueError\', "invalid code (\'x\',)", None, False))',
 "lookup:empty:'SBS'": '(\'raised\', (\'ValueError\', "invalid code \'SBS\'", None, False))',
 "lookup:empty:'_'": '(\'raised\', (\'ValueError\', "invalid code \'_\'", None, False))',
 "lookup:empty:'NN'": '(\'raised\', (\'ValueError\', "invalid code \'NN\'", None, False))',
 "lookup:empty:'SCMO'": '(\'raised\', (\'ValueError\', "invalid code \'SCMO\'", None, False))',
 "lookup:empty:'a'": '(\'raised\', (\'ValueError\', "invalid code \'a\'", None, False))',
 "lookup:empty:'b'": '(\'raised\', (\'ValueError\', "invalid code \'b\'", None, False))',
 "lookup:empty:'c'": '(\'raised\', (\'ValueError\', "invalid code \'c\'", None, False))',
 "lookup:empty:'d'": '(\'raised\', (\'ValueError\', "invalid code \'d\'", None, False))',
 "lookup:empty:'e'": '(\'raised\', (\'ValueError\', "invalid code \'e\'", None, False))',
 "lookup:empty:''": '(\'raised\', (\'ValueError\', "invalid code \'\'", None, False))',
 'lookup:empty:None': "('raised', ('ValueError', 'invalid code None', None, False))",
 'lookup:empty:1': "('raised', ('ValueError', 'invalid code 1', None, False))",
 "lookup:empty:('x',)": '(\'raised\', (\'ValueError\', "invalid code (\'x\',)", None, False))',
 'lookup:unhashable': '(\'raised\', (\'TypeError\', "unhashable type: \'list\'", None, False))',
 'lookup:not-a-mapping': '(\'raised\', (\'AttributeError\', "\'NoneType\' object has no '
                         'attribute \'get\'", None, False))',
 'lookup:list': '(\'raised\', (\'AttributeError\', "\'list\' object has no attribute \'get\'", '
                'None, False))',
 'patched:mission_name:ValueError:scene': "('raised', ('ValueError', 'invalid scene id: "
                                          "ALOS2014410740-140829', ('ValueError', 'boom', "
                                          'None, False), True))',
 'patched:mission_name:ValueError:product': "('returned', 'dict', ['observation_mode', "
                                            "'observation_direction', 'processing_level', "
                                            "'processing_option', 'map_projection', "
                                            "'orbit_direction'], {'observation_mode': 'ScanSAR "
                                            "nominal 28MHz mode dual polarization', "
                                            "'observation_direction': 'right looking', "
                                            "'processing_level': 'level 1.5', "
                                            "'processing_option': 'geo-reference', "
                                            "'map_projection': 'UTM', 'orbit_direction': "
                                            "'ascending'})",
 'patched:mission_name:ValueError:scan': "('returned', 'dict', ['processing_method', "
                                         "'scan_number'], {'processing_method': 'full "
                                         "aperture_method', 'scan_number': '3'})",
 'patched:mission_name:ValueError:scan-none': "('returned', 'dict', [], {})",
 'patched:scene_frame:ValueError:scene': "('raised', ('ValueError', 'invalid scene id: "
                                         "ALOS2014410740-140829', ('ValueError', 'boom', None, "
                                         'False), True))',
 'patched:scene_frame:ValueError:product': "('returned', 'dict', ['observation_mode', "
                                           "'observation_direction', 'processing_level', "
                                           "'processing_option', 'map_projection', "
                                           "'orbit_direction'], {'observation_mode': 'ScanSAR "
                                           "nominal 28MHz mode dual polarization', "
                                           "'observation_direction': 'right looking', "
                                           "'processing_level': 'level 1.5', "
                                           "'processing_option': 'geo-reference', "
                                           "'map_projection': 'UTM', 'orbit_direction': "
                                           "'ascending'})",
 'patched:scene_frame:ValueError:scan': "('returned', 'dict', ['processing_method', "
                                        "'scan_number'], {'processing_method': 'full "
                                        "aperture_method', 'scan_number': '3'})",
 'patched:scene_frame:ValueError:scan-none': "('returned', 'dict', [], {})",
 'patched:observation_direction:ValueError:scene': "('returned', 'dict', ['mission_name', "
                                                   "'orbit_accumulation', 'scene_frame', "
                                                   "'date'], {'mission_name': 'ALOS2', "
                                                   "'orbit_accumulation': '01441', "
                                                   "'scene_frame': '0740', 'date': "
                                                   'datetime.datetime(2014, 8, 29, 0, 0)})',
 'patched:observation_direction:ValueError:product': "('raised', ('ValueError', 'invalid "
                                                     "product id: WWDR1.5RUA', ('ValueError', "
                                                     "'boom', None, False), True))",
 'patched:observation_direction:ValueError:scan': "('returned', 'dict', ['processing_method', "
                                                  "'scan_number'], {'processing_method': 'full "
                                                  "aperture_method', 'scan_number': '3'})",
 'patched:observation_direction:ValueError:scan-none': "('returned', 'dict', [], {})",
 'patched:scan_number:ValueError:scene': "('returned', 'dict', ['mission_name', "
                                         "'orbit_accumulation', 'scene_frame', 'date'], "
                                         "{'mission_name': 'ALOS2', 'orbit_accumulation': "
                                         "'01441', 'scene_frame': '0740', 'date': "
                                         'datetime.datetime(2014, 8, 29, 0, 0)})',
 'patched:scan_number:ValueError:product': "('returned', 'dict', ['observation_mode', "
                                           "'observation_direction', 'processing_level', "
                                           "'processing_option', 'map_projection', "
                                           "'orbit_direction'], {'observation_mode': 'ScanSAR "
                                           "nominal 28MHz mode dual polarization', "
                                           "'observation_direction': 'right looking', "
                                           "'processing_level': 'level 1.5', "
                                           "'processing_option': 'geo-reference', "
                                           "'map_projection': 'UTM', 'orbit_direction': "
                                           "'ascending'})",
 'patched:scan_number:ValueError:scan': "('raised', ('ValueError', 'boom', None, False))",
 'patched:scan_number:ValueError:scan-none': "('returned', 'dict', [], {})",
 'patched:mission_name:KeyError:scene': '(\'raised\', (\'KeyError\', "\'boom\'", None, False))',
 'patched:mission_name:KeyError:product': "('returned', 'dict', ['observation_mode', "
                                          "'observation_direction', 'processing_level', "
                                          "'processing_option', 'map_projection', "
                                          "'orbit_direction'], {'observation_mode': 'ScanSAR "
                                          "nominal 28MHz mode dual polarization', "
                                          "'observation_direction': 'right looking', "
                                          "'processing_level': 'level 1.5', "
                                          "'processing_option': 'geo-reference', "
                                          "'map_projection': 'UTM', 'orbit_direction': "
                                          "'ascending'})",
 'patched:mission_name:KeyError:scan': "('returned', 'dict', ['processing_method', "
                                       "'scan_number'], {'processing_method': 'full "
                                       "aperture_method', 'scan_number': '3'})",
 'patched:mission_name:KeyError:scan-none': "('returned', 'dict', [], {})",
 'patched:scene_frame:KeyError:scene': '(\'raised\', (\'KeyError\', "\'boom\'", None, False))',
 'patched:scene_frame:KeyError:product': "('returned', 'dict', ['observation_mode', "
                                         "'observation_direction', 'processing_level', "
                                         "'processing_option', 'map_projection', "
                                         "'orbit_direction'], {'observation_mode': 'ScanSAR "
                                         "nominal 28MHz mode dual polarization', "
                                         "'observation_direction': 'right looking', "
                                         "'processing_level': 'level 1.5', "
                                         "'processing_option': 'geo-reference', "
                                         "'map_projection': 'UTM', 'orbit_direction': "
                                         "'ascending'})",
 'patched:scene_frame:KeyError:scan': "('returned', 'dict', ['processing_method', "
                                      "'scan_number'], {'processing_method': 'full "
                                      "aperture_method', 'scan_number': '3'})",
 'patched:scene_frame:KeyError:scan-none': "('returned', 'dict', [], {})",
 'patched:observation_direction:KeyError:scene': "('returned', 'dict', ['mission_name', "
                                                 "'orbit_accumulation', 'scene_frame', "
                                                 "'date'], {'mission_name': 'ALOS2', "
                                                 "'orbit_accumulation': '01441', "
                                                 "'scene_frame': '0740', 'date': "
                                                 'datetime.datetime(2014, 8, 29, 0, 0)})',
 'patched:observation_direction:KeyError:product': '(\'raised\', (\'KeyError\', "\'boom\'", '
                                                   'None, False))',
 'patched:observation_direction:KeyError:scan': "('returned', 'dict', ['processing_method', "
                                                "'scan_number'], {'processing_method': 'full "
                                                "aperture_method', 'scan_number': '3'})",
 'patched:observation_direction:KeyError:scan-none': "('returned', 'dict', [], {})",
 'patched:scan_number:KeyError:scene': "('returned', 'dict', ['mission_name', "
                                       "'orbit_accumulation', 'scene_frame', 'date'], "
                                       "{'mission_name': 'ALOS2', 'orbit_accumulation': "
                                       "'01441', 'scene_frame': '0740', 'date': "
                                       'datetime.datetime(2014, 8, 29, 0, 0)})',
 'patched:scan_number:KeyError:product': "('returned', 'dict', ['observation_mode', "
                                         "'observation_direction', 'processing_level', "
                                         "'processing_option', 'map_projection', "
                                         "'orbit_direction'], {'observation_mode': 'ScanSAR "
                                         "nominal 28MHz mode dual polarization', "
                                         "'observation_direction': 'right looking', "
                                         "'processing_level': 'level 1.5', "
                                         "'processing_option': 'geo-reference', "
                                         "'map_projection': 'UTM', 'orbit_direction': "
                                         "'ascending'})",
 'patched:scan_number:KeyError:scan': '(\'raised\', (\'KeyError\', "\'boom\'", None, False))',
 'patched:scan_number:KeyError:scan-none': "('returned', 'dict', [], {})",
 'patched:mission_name:TypeError:scene': "('raised', ('TypeError', 'boom', None, False))",
 'patched:mission_name:TypeError:product': "('returned', 'dict', ['observation_mode', "
                                           "'observation_direction', 'processing_level', "
                                           "'processing_option', 'map_projection', "
                                           "'orbit_direction'], {'observation_mode': 'ScanSAR "
                                           "nominal 28MHz mode dual polarization', "
                                           "'observation_direction': 'right looking', "
                                           "'processing_level': 'level 1.5', "
                                           "'processing_option': 'geo-reference', "
                                           "'map_projection': 'UTM', 'orbit_direction': "
                                           "'ascending'})",
 'patched:mission_name:TypeError:scan': "('returned', 'dict', ['processing_method', "
                                        "'scan_number'], {'processing_method': 'full "
                                        "aperture_method', 'scan_number': '3'})",
 'patched:mission_name:TypeError:scan-none': "('returned', 'dict', [], {})",
 'patched:scene_frame:TypeError:scene': "('raised', ('TypeError', 'boom', None, False))",
 'patched:scene_frame:TypeError:product': "('returned', 'dict', ['observation_mode', "
                                          "'observation_direction', 'processing_level', "
                                          "'processing_option', 'map_projection', "
                                          "'orbit_direction'], {'observation_mode': 'ScanSAR "
                                          "nominal 28MHz mode dual polarization', "
                                          "'observation_direction': 'right looking', "
                                          "'processing_level': 'level 1.5', "
                                          "'processing_option': 'geo-reference', "
                                          "'map_projection': 'UTM', 'orbit_direction': "
                                          "'ascending'})",
 'patched:scene_frame:TypeError:scan': "('returned', 'dict', ['processing_method', "
                                       "'scan_number'], {'processing_method': 'full "
                                       "aperture_method', 'scan_number': '3'})",
 'patched:scene_frame:TypeError:scan-none': "('returned', 'dict', [], {})",
 'patched:observation_direction:TypeError:scene': "('returned', 'dict', ['mission_name', "
                                                  "'orbit_accumulation', 'scene_frame', "
                                                  "'date'], {'mission_name': 'ALOS2', "
                                                  "'orbit_accumulation': '01441', "
                                                  "'scene_frame': '0740', 'date': "
                                                  'datetime.datetime(2014, 8, 29, 0, 0)})',
 'patched:observation_direction:TypeError:product': "('raised', ('TypeError', 'boom', None, "
                                                    'False))',
 'patched:observation_direction:TypeError:scan': "('returned', 'dict', ['processing_method', "
                                                 "'scan_number'], {'processing_method': 'full "
                                                 "aperture_method', 'scan_number': '3'})",
 'patched:observation_direction:TypeError:scan-none': "('returned', 'dict', [], {})",
 'patched:scan_number:TypeError:scene': "('returned', 'dict', ['mission_name', "
                                        "'orbit_accumulation', 'scene_frame', 'date'], "
                                        "{'mission_name': 'ALOS2', 'orbit_accumulation': "
                                        "'01441', 'scene_frame': '0740', 'date': "
                                        'datetime.datetime(2014, 8, 29, 0, 0)})',
 'patched:scan_number:TypeError:product': "('returned', 'dict', ['observation_mode', "
                                          "'observation_direction', 'processing_level', "
                                          "'processing_option', 'map_projection', "
                                          "'orbit_direction'], {'observation_mode': 'ScanSAR "
                                          "nominal 28MHz mode dual polarization', "
                                          "'observation_direction': 'right looking', "
                                          "'processing_level': 'level 1.5', "
                                          "'processing_option': 'geo-reference', "
                                          "'map_projection': 'UTM', 'orbit_direction': "
                                          "'ascending'})",
 'patched:scan_number:TypeError:scan': "('raised', ('TypeError', 'boom', None, False))",
 'patched:scan_number:TypeError:scan-none': "('returned', 'dict', [], {})",
 'patched:mission_name:UnicodeError:scene': "('raised', ('ValueError', 'invalid scene id: "
                                            "ALOS2014410740-140829', ('UnicodeError', 'boom', "
                                            'None, False), True))',
 'patched:mission_name:UnicodeError:product': "('returned', 'dict', ['observation_mode', "
                                              "'observation_direction', 'processing_level', "
                                              "'processing_option', 'map_projection', "
                                              "'orbit_direction'], {'observation_mode': "
                                              "'ScanSAR nominal 28MHz mode dual polarization', "
                                              "'observation_direction': 'right looking', "
                                              "'processing_level': 'level 1.5', "
                                              "'processing_option': 'geo-reference', "
                                              "'map_projection': 'UTM', 'orbit_direction': "
                                              "'ascending'})",
 'patched:mission_name:UnicodeError:scan': "('returned', 'dict', ['processing_method', "
                                           "'scan_number'], {'processing_method': 'full "
                                           "aperture_method', 'scan_number': '3'})",
 'patched:mission_name:UnicodeError:scan-none': "('returned', 'dict', [], {})",
 'patched:scene_frame:UnicodeError:scene': "('raised', ('ValueError', 'invalid scene id: "
                                           "ALOS2014410740-140829', ('UnicodeError', 'boom', "
                                           'None, False), True))',
 'patched:scene_frame:UnicodeError:product': "('returned', 'dict', ['observation_mode', "
                                             "'observation_direction', 'processing_level', "
                                             "'processing_option', 'map_projection', "
                                             "'orbit_direction'], {'observation_mode': "
                                             "'ScanSAR nominal 28MHz mode dual polarization', "
                                             "'observation_direction': 'right looking', "
                                             "'processing_level': 'level 1.5', "
                                             "'processing_option': 'geo-reference', "
                                             "'map_projection': 'UTM', 'orbit_direction': "
                                             "'ascending'})",
 'patched:scene_frame:UnicodeError:scan': "('returned', 'dict', ['processing_method', "
                                          "'scan_number'], {'processing_method': 'full "
                                          "aperture_method', 'scan_number': '3'})",
 'patched:scene_frame:UnicodeError:scan-none': "('returned', 'dict', [], {})",
 'patched:observation_direction:UnicodeError:scene': "('returned', 'dict', ['mission_name', "
                                                     "'orbit_accumulation', 'scene_frame', "
                                                     "'date'], {'mission_name': 'ALOS2', "
                                                     "'orbit_accumulation': '01441', "
                                                     "'scene_frame': '0740', 'date': "
                                                     'datetime.datetime(2014, 8, 29, 0, 0)})',
 'patched:observation_direction:UnicodeError:product': "('raised', ('ValueError', 'invalid "
                                                       "product id: WWDR1.5RUA', "
                                                       "('UnicodeError', 'boom', None, False), "
                                                       'True))',
 'patched:observation_direction:UnicodeError:scan': "('returned', 'dict', "
                                                    "['processing_method', 'scan_number'], "
                                                    "{'processing_method': 'full "
                                                    "aperture_method', 'scan_number': '3'})",
 'patched:observation_direction:UnicodeError:scan-none': "('returned', 'dict', [], {})",
 'patched:scan_number:UnicodeError:scene': "('returned', 'dict', ['mission_name', "
                                           "'orbit_accumulation', 'scene_frame', 'date'], "
                                           "{'mission_name': 'ALOS2', 'orbit_accumulation': "
                                           "'01441', 'scene_frame': '0740', 'date': "
                                           'datetime.datetime(2014, 8, 29, 0, 0)})',
 'patched:scan_number:UnicodeError:product': "('returned', 'dict', ['observation_mode', "
                                             "'observation_direction', 'processing_level', "
                                             "'processing_option', 'map_projection', "
                                             "'orbit_direction'], {'observation_mode': "
                                             "'ScanSAR nominal 28MHz mode dual polarization', "
                                             "'observation_direction': 'right looking', "
                                             "'processing_level': 'level 1.5', "
                                             "'processing_option': 'geo-reference', "
                                             "'map_projection': 'UTM', 'orbit_direction': "
                                             "'ascending'})",
 'patched:scan_number:UnicodeError:scan': "('raised', ('UnicodeError', 'boom', None, False))",
 'patched:scan_number:UnicodeError:scan-none': "('returned', 'dict', [], {})",
 'missing:date:scene': '(\'raised\', (\'KeyError\', "\'date\'", None, False))',
 'missing:date:product': "('returned', 'dict', ['observation_mode', 'observation_direction', "
                         "'processing_level', 'processing_option', 'map_projection', "
                         "'orbit_direction'], {'observation_mode': 'ScanSAR nominal 28MHz mode "
                         "dual polarization', 'observation_direction': 'right looking', "
                         "'processing_level': 'level 1.5', 'processing_option': "
                         "'geo-reference', 'map_projection': 'UTM', 'orbit_direction': "
                         "'ascending'})",
 'missing:date:scan': "('returned', 'dict', ['processing_method', 'scan_number'], "
                      "{'processing_method': 'full aperture_method', 'scan_number': '3'})",
 'missing:orbit_direction:scene': "('returned', 'dict', ['mission_name', 'orbit_accumulation', "
                                  "'scene_frame', 'date'], {'mission_name': 'ALOS2', "
                                  "'orbit_accumulation': '01441', 'scene_frame': '0740', "
                                  "'date': datetime.datetime(2014, 8, 29, 0, 0)})",
 'missing:orbit_direction:product': '(\'raised\', (\'KeyError\', "\'orbit_direction\'", None, '
                                    'False))',
 'missing:orbit_direction:scan': "('returned', 'dict', ['processing_method', 'scan_number'], "
                                 "{'processing_method': 'full aperture_method', 'scan_number': "
                                 "'3'})",
 'missing:processing_method:scene': "('returned', 'dict', ['mission_name', "
                                    "'orbit_accumulation', 'scene_frame', 'date'], "
                                    "{'mission_name': 'ALOS2', 'orbit_accumulation': '01441', "
                                    "'scene_frame': '0740', 'date': datetime.datetime(2014, 8, "
                                    '29, 0, 0)})',
 'missing:processing_method:product': "('returned', 'dict', ['observation_mode', "
                                      "'observation_direction', 'processing_level', "
                                      "'processing_option', 'map_projection', "
                                      "'orbit_direction'], {'observation_mode': 'ScanSAR "
                                      "nominal 28MHz mode dual polarization', "
                                      "'observation_direction': 'right looking', "
                                      "'processing_level': 'level 1.5', 'processing_option': "
                                      "'geo-reference', 'map_projection': 'UTM', "
                                      "'orbit_direction': 'ascending'})",
 'missing:processing_method:scan': '(\'raised\', (\'KeyError\', "\'processing_method\'", None, '
                                   'False))',
 'recorded:scene': "('returned', 'dict', ['mission_name', 'orbit_accumulation', 'scene_frame', "
                   "'date'], {'mission_name': 1, 'orbit_accumulation': 2, 'scene_frame': 3, "
                   "'date': 4})",
 'recorded:product': "('returned', 'dict', ['observation_mode', 'observation_direction', "
                     "'processing_level', 'processing_option', 'map_projection', "
                     "'orbit_direction'], {'observation_mode': 5, 'observation_direction': 6, "
                     "'processing_level': 7, 'processing_option': 8, 'map_projection': 9, "
                     "'orbit_direction': 10})",
 'recorded:scan': "('returned', 'dict', ['processing_method', 'scan_number'], "
                  "{'processing_method': 11, 'scan_number': 12})",
 'recorded:seen': "[('mission_name', 'ALOS2'), ('orbit_accumulation', '01441'), "
                  "('scene_frame', '0740'), ('date', '140829'), ('observation_mode', 'WWD'), "
                  "('observation_direction', 'R'), ('processing_level', '1.5'), "
                  "('processing_option', 'R'), ('map_projection', 'U'), ('orbit_direction', "
                  "'A'), ('processing_method', 'B'), ('scan_number', '7')]",
 'pattern:scene': "('returned', 'dict', ['mission_name'], {'mission_name': 'anything goes'})",
 'pattern:scene-empty': "('raised', ('ValueError', 'invalid scene id: ', None, False))",
 'pattern:product': "('returned', 'dict', ['orbit_direction'], {'orbit_direction': "
                    "'ascending'})",
 'pattern:product-bad': "('raised', ('ValueError', 'invalid product id: X', ('ValueError', "
                        '"invalid code \'X\'", None, False), True))',
 'pattern:product-long': "('raised', ('ValueError', 'invalid product id: AD', None, False))",
 'pattern:scan': "('returned', 'dict', ['scan_number'], {'scan_number': '123'})",
 'pattern:scan-bad': "('raised', ('ValueError', 'invalid scan info: B1', None, False))",
 'subclass:scene-ok': '("(\'returned\', \'dict\', [\'mission_name\', \'orbit_accumulation\', '
                      "'scene_frame', 'date'], {'mission_name': 'ALOS2', 'orbit_accumulation': "
                      "'01441', 'scene_frame': '0740', 'date': datetime.datetime(2014, 8, 29, "
                      '0, 0)})", 0)',
 'subclass:scene-mismatch': '("(\'raised\', (\'ValueError\', \'invalid scene id: '
                            '<ALOS2014410740>\', None, False))", 1)',
 'subclass:scene-date': '("(\'raised\', (\'ValueError\', \'invalid scene id: '
                        "<ALOS2014410740-140832>', ('ValueError', 'unconverted data remains: "
                        '2\', None, False), True))", 1)',
 'subclass:product-ok': '("(\'returned\', \'dict\', [\'observation_mode\', '
                        "'observation_direction', 'processing_level', 'processing_option', "
                        "'map_projection', 'orbit_direction'], {'observation_mode': 'ScanSAR "
                        "nominal 28MHz mode dual polarization', 'observation_direction': "
                        "'right looking', 'processing_level': 'level 1.5', "
                        "'processing_option': 'geo-reference', 'map_projection': 'UTM', "
                        '\'orbit_direction\': \'ascending\'})", 0)',
 'subclass:product-mismatch': '("(\'raised\', (\'ValueError\', \'invalid product id: '
                              '<WWDR1.5RUX>\', None, False))", 1)',
 'subclass:product-code': "('(\\'raised\\', (\\'ValueError\\', \\'invalid product id: "
                          '<XXXR1.5RUA>\\\', (\\\'ValueError\\\', "invalid code \\\'XXX\\\'", '
                          "None, False), True))', 1)",
 'subclass:scan-ok': '("(\'returned\', \'dict\', [\'processing_method\', \'scan_number\'], '
                     "{'processing_method': 'full aperture_method', 'scan_number': "
                     '\'1\'})", 0)',
 'subclass:scan-mismatch': '("(\'raised\', (\'ValueError\', \'invalid scan info: <F>\', None, '
                           'False))", 1)'}
# END EXPECTED


def test_outcomes():
    actual = run()
    assert list(actual) == list(EXPECTED)
    for key, value in actual.items():
        assert value == EXPECTED[key], (key, value, EXPECTED[key])


def test_fresh_results():
    check_fresh_results()


def test_module_surface():
    check_module_surface()


def test_translations_untouched():
    # running the checks must leave the module as it was
    before = dict(decoders.translations)
    run()
    assert decoders.translations == before


if __name__ == "__main__":
    if "--record" in sys.argv:
        print(repr(run()))
        sys.exit(0)

    test_outcomes()
    test_fresh_results()
    test_module_surface()
    test_translations_untouched()
    print(f"ok: {len(EXPECTED)} recorded outcomes reproduced")
