"""Equivalence check for refactoring 3 (``compute_selected_ranges`` / ``groupby_chunks``).

Run as a script (``python _eq/3/equiv.py``) or through pytest
(``python -m pytest -q -p no:cacheprovider _eq/3/equiv.py``).

``EXPECTED`` was recorded from the UNCHANGED code (HEAD) using
``python _eq/3/equiv.py --record``; the check must pass with and without the patch.
"""

import pprint
import sys
import warnings

import numpy as np

from ceos_alos2 import array


def canon(value):
    """convert to plain builtins that can be written as a literal

    Comparing the ``repr`` of the result is strict about types (``True`` vs ``1``,
    ``list`` vs ``tuple``, numpy scalar vs ``int``, order of dict keys).
    """
    if isinstance(value, BaseException):
        return ("raises", type(value).__name__, str(value))
    if isinstance(value, np.ndarray):
        return ("ndarray", value.dtype.str, value.shape, value.tolist())
    if isinstance(value, np.generic):
        return ("np." + type(value).__name__, canon(value.item()))
    if isinstance(value, float) and (value != value or value in (float("inf"), -float("inf"))):
        return ("float", repr(value))
    if isinstance(value, dict):
        return {canon(k): canon(v) for k, v in value.items()}
    if isinstance(value, list):
        return [canon(v) for v in value]
    if isinstance(value, tuple):
        return tuple(canon(v) for v in value)
    if isinstance(value, (bool, int, float, str, bytes, type(None))):
        return value
    return ("object", type(value).__name__, repr(value))


class Warned(tuple):
    """result and the warnings (category, message) emitted while computing it"""


def call(func, *args, **kwargs):
    with warnings.catch_warnings(record=True) as caught:
        warnings.simplefilter("always")
        try:
            result = func(*args, **kwargs)
        except Exception as e:
            result = e

    if not caught:
        return result
    return Warned((result, [(w.category.__name__, str(w.message)) for w in caught]))


class Index:
    """not an int, but usable as a list index"""

    def __init__(self, value):
        self.value = value

    def __index__(self):
        return self.value

    def __repr__(self):
        return f"Index({self.value})"


class Int(int):
    """int subclass: has to be treated like an int"""


class Sized:
    """has a length, but can be iterated over only once"""

    def __init__(self, items):
        self.items = iter(items)
        self.n = len(items)

    def __len__(self):
        return self.n

    def __iter__(self):
        return self.items


BYTE_RANGES = {
    "four": [(0, 3), (5, 8), (16, 19), (22, 25)],
    "seven": [(20, 60), (80, 120), (140, 180), (200, 240), (260, 300), (320, 360), (380, 420)],
    "one": [(7, 9)],
    "empty": [],
    "tuple": ((0, 3), (5, 8), (16, 19)),
    "lists": [[0, 3], [5, 8], [16, 19]],
    "strings": "abcd",
    "dict": {(0, 3): "a", (5, 8): "b"},
}

INDEXERS = [
    # scalars
    0, 2, 3, -1, -4, 4, -5, 100, True, False, Int(1), Int(-2),
    np.int64(1), np.uint8(2), Index(1), 1.0, 1.5, None, "a", "", b"\x01", 2j,
    # slices
    slice(None), slice(0, 1), slice(2, None), slice(None, 2), slice(-2, None), slice(None, -2),
    slice(None, None, 2), slice(None, None, 3), slice(1, None, 2), slice(-1, None, -1),
    slice(-1, None, -2), slice(3, 0, -1), slice(0, 0), slice(3, 1), slice(10, 20),
    slice(-100, 100), slice(None, None, -100), slice(np.int64(1), np.int64(3)),
    slice(Index(0), Index(2)), slice(None, None, 0), slice(0.5, 2), slice("a", None),
    # lists & co
    [], [0], [2], [0, 2], [0, -1], [3, 0], [1, 1, 1], [0, 1, 2, 3], [3, 2, 1, 0], [0, 4],
    [-5], [0, -5], [0, 1, 7], [True, False], [np.int64(1), np.int64(3)], [Index(2), 0],
    [0, 1.0], [1.0], ["a"], [None], [0, None], [[0, 1]], [[0], [1]], [slice(0, 2)],
    [slice(0, 2), 1], [slice(None), slice(1, None, 2)],
    (), (0,), (0, 2), (3, -1, 1), range(0), range(1, 3), range(3, -1, -1), range(2, 9),
    np.array([0, 2]), np.array([3]), np.array([], dtype=int), np.array([1.0]),
    np.array([True, False, True, False]), np.array(2), np.array([[0, 1], [2, 3]]),
    {0: "x", 2: "y"}, {1, }, "02", b"\x00\x02", frozenset([3]),
]


def numbered(rows, byte_ranges=None):
    if byte_ranges is None:
        byte_ranges = BYTE_RANGES["seven"] * 3
    return [(row, byte_ranges[row]) for row in rows]


GROUPBY_INPUTS = {
    "all": numbered(range(7)),
    "stepped": numbered(range(0, 7, 2)),
    "reversed": numbered(range(6, -1, -1)),
    "shuffled": numbered([4, 0, 5, 1, 6, 2, 3]),
    "duplicates": numbered([1, 1, 0, 1, 4, 0]),
    "sparse": numbered([0, 9, 20]),
    "single": numbered([3]),
    "empty": [],
    "negative rows": [(-1, (0, 1)), (-2, (1, 2)), (0, (2, 3)), (-3, (3, 4))],
    "numpy rows": [(np.int64(row), range_) for row, range_ in numbered(range(5))],
    "float rows": [(0.0, (0, 1)), (1.5, (1, 2)), (2.0, (2, 3)), (1, (3, 4))],
    "mixed keys": [(True, (0, 1)), (1, (1, 2)), (1.0, (2, 3)), (np.int64(1), (3, 4)), (0, (4, 5))],
    "list items": [[0, (0, 1)], [1, (1, 2)], [2, (2, 3)]],
    "tuple": tuple(numbered(range(5))),
    "payloads": [(0, None), (1, "ab"), (2, [1, 2, 3]), (3, {"a": 1})],
    "triples": [(0, (0, 1), "x"), (1, (1, 2), "y")],
    "late triple": [(0, (0, 1)), (1, (1, 2)), (2, (2, 3), "z"), (3, (3, 4))],
    "singles": [(0,), (1,)],
    "late single": [(0, (0, 1)), (1,), (2, (2, 3))],
    "strings": ["ab", "cd"],
    "two-char rows": [("a", 1), ("b", 2)],
    "scalars": [0, 1, 2],
    "late scalar": [(0, (0, 1)), 5, (2, (2, 3))],
    "late bad row": [(0, (0, 1)), (1, (1, 2), "extra"), (None, (2, 3))],
    "bad row then triple": [(0, (0, 1)), ("x", (1, 2)), (1, (1, 2), "extra")],
    "list rows": [([0], (0, 1))],
    "dict": {(0, (0, 1)): None, (1, (1, 2)): None, (2, (2, 3)): None},
    "none": None,
    "int": 3,
}

CHUNKSIZES = [
    1, 2, 3, 4, 7, 8, 1024, -1, -2, 0, True, 2.0, 2.5, 0.0, np.int64(2), np.int64(0),
    np.float64(3), float("inf"), None, "2", [2], (2,), 2j,
]


def observe():
    observed = []

    # compute_selected_ranges
    for name, byte_ranges in BYTE_RANGES.items():
        for indexer in INDEXERS if name in ("four", "empty") else INDEXERS[::4]:
            key = ("select", name, type(indexer).__name__, repr(indexer))
            result = call(array.compute_selected_ranges, byte_ranges, indexer)
            observed.append((key, canon(result)))

            if isinstance(result, list) and isinstance(byte_ranges, list):
                # the selected ranges are the very same objects
                assert all(
                    item[1] is byte_ranges[item[0]] for item in result if isinstance(item, tuple)
                )

    once_indexers = [slice(None), slice(1, None, 2), 1, -1, [2, 0], [], 5]
    for indexer in once_indexers:
        byte_ranges = Sized(BYTE_RANGES["four"])
        result = call(array.compute_selected_ranges, byte_ranges, indexer)
        observed.append((("select", "iterate-once", repr(indexer)), canon(result)))
    for indexer in once_indexers:
        result = call(array.compute_selected_ranges, iter(BYTE_RANGES["four"]), indexer)
        observed.append((("select", "iterator", repr(indexer)), canon(result)))
    for indexer in [iter([2, 0]), (row for row in (3, 1, 1)), iter([]), iter([9])]:
        result = call(array.compute_selected_ranges, BYTE_RANGES["four"], indexer)
        observed.append((("select", "lazy indexer", type(indexer).__name__), canon(result)))
    for kwargs in [
        {"byte_ranges": BYTE_RANGES["four"], "indexer": slice(1, 3)},
        {"indexer": [0], "byte_ranges": BYTE_RANGES["four"]},
        {"byte_ranges": BYTE_RANGES["four"]},
        {"byte_ranges": BYTE_RANGES["four"], "indexers": 0},
    ]:
        result = call(array.compute_selected_ranges, **kwargs)
        observed.append((("select", "keywords", repr(sorted(kwargs))), canon(result)))

    # groupby_chunks
    for name, items in GROUPBY_INPUTS.items():
        for chunksize in CHUNKSIZES if name in ("all", "shuffled", "late triple") else CHUNKSIZES[::3]:
            key = ("groupby", name, type(chunksize).__name__, repr(chunksize))
            result = call(array.groupby_chunks, items, chunksize)
            observed.append((key, canon(result)))

            if isinstance(result, dict):
                assert type(result) is dict
                assert all(type(group) is list for group in result.values())

    for chunksize in [1, 2, 3, 0]:
        result = call(array.groupby_chunks, iter(GROUPBY_INPUTS["shuffled"]), chunksize)
        observed.append((("groupby", "iterator", repr(chunksize)), canon(result)))
        result = call(array.groupby_chunks, (item for item in GROUPBY_INPUTS["late triple"]), chunksize)
        observed.append((("groupby", "generator, late triple", repr(chunksize)), canon(result)))
        result = call(array.groupby_chunks, byte_ranges=GROUPBY_INPUTS["all"], chunksize=chunksize)
        observed.append((("groupby", "keywords", repr(chunksize)), canon(result)))

    # how far is a lazy input consumed before an error shows up
    def lazy_items(items, log):
        for item in items:
            log.append(item[0] if isinstance(item, tuple) else item)
            yield item

    for name in ("late triple", "late single", "late scalar", "late bad row", "bad row then triple"):
        for chunksize in (2, 0):
            log = []
            result = call(array.groupby_chunks, lazy_items(GROUPBY_INPUTS[name], log), chunksize)
            observed.append((("groupby", "consumed", name, chunksize), canon((result, log))))

    # both together, the way `Array.__getitem__` combines them
    for indexer in [slice(None), slice(None, None, -1), slice(1, None, 3), 5, -7, [6, 0, 3, 3], []]:
        for chunksize in (1, 2, 3, 7, 1024):
            selected = call(array.compute_selected_ranges, BYTE_RANGES["seven"], indexer)
            result = call(array.groupby_chunks, selected, chunksize=chunksize)
            observed.append((("pipeline", repr(indexer), chunksize), canon(result)))

    return observed


# fmt: off
EXPECTED = [(('select', 'four', 'int', '0'), [(0, (0, 3))]), (('select', 'four', 'int', '2'), [(2, (16, 19))]),
 (('select', 'four', 'int', '3'), [(3, (22, 25))]), (('select', 'four', 'int', '-1'), [(3, (22, 25))]),
 (('select', 'four', 'int', '-4'), [(0, (0, 3))]), (('select', 'four', 'int', '4'), ('raises', 'IndexError', 'list index out of range')),
 (('select', 'four', 'int', '-5'), ('raises', 'IndexError', 'list index out of range')),
 (('select', 'four', 'int', '100'), ('raises', 'IndexError', 'list index out of range')), (('select', 'four', 'bool', 'True'), [(1, (5, 8))]),
 (('select', 'four', 'bool', 'False'), [(0, (0, 3))]), (('select', 'four', 'Int', '1'), [(1, (5, 8))]),
 (('select', 'four', 'Int', '-2'), [(2, (16, 19))]),
 (('select', 'four', 'int64', 'np.int64(1)'), ('raises', 'TypeError', "'numpy.int64' object is not iterable")),
 (('select', 'four', 'uint8', 'np.uint8(2)'), ('raises', 'TypeError', "'numpy.uint8' object is not iterable")),
 (('select', 'four', 'Index', 'Index(1)'), ('raises', 'TypeError', "'Index' object is not iterable")),
 (('select', 'four', 'float', '1.0'), ('raises', 'TypeError', "'float' object is not iterable")),
 (('select', 'four', 'float', '1.5'), ('raises', 'TypeError', "'float' object is not iterable")),
 (('select', 'four', 'NoneType', 'None'), ('raises', 'TypeError', "'NoneType' object is not iterable")),
 (('select', 'four', 'str', "'a'"), ('raises', 'TypeError', 'list indices must be integers or slices, not str')),
 (('select', 'four', 'str', "''"), []), (('select', 'four', 'bytes', "b'\\x01'"), [(1, (5, 8))]),
 (('select', 'four', 'complex', '2j'), ('raises', 'TypeError', "'complex' object is not iterable")),
 (('select', 'four', 'slice', 'slice(None, None, None)'), [(0, (0, 3)), (1, (5, 8)), (2, (16, 19)), (3, (22, 25))]),
 (('select', 'four', 'slice', 'slice(0, 1, None)'), [(0, (0, 3))]),
 (('select', 'four', 'slice', 'slice(2, None, None)'), [(2, (16, 19)), (3, (22, 25))]),
 (('select', 'four', 'slice', 'slice(None, 2, None)'), [(0, (0, 3)), (1, (5, 8))]),
 (('select', 'four', 'slice', 'slice(-2, None, None)'), [(2, (16, 19)), (3, (22, 25))]),
 (('select', 'four', 'slice', 'slice(None, -2, None)'), [(0, (0, 3)), (1, (5, 8))]),
 (('select', 'four', 'slice', 'slice(None, None, 2)'), [(0, (0, 3)), (2, (16, 19))]),
 (('select', 'four', 'slice', 'slice(None, None, 3)'), [(0, (0, 3)), (3, (22, 25))]),
 (('select', 'four', 'slice', 'slice(1, None, 2)'), [(1, (5, 8)), (3, (22, 25))]),
 (('select', 'four', 'slice', 'slice(-1, None, -1)'), [(3, (22, 25)), (2, (16, 19)), (1, (5, 8)), (0, (0, 3))]),
 (('select', 'four', 'slice', 'slice(-1, None, -2)'), [(3, (22, 25)), (1, (5, 8))]),
 (('select', 'four', 'slice', 'slice(3, 0, -1)'), [(3, (22, 25)), (2, (16, 19)), (1, (5, 8))]),
 (('select', 'four', 'slice', 'slice(0, 0, None)'), []), (('select', 'four', 'slice', 'slice(3, 1, None)'), []),
 (('select', 'four', 'slice', 'slice(10, 20, None)'), []),
 (('select', 'four', 'slice', 'slice(-100, 100, None)'), [(0, (0, 3)), (1, (5, 8)), (2, (16, 19)), (3, (22, 25))]),
 (('select', 'four', 'slice', 'slice(None, None, -100)'), [(3, (22, 25))]),
 (('select', 'four', 'slice', 'slice(np.int64(1), np.int64(3), None)'), [(1, (5, 8)), (2, (16, 19))]),
 (('select', 'four', 'slice', 'slice(Index(0), Index(2), None)'), [(0, (0, 3)), (1, (5, 8))]),
 (('select', 'four', 'slice', 'slice(None, None, 0)'), ('raises', 'ValueError', 'slice step cannot be zero')),
 (('select', 'four', 'slice', 'slice(0.5, 2, None)'), ('raises', 'TypeError', 'slice indices must be integers or None or have an __index__ method')),
 (('select', 'four', 'slice', "slice('a', None, None)"),
  ('raises', 'TypeError', 'slice indices must be integers or None or have an __index__ method')),
 (('select', 'four', 'list', '[]'), []), (('select', 'four', 'list', '[0]'), [(0, (0, 3))]), (('select', 'four', 'list', '[2]'), [(2, (16, 19))]),
 (('select', 'four', 'list', '[0, 2]'), [(0, (0, 3)), (2, (16, 19))]), (('select', 'four', 'list', '[0, -1]'), [(0, (0, 3)), (3, (22, 25))]),
 (('select', 'four', 'list', '[3, 0]'), [(3, (22, 25)), (0, (0, 3))]),
 (('select', 'four', 'list', '[1, 1, 1]'), [(1, (5, 8)), (1, (5, 8)), (1, (5, 8))]),
 (('select', 'four', 'list', '[0, 1, 2, 3]'), [(0, (0, 3)), (1, (5, 8)), (2, (16, 19)), (3, (22, 25))]),
 (('select', 'four', 'list', '[3, 2, 1, 0]'), [(3, (22, 25)), (2, (16, 19)), (1, (5, 8)), (0, (0, 3))]),
 (('select', 'four', 'list', '[0, 4]'), ('raises', 'IndexError', 'list index out of range')),
 (('select', 'four', 'list', '[-5]'), ('raises', 'IndexError', 'list index out of range')),
 (('select', 'four', 'list', '[0, -5]'), ('raises', 'IndexError', 'list index out of range')),
 (('select', 'four', 'list', '[0, 1, 7]'), ('raises', 'IndexError', 'list index out of range')),
 (('select', 'four', 'list', '[True, False]'), [(1, (5, 8)), (0, (0, 3))]),
 (('select', 'four', 'list', '[np.int64(1), np.int64(3)]'), [(1, (5, 8)), (3, (22, 25))]),
 (('select', 'four', 'list', '[Index(2), 0]'), [(2, (16, 19)), (0, (0, 3))]),
 (('select', 'four', 'list', '[0, 1.0]'), ('raises', 'TypeError', 'list indices must be integers or slices, not float')),
 (('select', 'four', 'list', '[1.0]'), ('raises', 'TypeError', 'list indices must be integers or slices, not float')),
 (('select', 'four', 'list', "['a']"), ('raises', 'TypeError', 'list indices must be integers or slices, not str')),
 (('select', 'four', 'list', '[None]'), ('raises', 'TypeError', 'list indices must be integers or slices, not NoneType')),
 (('select', 'four', 'list', '[0, None]'), ('raises', 'TypeError', 'list indices must be integers or slices, not NoneType')),
 (('select', 'four', 'list', '[[0, 1]]'), ('raises', 'TypeError', 'list indices must be integers or slices, not list')),
 (('select', 'four', 'list', '[[0], [1]]'), ('raises', 'TypeError', 'list indices must be integers or slices, not list')),
 (('select', 'four', 'list', '[slice(0, 2, None)]'), [[(0, (0, 3)), (1, (5, 8))]]),
 (('select', 'four', 'list', '[slice(0, 2, None), 1]'), [[(0, (0, 3)), (1, (5, 8))], (1, (5, 8))]),
 (('select', 'four', 'list', '[slice(None, None, None), slice(1, None, 2)]'),
  [[(0, (0, 3)), (1, (5, 8)), (2, (16, 19)), (3, (22, 25))], [(1, (5, 8)), (3, (22, 25))]]),
 (('select', 'four', 'tuple', '()'), []), (('select', 'four', 'tuple', '(0,)'), [(0, (0, 3))]),
 (('select', 'four', 'tuple', '(0, 2)'), [(0, (0, 3)), (2, (16, 19))]),
 (('select', 'four', 'tuple', '(3, -1, 1)'), [(3, (22, 25)), (3, (22, 25)), (1, (5, 8))]), (('select', 'four', 'range', 'range(0, 0)'), []),
 (('select', 'four', 'range', 'range(1, 3)'), [(1, (5, 8)), (2, (16, 19))]),
 (('select', 'four', 'range', 'range(3, -1, -1)'), [(3, (22, 25)), (2, (16, 19)), (1, (5, 8)), (0, (0, 3))]),
 (('select', 'four', 'range', 'range(2, 9)'), ('raises', 'IndexError', 'list index out of range')),
 (('select', 'four', 'ndarray', 'array([0, 2])'), [(0, (0, 3)), (2, (16, 19))]), (('select', 'four', 'ndarray', 'array([3])'), [(3, (22, 25))]),
 (('select', 'four', 'ndarray', 'array([], dtype=int64)'), []),
 (('select', 'four', 'ndarray', 'array([1.])'), ('raises', 'TypeError', 'list indices must be integers or slices, not numpy.float64')),
 (('select', 'four', 'ndarray', 'array([ True, False,  True, False])'),
  ('raises', 'TypeError', 'list indices must be integers or slices, not numpy.bool')),
 (('select', 'four', 'ndarray', 'array(2)'), ('raises', 'TypeError', 'iteration over a 0-d array')),
 (('select', 'four', 'ndarray', 'array([[0, 1],\n       [2, 3]])'),
  ('raises', 'TypeError', 'only integer scalar arrays can be converted to a scalar index')),
 (('select', 'four', 'dict', "{0: 'x', 2: 'y'}"), [(0, (0, 3)), (2, (16, 19))]), (('select', 'four', 'set', '{1}'), [(1, (5, 8))]),
 (('select', 'four', 'str', "'02'"), ('raises', 'TypeError', 'list indices must be integers or slices, not str')),
 (('select', 'four', 'bytes', "b'\\x00\\x02'"), [(0, (0, 3)), (2, (16, 19))]), (('select', 'four', 'frozenset', 'frozenset({3})'), [(3, (22, 25))]),
 (('select', 'seven', 'int', '0'), [(0, (20, 60))]), (('select', 'seven', 'int', '-4'), [(3, (200, 240))]),
 (('select', 'seven', 'bool', 'True'), [(1, (80, 120))]),
 (('select', 'seven', 'int64', 'np.int64(1)'), ('raises', 'TypeError', "'numpy.int64' object is not iterable")),
 (('select', 'seven', 'float', '1.5'), ('raises', 'TypeError', "'float' object is not iterable")),
 (('select', 'seven', 'bytes', "b'\\x01'"), [(1, (80, 120))]),
 (('select', 'seven', 'slice', 'slice(2, None, None)'), [(2, (140, 180)), (3, (200, 240)), (4, (260, 300)), (5, (320, 360)), (6, (380, 420))]),
 (('select', 'seven', 'slice', 'slice(None, None, 2)'), [(0, (20, 60)), (2, (140, 180)), (4, (260, 300)), (6, (380, 420))]),
 (('select', 'seven', 'slice', 'slice(-1, None, -2)'), [(6, (380, 420)), (4, (260, 300)), (2, (140, 180)), (0, (20, 60))]),
 (('select', 'seven', 'slice', 'slice(10, 20, None)'), []),
 (('select', 'seven', 'slice', 'slice(Index(0), Index(2), None)'), [(0, (20, 60)), (1, (80, 120))]), (('select', 'seven', 'list', '[]'), []),
 (('select', 'seven', 'list', '[0, -1]'), [(0, (20, 60)), (6, (380, 420))]),
 (('select', 'seven', 'list', '[3, 2, 1, 0]'), [(3, (200, 240)), (2, (140, 180)), (1, (80, 120)), (0, (20, 60))]),
 (('select', 'seven', 'list', '[0, 1, 7]'), ('raises', 'IndexError', 'list index out of range')),
 (('select', 'seven', 'list', '[0, 1.0]'), ('raises', 'TypeError', 'list indices must be integers or slices, not float')),
 (('select', 'seven', 'list', '[0, None]'), ('raises', 'TypeError', 'list indices must be integers or slices, not NoneType')),
 (('select', 'seven', 'list', '[slice(0, 2, None), 1]'), [[(0, (20, 60)), (1, (80, 120))], (1, (80, 120))]),
 (('select', 'seven', 'tuple', '(0, 2)'), [(0, (20, 60)), (2, (140, 180))]),
 (('select', 'seven', 'range', 'range(3, -1, -1)'), [(3, (200, 240)), (2, (140, 180)), (1, (80, 120)), (0, (20, 60))]),
 (('select', 'seven', 'ndarray', 'array([], dtype=int64)'), []),
 (('select', 'seven', 'ndarray', 'array([[0, 1],\n       [2, 3]])'),
  ('raises', 'TypeError', 'only integer scalar arrays can be converted to a scalar index')),
 (('select', 'seven', 'bytes', "b'\\x00\\x02'"), [(0, (20, 60)), (2, (140, 180))]), (('select', 'one', 'int', '0'), [(0, (7, 9))]),
 (('select', 'one', 'int', '-4'), ('raises', 'IndexError', 'list index out of range')),
 (('select', 'one', 'bool', 'True'), ('raises', 'IndexError', 'list index out of range')),
 (('select', 'one', 'int64', 'np.int64(1)'), ('raises', 'TypeError', "'numpy.int64' object is not iterable")),
 (('select', 'one', 'float', '1.5'), ('raises', 'TypeError', "'float' object is not iterable")),
 (('select', 'one', 'bytes', "b'\\x01'"), ('raises', 'IndexError', 'list index out of range')),
 (('select', 'one', 'slice', 'slice(2, None, None)'), []), (('select', 'one', 'slice', 'slice(None, None, 2)'), [(0, (7, 9))]),
 (('select', 'one', 'slice', 'slice(-1, None, -2)'), [(0, (7, 9))]), (('select', 'one', 'slice', 'slice(10, 20, None)'), []),
 (('select', 'one', 'slice', 'slice(Index(0), Index(2), None)'), [(0, (7, 9))]), (('select', 'one', 'list', '[]'), []),
 (('select', 'one', 'list', '[0, -1]'), [(0, (7, 9)), (0, (7, 9))]),
 (('select', 'one', 'list', '[3, 2, 1, 0]'), ('raises', 'IndexError', 'list index out of range')),
 (('select', 'one', 'list', '[0, 1, 7]'), ('raises', 'IndexError', 'list index out of range')),
 (('select', 'one', 'list', '[0, 1.0]'), ('raises', 'TypeError', 'list indices must be integers or slices, not float')),
 (('select', 'one', 'list', '[0, None]'), ('raises', 'TypeError', 'list indices must be integers or slices, not NoneType')),
 (('select', 'one', 'list', '[slice(0, 2, None), 1]'), ('raises', 'IndexError', 'list index out of range')),
 (('select', 'one', 'tuple', '(0, 2)'), ('raises', 'IndexError', 'list index out of range')),
 (('select', 'one', 'range', 'range(3, -1, -1)'), ('raises', 'IndexError', 'list index out of range')),
 (('select', 'one', 'ndarray', 'array([], dtype=int64)'), []),
 (('select', 'one', 'ndarray', 'array([[0, 1],\n       [2, 3]])'),
  ('raises', 'TypeError', 'only integer scalar arrays can be converted to a scalar index')),
 (('select', 'one', 'bytes', "b'\\x00\\x02'"), ('raises', 'IndexError', 'list index out of range')),
 (('select', 'empty', 'int', '0'), ('raises', 'IndexError', 'list index out of range')),
 (('select', 'empty', 'int', '2'), ('raises', 'IndexError', 'list index out of range')),
 (('select', 'empty', 'int', '3'), ('raises', 'IndexError', 'list index out of range')),
 (('select', 'empty', 'int', '-1'), ('raises', 'IndexError', 'list index out of range')),
 (('select', 'empty', 'int', '-4'), ('raises', 'IndexError', 'list index out of range')),
 (('select', 'empty', 'int', '4'), ('raises', 'IndexError', 'list index out of range')),
 (('select', 'empty', 'int', '-5'), ('raises', 'IndexError', 'list index out of range')),
 (('select', 'empty', 'int', '100'), ('raises', 'IndexError', 'list index out of range')),
 (('select', 'empty', 'bool', 'True'), ('raises', 'IndexError', 'list index out of range')),
 (('select', 'empty', 'bool', 'False'), ('raises', 'IndexError', 'list index out of range')),
 (('select', 'empty', 'Int', '1'), ('raises', 'IndexError', 'list index out of range')),
 (('select', 'empty', 'Int', '-2'), ('raises', 'IndexError', 'list index out of range')),
 (('select', 'empty', 'int64', 'np.int64(1)'), ('raises', 'TypeError', "'numpy.int64' object is not iterable")),
 (('select', 'empty', 'uint8', 'np.uint8(2)'), ('raises', 'TypeError', "'numpy.uint8' object is not iterable")),
 (('select', 'empty', 'Index', 'Index(1)'), ('raises', 'TypeError', "'Index' object is not iterable")),
 (('select', 'empty', 'float', '1.0'), ('raises', 'TypeError', "'float' object is not iterable")),
 (('select', 'empty', 'float', '1.5'), ('raises', 'TypeError', "'float' object is not iterable")),
 (('select', 'empty', 'NoneType', 'None'), ('raises', 'TypeError', "'NoneType' object is not iterable")),
 (('select', 'empty', 'str', "'a'"), ('raises', 'TypeError', 'list indices must be integers or slices, not str')),
 (('select', 'empty', 'str', "''"), []), (('select', 'empty', 'bytes', "b'\\x01'"), ('raises', 'IndexError', 'list index out of range')),
 (('select', 'empty', 'complex', '2j'), ('raises', 'TypeError', "'complex' object is not iterable")),
 (('select', 'empty', 'slice', 'slice(None, None, None)'), []), (('select', 'empty', 'slice', 'slice(0, 1, None)'), []),
 (('select', 'empty', 'slice', 'slice(2, None, None)'), []), (('select', 'empty', 'slice', 'slice(None, 2, None)'), []),
 (('select', 'empty', 'slice', 'slice(-2, None, None)'), []), (('select', 'empty', 'slice', 'slice(None, -2, None)'), []),
 (('select', 'empty', 'slice', 'slice(None, None, 2)'), []), (('select', 'empty', 'slice', 'slice(None, None, 3)'), []),
 (('select', 'empty', 'slice', 'slice(1, None, 2)'), []), (('select', 'empty', 'slice', 'slice(-1, None, -1)'), []),
 (('select', 'empty', 'slice', 'slice(-1, None, -2)'), []), (('select', 'empty', 'slice', 'slice(3, 0, -1)'), []),
 (('select', 'empty', 'slice', 'slice(0, 0, None)'), []), (('select', 'empty', 'slice', 'slice(3, 1, None)'), []),
 (('select', 'empty', 'slice', 'slice(10, 20, None)'), []), (('select', 'empty', 'slice', 'slice(-100, 100, None)'), []),
 (('select', 'empty', 'slice', 'slice(None, None, -100)'), []), (('select', 'empty', 'slice', 'slice(np.int64(1), np.int64(3), None)'), []),
 (('select', 'empty', 'slice', 'slice(Index(0), Index(2), None)'), []),
 (('select', 'empty', 'slice', 'slice(None, None, 0)'), ('raises', 'ValueError', 'slice step cannot be zero')),
 (('select', 'empty', 'slice', 'slice(0.5, 2, None)'), ('raises', 'TypeError', 'slice indices must be integers or None or have an __index__ method')),
 (('select', 'empty', 'slice', "slice('a', None, None)"),
  ('raises', 'TypeError', 'slice indices must be integers or None or have an __index__ method')),
 (('select', 'empty', 'list', '[]'), []), (('select', 'empty', 'list', '[0]'), ('raises', 'IndexError', 'list index out of range')),
 (('select', 'empty', 'list', '[2]'), ('raises', 'IndexError', 'list index out of range')),
 (('select', 'empty', 'list', '[0, 2]'), ('raises', 'IndexError', 'list index out of range')),
 (('select', 'empty', 'list', '[0, -1]'), ('raises', 'IndexError', 'list index out of range')),
 (('select', 'empty', 'list', '[3, 0]'), ('raises', 'IndexError', 'list index out of range')),
 (('select', 'empty', 'list', '[1, 1, 1]'), ('raises', 'IndexError', 'list index out of range')),
 (('select', 'empty', 'list', '[0, 1, 2, 3]'), ('raises', 'IndexError', 'list index out of range')),
 (('select', 'empty', 'list', '[3, 2, 1, 0]'), ('raises', 'IndexError', 'list index out of range')),
 (('select', 'empty', 'list', '[0, 4]'), ('raises', 'IndexError', 'list index out of range')),
 (('select', 'empty', 'list', '[-5]'), ('raises', 'IndexError', 'list index out of range')),
 (('select', 'empty', 'list', '[0, -5]'), ('raises', 'IndexError', 'list index out of range')),
 (('select', 'empty', 'list', '[0, 1, 7]'), ('raises', 'IndexError', 'list index out of range')),
 (('select', 'empty', 'list', '[True, False]'), ('raises', 'IndexError', 'list index out of range')),
 (('select', 'empty', 'list', '[np.int64(1), np.int64(3)]'), ('raises', 'IndexError', 'list index out of range')),
 (('select', 'empty', 'list', '[Index(2), 0]'), ('raises', 'IndexError', 'list index out of range')),
 (('select', 'empty', 'list', '[0, 1.0]'), ('raises', 'IndexError', 'list index out of range')),
 (('select', 'empty', 'list', '[1.0]'), ('raises', 'TypeError', 'list indices must be integers or slices, not float')),
 (('select', 'empty', 'list', "['a']"), ('raises', 'TypeError', 'list indices must be integers or slices, not str')),
 (('select', 'empty', 'list', '[None]'), ('raises', 'TypeError', 'list indices must be integers or slices, not NoneType')),
 (('select', 'empty', 'list', '[0, None]'), ('raises', 'IndexError', 'list index out of range')),
 (('select', 'empty', 'list', '[[0, 1]]'), ('raises', 'TypeError', 'list indices must be integers or slices, not list')),
 (('select', 'empty', 'list', '[[0], [1]]'), ('raises', 'TypeError', 'list indices must be integers or slices, not list')),
 (('select', 'empty', 'list', '[slice(0, 2, None)]'), [[]]),
 (('select', 'empty', 'list', '[slice(0, 2, None), 1]'), ('raises', 'IndexError', 'list index out of range')),
 (('select', 'empty', 'list', '[slice(None, None, None), slice(1, None, 2)]'), [[], []]), (('select', 'empty', 'tuple', '()'), []),
 (('select', 'empty', 'tuple', '(0,)'), ('raises', 'IndexError', 'list index out of range')),
 (('select', 'empty', 'tuple', '(0, 2)'), ('raises', 'IndexError', 'list index out of range')),
 (('select', 'empty', 'tuple', '(3, -1, 1)'), ('raises', 'IndexError', 'list index out of range')), (('select', 'empty', 'range', 'range(0, 0)'), []),
 (('select', 'empty', 'range', 'range(1, 3)'), ('raises', 'IndexError', 'list index out of range')),
 (('select', 'empty', 'range', 'range(3, -1, -1)'), ('raises', 'IndexError', 'list index out of range')),
 (('select', 'empty', 'range', 'range(2, 9)'), ('raises', 'IndexError', 'list index out of range')),
 (('select', 'empty', 'ndarray', 'array([0, 2])'), ('raises', 'IndexError', 'list index out of range')),
 (('select', 'empty', 'ndarray', 'array([3])'), ('raises', 'IndexError', 'list index out of range')),
 (('select', 'empty', 'ndarray', 'array([], dtype=int64)'), []),
 (('select', 'empty', 'ndarray', 'array([1.])'), ('raises', 'TypeError', 'list indices must be integers or slices, not numpy.float64')),
 (('select', 'empty', 'ndarray', 'array([ True, False,  True, False])'),
  ('raises', 'TypeError', 'list indices must be integers or slices, not numpy.bool')),
 (('select', 'empty', 'ndarray', 'array(2)'), ('raises', 'TypeError', 'iteration over a 0-d array')),
 (('select', 'empty', 'ndarray', 'array([[0, 1],\n       [2, 3]])'),
  ('raises', 'TypeError', 'only integer scalar arrays can be converted to a scalar index')),
 (('select', 'empty', 'dict', "{0: 'x', 2: 'y'}"), ('raises', 'IndexError', 'list index out of range')),
 (('select', 'empty', 'set', '{1}'), ('raises', 'IndexError', 'list index out of range')),
 (('select', 'empty', 'str', "'02'"), ('raises', 'TypeError', 'list indices must be integers or slices, not str')),
 (('select', 'empty', 'bytes', "b'\\x00\\x02'"), ('raises', 'IndexError', 'list index out of range')),
 (('select', 'empty', 'frozenset', 'frozenset({3})'), ('raises', 'IndexError', 'list index out of range')),
 (('select', 'tuple', 'int', '0'), [(0, (0, 3))]), (('select', 'tuple', 'int', '-4'), ('raises', 'IndexError', 'list index out of range')),
 (('select', 'tuple', 'bool', 'True'), [(1, (5, 8))]),
 (('select', 'tuple', 'int64', 'np.int64(1)'), ('raises', 'TypeError', "'numpy.int64' object is not iterable")),
 (('select', 'tuple', 'float', '1.5'), ('raises', 'TypeError', "'float' object is not iterable")),
 (('select', 'tuple', 'bytes', "b'\\x01'"), [(1, (5, 8))]), (('select', 'tuple', 'slice', 'slice(2, None, None)'), [(2, (16, 19))]),
 (('select', 'tuple', 'slice', 'slice(None, None, 2)'), [(0, (0, 3)), (2, (16, 19))]),
 (('select', 'tuple', 'slice', 'slice(-1, None, -2)'), [(2, (16, 19)), (0, (0, 3))]), (('select', 'tuple', 'slice', 'slice(10, 20, None)'), []),
 (('select', 'tuple', 'slice', 'slice(Index(0), Index(2), None)'), [(0, (0, 3)), (1, (5, 8))]), (('select', 'tuple', 'list', '[]'), []),
 (('select', 'tuple', 'list', '[0, -1]'), [(0, (0, 3)), (2, (16, 19))]),
 (('select', 'tuple', 'list', '[3, 2, 1, 0]'), ('raises', 'IndexError', 'list index out of range')),
 (('select', 'tuple', 'list', '[0, 1, 7]'), ('raises', 'IndexError', 'list index out of range')),
 (('select', 'tuple', 'list', '[0, 1.0]'), ('raises', 'TypeError', 'list indices must be integers or slices, not float')),
 (('select', 'tuple', 'list', '[0, None]'), ('raises', 'TypeError', 'list indices must be integers or slices, not NoneType')),
 (('select', 'tuple', 'list', '[slice(0, 2, None), 1]'), [[(0, (0, 3)), (1, (5, 8))], (1, (5, 8))]),
 (('select', 'tuple', 'tuple', '(0, 2)'), [(0, (0, 3)), (2, (16, 19))]),
 (('select', 'tuple', 'range', 'range(3, -1, -1)'), ('raises', 'IndexError', 'list index out of range')),
 (('select', 'tuple', 'ndarray', 'array([], dtype=int64)'), []),
 (('select', 'tuple', 'ndarray', 'array([[0, 1],\n       [2, 3]])'),
  ('raises', 'TypeError', 'only integer scalar arrays can be converted to a scalar index')),
 (('select', 'tuple', 'bytes', "b'\\x00\\x02'"), [(0, (0, 3)), (2, (16, 19))]), (('select', 'lists', 'int', '0'), [(0, [0, 3])]),
 (('select', 'lists', 'int', '-4'), ('raises', 'IndexError', 'list index out of range')), (('select', 'lists', 'bool', 'True'), [(1, [5, 8])]),
 (('select', 'lists', 'int64', 'np.int64(1)'), ('raises', 'TypeError', "'numpy.int64' object is not iterable")),
 (('select', 'lists', 'float', '1.5'), ('raises', 'TypeError', "'float' object is not iterable")),
 (('select', 'lists', 'bytes', "b'\\x01'"), [(1, [5, 8])]), (('select', 'lists', 'slice', 'slice(2, None, None)'), [(2, [16, 19])]),
 (('select', 'lists', 'slice', 'slice(None, None, 2)'), [(0, [0, 3]), (2, [16, 19])]),
 (('select', 'lists', 'slice', 'slice(-1, None, -2)'), [(2, [16, 19]), (0, [0, 3])]), (('select', 'lists', 'slice', 'slice(10, 20, None)'), []),
 (('select', 'lists', 'slice', 'slice(Index(0), Index(2), None)'), [(0, [0, 3]), (1, [5, 8])]), (('select', 'lists', 'list', '[]'), []),
 (('select', 'lists', 'list', '[0, -1]'), [(0, [0, 3]), (2, [16, 19])]),
 (('select', 'lists', 'list', '[3, 2, 1, 0]'), ('raises', 'IndexError', 'list index out of range')),
 (('select', 'lists', 'list', '[0, 1, 7]'), ('raises', 'IndexError', 'list index out of range')),
 (('select', 'lists', 'list', '[0, 1.0]'), ('raises', 'TypeError', 'list indices must be integers or slices, not float')),
 (('select', 'lists', 'list', '[0, None]'), ('raises', 'TypeError', 'list indices must be integers or slices, not NoneType')),
 (('select', 'lists', 'list', '[slice(0, 2, None), 1]'), [[(0, [0, 3]), (1, [5, 8])], (1, [5, 8])]),
 (('select', 'lists', 'tuple', '(0, 2)'), [(0, [0, 3]), (2, [16, 19])]),
 (('select', 'lists', 'range', 'range(3, -1, -1)'), ('raises', 'IndexError', 'list index out of range')),
 (('select', 'lists', 'ndarray', 'array([], dtype=int64)'), []),
 (('select', 'lists', 'ndarray', 'array([[0, 1],\n       [2, 3]])'),
  ('raises', 'TypeError', 'only integer scalar arrays can be converted to a scalar index')),
 (('select', 'lists', 'bytes', "b'\\x00\\x02'"), [(0, [0, 3]), (2, [16, 19])]), (('select', 'strings', 'int', '0'), [(0, 'a')]),
 (('select', 'strings', 'int', '-4'), [(0, 'a')]), (('select', 'strings', 'bool', 'True'), [(1, 'b')]),
 (('select', 'strings', 'int64', 'np.int64(1)'), ('raises', 'TypeError', "'numpy.int64' object is not iterable")),
 (('select', 'strings', 'float', '1.5'), ('raises', 'TypeError', "'float' object is not iterable")),
 (('select', 'strings', 'bytes', "b'\\x01'"), [(1, 'b')]), (('select', 'strings', 'slice', 'slice(2, None, None)'), [(2, 'c'), (3, 'd')]),
 (('select', 'strings', 'slice', 'slice(None, None, 2)'), [(0, 'a'), (2, 'c')]),
 (('select', 'strings', 'slice', 'slice(-1, None, -2)'), [(3, 'd'), (1, 'b')]), (('select', 'strings', 'slice', 'slice(10, 20, None)'), []),
 (('select', 'strings', 'slice', 'slice(Index(0), Index(2), None)'), [(0, 'a'), (1, 'b')]), (('select', 'strings', 'list', '[]'), []),
 (('select', 'strings', 'list', '[0, -1]'), [(0, 'a'), (3, 'd')]),
 (('select', 'strings', 'list', '[3, 2, 1, 0]'), [(3, 'd'), (2, 'c'), (1, 'b'), (0, 'a')]),
 (('select', 'strings', 'list', '[0, 1, 7]'), ('raises', 'IndexError', 'list index out of range')),
 (('select', 'strings', 'list', '[0, 1.0]'), ('raises', 'TypeError', 'list indices must be integers or slices, not float')),
 (('select', 'strings', 'list', '[0, None]'), ('raises', 'TypeError', 'list indices must be integers or slices, not NoneType')),
 (('select', 'strings', 'list', '[slice(0, 2, None), 1]'), [[(0, 'a'), (1, 'b')], (1, 'b')]),
 (('select', 'strings', 'tuple', '(0, 2)'), [(0, 'a'), (2, 'c')]),
 (('select', 'strings', 'range', 'range(3, -1, -1)'), [(3, 'd'), (2, 'c'), (1, 'b'), (0, 'a')]),
 (('select', 'strings', 'ndarray', 'array([], dtype=int64)'), []),
 (('select', 'strings', 'ndarray', 'array([[0, 1],\n       [2, 3]])'),
  ('raises', 'TypeError', 'only integer scalar arrays can be converted to a scalar index')),
 (('select', 'strings', 'bytes', "b'\\x00\\x02'"), [(0, 'a'), (2, 'c')]), (('select', 'dict', 'int', '0'), [(0, (0, 3))]),
 (('select', 'dict', 'int', '-4'), ('raises', 'IndexError', 'list index out of range')), (('select', 'dict', 'bool', 'True'), [(1, (5, 8))]),
 (('select', 'dict', 'int64', 'np.int64(1)'), ('raises', 'TypeError', "'numpy.int64' object is not iterable")),
 (('select', 'dict', 'float', '1.5'), ('raises', 'TypeError', "'float' object is not iterable")),
 (('select', 'dict', 'bytes', "b'\\x01'"), [(1, (5, 8))]), (('select', 'dict', 'slice', 'slice(2, None, None)'), []),
 (('select', 'dict', 'slice', 'slice(None, None, 2)'), [(0, (0, 3))]), (('select', 'dict', 'slice', 'slice(-1, None, -2)'), [(1, (5, 8))]),
 (('select', 'dict', 'slice', 'slice(10, 20, None)'), []),
 (('select', 'dict', 'slice', 'slice(Index(0), Index(2), None)'), [(0, (0, 3)), (1, (5, 8))]), (('select', 'dict', 'list', '[]'), []),
 (('select', 'dict', 'list', '[0, -1]'), [(0, (0, 3)), (1, (5, 8))]),
 (('select', 'dict', 'list', '[3, 2, 1, 0]'), ('raises', 'IndexError', 'list index out of range')),
 (('select', 'dict', 'list', '[0, 1, 7]'), ('raises', 'IndexError', 'list index out of range')),
 (('select', 'dict', 'list', '[0, 1.0]'), ('raises', 'TypeError', 'list indices must be integers or slices, not float')),
 (('select', 'dict', 'list', '[0, None]'), ('raises', 'TypeError', 'list indices must be integers or slices, not NoneType')),
 (('select', 'dict', 'list', '[slice(0, 2, None), 1]'), [[(0, (0, 3)), (1, (5, 8))], (1, (5, 8))]),
 (('select', 'dict', 'tuple', '(0, 2)'), ('raises', 'IndexError', 'list index out of range')),
 (('select', 'dict', 'range', 'range(3, -1, -1)'), ('raises', 'IndexError', 'list index out of range')),
 (('select', 'dict', 'ndarray', 'array([], dtype=int64)'), []),
 (('select', 'dict', 'ndarray', 'array([[0, 1],\n       [2, 3]])'),
  ('raises', 'TypeError', 'only integer scalar arrays can be converted to a scalar index')),
 (('select', 'dict', 'bytes', "b'\\x00\\x02'"), ('raises', 'IndexError', 'list index out of range')),
 (('select', 'iterate-once', 'slice(None, None, None)'), [(0, (0, 3)), (1, (5, 8)), (2, (16, 19)), (3, (22, 25))]),
 (('select', 'iterate-once', 'slice(1, None, 2)'), [(1, (5, 8)), (3, (22, 25))]), (('select', 'iterate-once', '1'), [(1, (5, 8))]),
 (('select', 'iterate-once', '-1'), [(3, (22, 25))]), (('select', 'iterate-once', '[2, 0]'), [(2, (16, 19)), (0, (0, 3))]),
 (('select', 'iterate-once', '[]'), []), (('select', 'iterate-once', '5'), ('raises', 'IndexError', 'list index out of range')),
 (('select', 'iterator', 'slice(None, None, None)'), ('raises', 'TypeError', "object of type 'list_iterator' has no len()")),
 (('select', 'iterator', 'slice(1, None, 2)'), ('raises', 'TypeError', "object of type 'list_iterator' has no len()")),
 (('select', 'iterator', '1'), ('raises', 'TypeError', "object of type 'list_iterator' has no len()")),
 (('select', 'iterator', '-1'), ('raises', 'TypeError', "object of type 'list_iterator' has no len()")),
 (('select', 'iterator', '[2, 0]'), ('raises', 'TypeError', "object of type 'list_iterator' has no len()")),
 (('select', 'iterator', '[]'), ('raises', 'TypeError', "object of type 'list_iterator' has no len()")),
 (('select', 'iterator', '5'), ('raises', 'TypeError', "object of type 'list_iterator' has no len()")),
 (('select', 'lazy indexer', 'list_iterator'), [(2, (16, 19)), (0, (0, 3))]),
 (('select', 'lazy indexer', 'generator'), [(3, (22, 25)), (1, (5, 8)), (1, (5, 8))]), (('select', 'lazy indexer', 'list_iterator'), []),
 (('select', 'lazy indexer', 'list_iterator'), ('raises', 'IndexError', 'list index out of range')),
 (('select', 'keywords', "['byte_ranges', 'indexer']"), [(1, (5, 8)), (2, (16, 19))]),
 (('select', 'keywords', "['byte_ranges', 'indexer']"), [(0, (0, 3))]),
 (('select', 'keywords', "['byte_ranges']"), ('raises', 'TypeError', "compute_selected_ranges() missing 1 required positional argument: 'indexer'")),
 (('select', 'keywords', "['byte_ranges', 'indexers']"),
  ('raises', 'TypeError', "compute_selected_ranges() got an unexpected keyword argument 'indexers'")),
 (('groupby', 'all', 'int', '1'),
  {0: [(20, 60)], 1: [(80, 120)], 2: [(140, 180)], 3: [(200, 240)], 4: [(260, 300)], 5: [(320, 360)], 6: [(380, 420)]}),
 (('groupby', 'all', 'int', '2'), {0: [(20, 60), (80, 120)], 1: [(140, 180), (200, 240)], 2: [(260, 300), (320, 360)], 3: [(380, 420)]}),
 (('groupby', 'all', 'int', '3'), {0: [(20, 60), (80, 120), (140, 180)], 1: [(200, 240), (260, 300), (320, 360)], 2: [(380, 420)]}),
 (('groupby', 'all', 'int', '4'), {0: [(20, 60), (80, 120), (140, 180), (200, 240)], 1: [(260, 300), (320, 360), (380, 420)]}),
 (('groupby', 'all', 'int', '7'), {0: [(20, 60), (80, 120), (140, 180), (200, 240), (260, 300), (320, 360), (380, 420)]}),
 (('groupby', 'all', 'int', '8'), {0: [(20, 60), (80, 120), (140, 180), (200, 240), (260, 300), (320, 360), (380, 420)]}),
 (('groupby', 'all', 'int', '1024'), {0: [(20, 60), (80, 120), (140, 180), (200, 240), (260, 300), (320, 360), (380, 420)]}),
 (('groupby', 'all', 'int', '-1'),
  {0: [(20, 60)], -1: [(80, 120)], -2: [(140, 180)], -3: [(200, 240)], -4: [(260, 300)], -5: [(320, 360)], -6: [(380, 420)]}),
 (('groupby', 'all', 'int', '-2'), {0: [(20, 60)], -1: [(80, 120), (140, 180)], -2: [(200, 240), (260, 300)], -3: [(320, 360), (380, 420)]}),
 (('groupby', 'all', 'int', '0'), ('raises', 'ZeroDivisionError', 'integer division or modulo by zero')),
 (('groupby', 'all', 'bool', 'True'),
  {0: [(20, 60)], 1: [(80, 120)], 2: [(140, 180)], 3: [(200, 240)], 4: [(260, 300)], 5: [(320, 360)], 6: [(380, 420)]}),
 (('groupby', 'all', 'float', '2.0'), {0.0: [(20, 60), (80, 120)], 1.0: [(140, 180), (200, 240)], 2.0: [(260, 300), (320, 360)], 3.0: [(380, 420)]}),
 (('groupby', 'all', 'float', '2.5'), {0.0: [(20, 60), (80, 120), (140, 180)], 1.0: [(200, 240), (260, 300)], 2.0: [(320, 360), (380, 420)]}),
 (('groupby', 'all', 'float', '0.0'), ('raises', 'ZeroDivisionError', 'float floor division by zero')),
 (('groupby', 'all', 'int64', 'np.int64(2)'),
  {('np.int64', 0): [(20, 60), (80, 120)],
   ('np.int64', 1): [(140, 180), (200, 240)],
   ('np.int64', 2): [(260, 300), (320, 360)],
   ('np.int64', 3): [(380, 420)]}),
 (('groupby', 'all', 'int64', 'np.int64(0)'),
  ({('np.int64', 0): [(20, 60), (80, 120), (140, 180), (200, 240), (260, 300), (320, 360), (380, 420)]},
   [('RuntimeWarning', 'divide by zero encountered in scalar floor_divide'), ('RuntimeWarning', 'divide by zero encountered in scalar floor_divide'),
    ('RuntimeWarning', 'divide by zero encountered in scalar floor_divide'), ('RuntimeWarning', 'divide by zero encountered in scalar floor_divide'),
    ('RuntimeWarning', 'divide by zero encountered in scalar floor_divide'), ('RuntimeWarning', 'divide by zero encountered in scalar floor_divide'),
    ('RuntimeWarning', 'divide by zero encountered in scalar floor_divide')])),
 (('groupby', 'all', 'float64', 'np.float64(3.0)'),
  {('np.float64', 0.0): [(20, 60), (80, 120), (140, 180)],
   ('np.float64', 1.0): [(200, 240), (260, 300), (320, 360)],
   ('np.float64', 2.0): [(380, 420)]}),
 (('groupby', 'all', 'float', 'inf'), {0.0: [(20, 60), (80, 120), (140, 180), (200, 240), (260, 300), (320, 360), (380, 420)]}),
 (('groupby', 'all', 'NoneType', 'None'), ('raises', 'TypeError', "unsupported operand type(s) for //: 'int' and 'NoneType'")),
 (('groupby', 'all', 'str', "'2'"), ('raises', 'TypeError', "unsupported operand type(s) for //: 'int' and 'str'")),
 (('groupby', 'all', 'list', '[2]'), ('raises', 'TypeError', "unsupported operand type(s) for //: 'int' and 'list'")),
 (('groupby', 'all', 'tuple', '(2,)'), ('raises', 'TypeError', "unsupported operand type(s) for //: 'int' and 'tuple'")),
 (('groupby', 'all', 'complex', '2j'), ('raises', 'TypeError', "unsupported operand type(s) for //: 'int' and 'complex'")),
 (('groupby', 'stepped', 'int', '1'), {0: [(20, 60)], 2: [(140, 180)], 4: [(260, 300)], 6: [(380, 420)]}),
 (('groupby', 'stepped', 'int', '4'), {0: [(20, 60), (140, 180)], 1: [(260, 300), (380, 420)]}),
 (('groupby', 'stepped', 'int', '1024'), {0: [(20, 60), (140, 180), (260, 300), (380, 420)]}),
 (('groupby', 'stepped', 'int', '0'), ('raises', 'ZeroDivisionError', 'integer division or modulo by zero')),
 (('groupby', 'stepped', 'float', '2.5'), {0.0: [(20, 60), (140, 180)], 1.0: [(260, 300)], 2.0: [(380, 420)]}),
 (('groupby', 'stepped', 'int64', 'np.int64(0)'),
  ({('np.int64', 0): [(20, 60), (140, 180), (260, 300), (380, 420)]},
   [('RuntimeWarning', 'divide by zero encountered in scalar floor_divide'), ('RuntimeWarning', 'divide by zero encountered in scalar floor_divide'),
    ('RuntimeWarning', 'divide by zero encountered in scalar floor_divide'),
    ('RuntimeWarning', 'divide by zero encountered in scalar floor_divide')])),
 (('groupby', 'stepped', 'NoneType', 'None'), ('raises', 'TypeError', "unsupported operand type(s) for //: 'int' and 'NoneType'")),
 (('groupby', 'stepped', 'tuple', '(2,)'), ('raises', 'TypeError', "unsupported operand type(s) for //: 'int' and 'tuple'")),
 (('groupby', 'reversed', 'int', '1'),
  {6: [(380, 420)], 5: [(320, 360)], 4: [(260, 300)], 3: [(200, 240)], 2: [(140, 180)], 1: [(80, 120)], 0: [(20, 60)]}),
 (('groupby', 'reversed', 'int', '4'), {1: [(380, 420), (320, 360), (260, 300)], 0: [(200, 240), (140, 180), (80, 120), (20, 60)]}),
 (('groupby', 'reversed', 'int', '1024'), {0: [(380, 420), (320, 360), (260, 300), (200, 240), (140, 180), (80, 120), (20, 60)]}),
 (('groupby', 'reversed', 'int', '0'), ('raises', 'ZeroDivisionError', 'integer division or modulo by zero')),
 (('groupby', 'reversed', 'float', '2.5'), {2.0: [(380, 420), (320, 360)], 1.0: [(260, 300), (200, 240)], 0.0: [(140, 180), (80, 120), (20, 60)]}),
 (('groupby', 'reversed', 'int64', 'np.int64(0)'),
  ({('np.int64', 0): [(380, 420), (320, 360), (260, 300), (200, 240), (140, 180), (80, 120), (20, 60)]},
   [('RuntimeWarning', 'divide by zero encountered in scalar floor_divide'), ('RuntimeWarning', 'divide by zero encountered in scalar floor_divide'),
    ('RuntimeWarning', 'divide by zero encountered in scalar floor_divide'), ('RuntimeWarning', 'divide by zero encountered in scalar floor_divide'),
    ('RuntimeWarning', 'divide by zero encountered in scalar floor_divide'), ('RuntimeWarning', 'divide by zero encountered in scalar floor_divide'),
    ('RuntimeWarning', 'divide by zero encountered in scalar floor_divide')])),
 (('groupby', 'reversed', 'NoneType', 'None'), ('raises', 'TypeError', "unsupported operand type(s) for //: 'int' and 'NoneType'")),
 (('groupby', 'reversed', 'tuple', '(2,)'), ('raises', 'TypeError', "unsupported operand type(s) for //: 'int' and 'tuple'")),
 (('groupby', 'shuffled', 'int', '1'),
  {4: [(260, 300)], 0: [(20, 60)], 5: [(320, 360)], 1: [(80, 120)], 6: [(380, 420)], 2: [(140, 180)], 3: [(200, 240)]}),
 (('groupby', 'shuffled', 'int', '2'), {2: [(260, 300), (320, 360)], 0: [(20, 60), (80, 120)], 3: [(380, 420)], 1: [(140, 180), (200, 240)]}),
 (('groupby', 'shuffled', 'int', '3'), {1: [(260, 300), (320, 360), (200, 240)], 0: [(20, 60), (80, 120), (140, 180)], 2: [(380, 420)]}),
 (('groupby', 'shuffled', 'int', '4'), {1: [(260, 300), (320, 360), (380, 420)], 0: [(20, 60), (80, 120), (140, 180), (200, 240)]}),
 (('groupby', 'shuffled', 'int', '7'), {0: [(260, 300), (20, 60), (320, 360), (80, 120), (380, 420), (140, 180), (200, 240)]}),
 (('groupby', 'shuffled', 'int', '8'), {0: [(260, 300), (20, 60), (320, 360), (80, 120), (380, 420), (140, 180), (200, 240)]}),
 (('groupby', 'shuffled', 'int', '1024'), {0: [(260, 300), (20, 60), (320, 360), (80, 120), (380, 420), (140, 180), (200, 240)]}),
 (('groupby', 'shuffled', 'int', '-1'),
  {-4: [(260, 300)], 0: [(20, 60)], -5: [(320, 360)], -1: [(80, 120)], -6: [(380, 420)], -2: [(140, 180)], -3: [(200, 240)]}),
 (('groupby', 'shuffled', 'int', '-2'), {-2: [(260, 300), (200, 240)], 0: [(20, 60)], -3: [(320, 360), (380, 420)], -1: [(80, 120), (140, 180)]}),
 (('groupby', 'shuffled', 'int', '0'), ('raises', 'ZeroDivisionError', 'integer division or modulo by zero')),
 (('groupby', 'shuffled', 'bool', 'True'),
  {4: [(260, 300)], 0: [(20, 60)], 5: [(320, 360)], 1: [(80, 120)], 6: [(380, 420)], 2: [(140, 180)], 3: [(200, 240)]}),
 (('groupby', 'shuffled', 'float', '2.0'),
  {2.0: [(260, 300), (320, 360)], 0.0: [(20, 60), (80, 120)], 3.0: [(380, 420)], 1.0: [(140, 180), (200, 240)]}),
 (('groupby', 'shuffled', 'float', '2.5'), {1.0: [(260, 300), (200, 240)], 0.0: [(20, 60), (80, 120), (140, 180)], 2.0: [(320, 360), (380, 420)]}),
 (('groupby', 'shuffled', 'float', '0.0'), ('raises', 'ZeroDivisionError', 'float floor division by zero')),
 (('groupby', 'shuffled', 'int64', 'np.int64(2)'),
  {('np.int64', 2): [(260, 300), (320, 360)],
   ('np.int64', 0): [(20, 60), (80, 120)],
   ('np.int64', 3): [(380, 420)],
   ('np.int64', 1): [(140, 180), (200, 240)]}),
 (('groupby', 'shuffled', 'int64', 'np.int64(0)'),
  ({('np.int64', 0): [(260, 300), (20, 60), (320, 360), (80, 120), (380, 420), (140, 180), (200, 240)]},
   [('RuntimeWarning', 'divide by zero encountered in scalar floor_divide'), ('RuntimeWarning', 'divide by zero encountered in scalar floor_divide'),
    ('RuntimeWarning', 'divide by zero encountered in scalar floor_divide'), ('RuntimeWarning', 'divide by zero encountered in scalar floor_divide'),
    ('RuntimeWarning', 'divide by zero encountered in scalar floor_divide'), ('RuntimeWarning', 'divide by zero encountered in scalar floor_divide'),
    ('RuntimeWarning', 'divide by zero encountered in scalar floor_divide')])),
 (('groupby', 'shuffled', 'float64', 'np.float64(3.0)'),
  {('np.float64', 1.0): [(260, 300), (320, 360), (200, 240)],
   ('np.float64', 0.0): [(20, 60), (80, 120), (140, 180)],
   ('np.float64', 2.0): [(380, 420)]}),
 (('groupby', 'shuffled', 'float', 'inf'), {0.0: [(260, 300), (20, 60), (320, 360), (80, 120), (380, 420), (140, 180), (200, 240)]}),
 (('groupby', 'shuffled', 'NoneType', 'None'), ('raises', 'TypeError', "unsupported operand type(s) for //: 'int' and 'NoneType'")),
 (('groupby', 'shuffled', 'str', "'2'"), ('raises', 'TypeError', "unsupported operand type(s) for //: 'int' and 'str'")),
 (('groupby', 'shuffled', 'list', '[2]'), ('raises', 'TypeError', "unsupported operand type(s) for //: 'int' and 'list'")),
 (('groupby', 'shuffled', 'tuple', '(2,)'), ('raises', 'TypeError', "unsupported operand type(s) for //: 'int' and 'tuple'")),
 (('groupby', 'shuffled', 'complex', '2j'), ('raises', 'TypeError', "unsupported operand type(s) for //: 'int' and 'complex'")),
 (('groupby', 'duplicates', 'int', '1'), {1: [(80, 120), (80, 120), (80, 120)], 0: [(20, 60), (20, 60)], 4: [(260, 300)]}),
 (('groupby', 'duplicates', 'int', '4'), {0: [(80, 120), (80, 120), (20, 60), (80, 120), (20, 60)], 1: [(260, 300)]}),
 (('groupby', 'duplicates', 'int', '1024'), {0: [(80, 120), (80, 120), (20, 60), (80, 120), (260, 300), (20, 60)]}),
 (('groupby', 'duplicates', 'int', '0'), ('raises', 'ZeroDivisionError', 'integer division or modulo by zero')),
 (('groupby', 'duplicates', 'float', '2.5'), {0.0: [(80, 120), (80, 120), (20, 60), (80, 120), (20, 60)], 1.0: [(260, 300)]}),
 (('groupby', 'duplicates', 'int64', 'np.int64(0)'),
  ({('np.int64', 0): [(80, 120), (80, 120), (20, 60), (80, 120), (260, 300), (20, 60)]},
   [('RuntimeWarning', 'divide by zero encountered in scalar floor_divide'), ('RuntimeWarning', 'divide by zero encountered in scalar floor_divide'),
    ('RuntimeWarning', 'divide by zero encountered in scalar floor_divide'), ('RuntimeWarning', 'divide by zero encountered in scalar floor_divide'),
    ('RuntimeWarning', 'divide by zero encountered in scalar floor_divide'),
    ('RuntimeWarning', 'divide by zero encountered in scalar floor_divide')])),
 (('groupby', 'duplicates', 'NoneType', 'None'), ('raises', 'TypeError', "unsupported operand type(s) for //: 'int' and 'NoneType'")),
 (('groupby', 'duplicates', 'tuple', '(2,)'), ('raises', 'TypeError', "unsupported operand type(s) for //: 'int' and 'tuple'")),
 (('groupby', 'sparse', 'int', '1'), {0: [(20, 60)], 9: [(140, 180)], 20: [(380, 420)]}),
 (('groupby', 'sparse', 'int', '4'), {0: [(20, 60)], 2: [(140, 180)], 5: [(380, 420)]}),
 (('groupby', 'sparse', 'int', '1024'), {0: [(20, 60), (140, 180), (380, 420)]}),
 (('groupby', 'sparse', 'int', '0'), ('raises', 'ZeroDivisionError', 'integer division or modulo by zero')),
 (('groupby', 'sparse', 'float', '2.5'), {0.0: [(20, 60)], 3.0: [(140, 180)], 8.0: [(380, 420)]}),
 (('groupby', 'sparse', 'int64', 'np.int64(0)'),
  ({('np.int64', 0): [(20, 60), (140, 180), (380, 420)]},
   [('RuntimeWarning', 'divide by zero encountered in scalar floor_divide'), ('RuntimeWarning', 'divide by zero encountered in scalar floor_divide'),
    ('RuntimeWarning', 'divide by zero encountered in scalar floor_divide')])),
 (('groupby', 'sparse', 'NoneType', 'None'), ('raises', 'TypeError', "unsupported operand type(s) for //: 'int' and 'NoneType'")),
 (('groupby', 'sparse', 'tuple', '(2,)'), ('raises', 'TypeError', "unsupported operand type(s) for //: 'int' and 'tuple'")),
 (('groupby', 'single', 'int', '1'), {3: [(200, 240)]}), (('groupby', 'single', 'int', '4'), {0: [(200, 240)]}),
 (('groupby', 'single', 'int', '1024'), {0: [(200, 240)]}),
 (('groupby', 'single', 'int', '0'), ('raises', 'ZeroDivisionError', 'integer division or modulo by zero')),
 (('groupby', 'single', 'float', '2.5'), {1.0: [(200, 240)]}),
 (('groupby', 'single', 'int64', 'np.int64(0)'),
  ({('np.int64', 0): [(200, 240)]}, [('RuntimeWarning', 'divide by zero encountered in scalar floor_divide')])),
 (('groupby', 'single', 'NoneType', 'None'), ('raises', 'TypeError', "unsupported operand type(s) for //: 'int' and 'NoneType'")),
 (('groupby', 'single', 'tuple', '(2,)'), ('raises', 'TypeError', "unsupported operand type(s) for //: 'int' and 'tuple'")),
 (('groupby', 'empty', 'int', '1'), {}), (('groupby', 'empty', 'int', '4'), {}), (('groupby', 'empty', 'int', '1024'), {}),
 (('groupby', 'empty', 'int', '0'), {}), (('groupby', 'empty', 'float', '2.5'), {}), (('groupby', 'empty', 'int64', 'np.int64(0)'), {}),
 (('groupby', 'empty', 'NoneType', 'None'), {}), (('groupby', 'empty', 'tuple', '(2,)'), {}),
 (('groupby', 'negative rows', 'int', '1'), {-1: [(0, 1)], -2: [(1, 2)], 0: [(2, 3)], -3: [(3, 4)]}),
 (('groupby', 'negative rows', 'int', '4'), {-1: [(0, 1), (1, 2), (3, 4)], 0: [(2, 3)]}),
 (('groupby', 'negative rows', 'int', '1024'), {-1: [(0, 1), (1, 2), (3, 4)], 0: [(2, 3)]}),
 (('groupby', 'negative rows', 'int', '0'), ('raises', 'ZeroDivisionError', 'integer division or modulo by zero')),
 (('groupby', 'negative rows', 'float', '2.5'), {-1.0: [(0, 1), (1, 2)], 0.0: [(2, 3)], -2.0: [(3, 4)]}),
 (('groupby', 'negative rows', 'int64', 'np.int64(0)'),
  ({('np.int64', 0): [(0, 1), (1, 2), (2, 3), (3, 4)]},
   [('RuntimeWarning', 'divide by zero encountered in scalar floor_divide'), ('RuntimeWarning', 'divide by zero encountered in scalar floor_divide'),
    ('RuntimeWarning', 'divide by zero encountered in scalar floor_divide'),
    ('RuntimeWarning', 'divide by zero encountered in scalar floor_divide')])),
 (('groupby', 'negative rows', 'NoneType', 'None'), ('raises', 'TypeError', "unsupported operand type(s) for //: 'int' and 'NoneType'")),
 (('groupby', 'negative rows', 'tuple', '(2,)'), ('raises', 'TypeError', "unsupported operand type(s) for //: 'int' and 'tuple'")),
 (('groupby', 'numpy rows', 'int', '1'),
  {('np.int64', 0): [(20, 60)],
   ('np.int64', 1): [(80, 120)],
   ('np.int64', 2): [(140, 180)],
   ('np.int64', 3): [(200, 240)],
   ('np.int64', 4): [(260, 300)]}),
 (('groupby', 'numpy rows', 'int', '4'), {('np.int64', 0): [(20, 60), (80, 120), (140, 180), (200, 240)], ('np.int64', 1): [(260, 300)]}),
 (('groupby', 'numpy rows', 'int', '1024'), {('np.int64', 0): [(20, 60), (80, 120), (140, 180), (200, 240), (260, 300)]}),
 (('groupby', 'numpy rows', 'int', '0'),
  ({('np.int64', 0): [(20, 60), (80, 120), (140, 180), (200, 240), (260, 300)]},
   [('RuntimeWarning', 'divide by zero encountered in scalar floor_divide'), ('RuntimeWarning', 'divide by zero encountered in scalar floor_divide'),
    ('RuntimeWarning', 'divide by zero encountered in scalar floor_divide'), ('RuntimeWarning', 'divide by zero encountered in scalar floor_divide'),
    ('RuntimeWarning', 'divide by zero encountered in scalar floor_divide')])),
 (('groupby', 'numpy rows', 'float', '2.5'), {('np.float64', 0.0): [(20, 60), (80, 120), (140, 180)], ('np.float64', 1.0): [(200, 240), (260, 300)]}),
 (('groupby', 'numpy rows', 'int64', 'np.int64(0)'),
  ({('np.int64', 0): [(20, 60), (80, 120), (140, 180), (200, 240), (260, 300)]},
   [('RuntimeWarning', 'divide by zero encountered in scalar floor_divide'), ('RuntimeWarning', 'divide by zero encountered in scalar floor_divide'),
    ('RuntimeWarning', 'divide by zero encountered in scalar floor_divide'), ('RuntimeWarning', 'divide by zero encountered in scalar floor_divide'),
    ('RuntimeWarning', 'divide by zero encountered in scalar floor_divide')])),
 (('groupby', 'numpy rows', 'NoneType', 'None'), ('raises', 'TypeError', "unsupported operand type(s) for //: 'int' and 'NoneType'")),
 (('groupby', 'numpy rows', 'tuple', '(2,)'), ('raises', 'TypeError', "unhashable type: 'numpy.ndarray'")),
 (('groupby', 'float rows', 'int', '1'), {0.0: [(0, 1)], 1.0: [(1, 2), (3, 4)], 2.0: [(2, 3)]}),
 (('groupby', 'float rows', 'int', '4'), {0.0: [(0, 1), (1, 2), (2, 3), (3, 4)]}),
 (('groupby', 'float rows', 'int', '1024'), {0.0: [(0, 1), (1, 2), (2, 3), (3, 4)]}),
 (('groupby', 'float rows', 'int', '0'), ('raises', 'ZeroDivisionError', 'float floor division by zero')),
 (('groupby', 'float rows', 'float', '2.5'), {0.0: [(0, 1), (1, 2), (2, 3), (3, 4)]}),
 (('groupby', 'float rows', 'int64', 'np.int64(0)'),
  ({('np.float64', ('float', 'nan')): [(0, 1)], ('np.float64', ('float', 'inf')): [(1, 2), (2, 3)], ('np.int64', 0): [(3, 4)]},
   [('RuntimeWarning', 'invalid value encountered in floor_divide'), ('RuntimeWarning', 'divide by zero encountered in floor_divide'),
    ('RuntimeWarning', 'divide by zero encountered in floor_divide'), ('RuntimeWarning', 'divide by zero encountered in scalar floor_divide')])),
 (('groupby', 'float rows', 'NoneType', 'None'), ('raises', 'TypeError', "unsupported operand type(s) for //: 'float' and 'NoneType'")),
 (('groupby', 'float rows', 'tuple', '(2,)'), ('raises', 'TypeError', "unsupported operand type(s) for //: 'float' and 'tuple'")),
 (('groupby', 'mixed keys', 'int', '1'), {1: [(0, 1), (1, 2), (2, 3), (3, 4)], 0: [(4, 5)]}),
 (('groupby', 'mixed keys', 'int', '4'), {0: [(0, 1), (1, 2), (2, 3), (3, 4), (4, 5)]}),
 (('groupby', 'mixed keys', 'int', '1024'), {0: [(0, 1), (1, 2), (2, 3), (3, 4), (4, 5)]}),
 (('groupby', 'mixed keys', 'int', '0'), ('raises', 'ZeroDivisionError', 'integer division or modulo by zero')),
 (('groupby', 'mixed keys', 'float', '2.5'), {0.0: [(0, 1), (1, 2), (2, 3), (3, 4), (4, 5)]}),
 (('groupby', 'mixed keys', 'int64', 'np.int64(0)'),
  ({('np.int64', 0): [(0, 1), (1, 2), (3, 4), (4, 5)], ('np.float64', ('float', 'inf')): [(2, 3)]},
   [('RuntimeWarning', 'divide by zero encountered in scalar floor_divide'), ('RuntimeWarning', 'divide by zero encountered in scalar floor_divide'),
    ('RuntimeWarning', 'divide by zero encountered in floor_divide'), ('RuntimeWarning', 'divide by zero encountered in scalar floor_divide'),
    ('RuntimeWarning', 'divide by zero encountered in scalar floor_divide')])),
 (('groupby', 'mixed keys', 'NoneType', 'None'), ('raises', 'TypeError', "unsupported operand type(s) for //: 'bool' and 'NoneType'")),
 (('groupby', 'mixed keys', 'tuple', '(2,)'), ('raises', 'TypeError', "unsupported operand type(s) for //: 'bool' and 'tuple'")),
 (('groupby', 'list items', 'int', '1'), {0: [(0, 1)], 1: [(1, 2)], 2: [(2, 3)]}),
 (('groupby', 'list items', 'int', '4'), {0: [(0, 1), (1, 2), (2, 3)]}), (('groupby', 'list items', 'int', '1024'), {0: [(0, 1), (1, 2), (2, 3)]}),
 (('groupby', 'list items', 'int', '0'), ('raises', 'ZeroDivisionError', 'integer division or modulo by zero')),
 (('groupby', 'list items', 'float', '2.5'), {0.0: [(0, 1), (1, 2), (2, 3)]}),
 (('groupby', 'list items', 'int64', 'np.int64(0)'),
  ({('np.int64', 0): [(0, 1), (1, 2), (2, 3)]},
   [('RuntimeWarning', 'divide by zero encountered in scalar floor_divide'), ('RuntimeWarning', 'divide by zero encountered in scalar floor_divide'),
    ('RuntimeWarning', 'divide by zero encountered in scalar floor_divide')])),
 (('groupby', 'list items', 'NoneType', 'None'), ('raises', 'TypeError', "unsupported operand type(s) for //: 'int' and 'NoneType'")),
 (('groupby', 'list items', 'tuple', '(2,)'), ('raises', 'TypeError', "unsupported operand type(s) for //: 'int' and 'tuple'")),
 (('groupby', 'tuple', 'int', '1'), {0: [(20, 60)], 1: [(80, 120)], 2: [(140, 180)], 3: [(200, 240)], 4: [(260, 300)]}),
 (('groupby', 'tuple', 'int', '4'), {0: [(20, 60), (80, 120), (140, 180), (200, 240)], 1: [(260, 300)]}),
 (('groupby', 'tuple', 'int', '1024'), {0: [(20, 60), (80, 120), (140, 180), (200, 240), (260, 300)]}),
 (('groupby', 'tuple', 'int', '0'), ('raises', 'ZeroDivisionError', 'integer division or modulo by zero')),
 (('groupby', 'tuple', 'float', '2.5'), {0.0: [(20, 60), (80, 120), (140, 180)], 1.0: [(200, 240), (260, 300)]}),
 (('groupby', 'tuple', 'int64', 'np.int64(0)'),
  ({('np.int64', 0): [(20, 60), (80, 120), (140, 180), (200, 240), (260, 300)]},
   [('RuntimeWarning', 'divide by zero encountered in scalar floor_divide'), ('RuntimeWarning', 'divide by zero encountered in scalar floor_divide'),
    ('RuntimeWarning', 'divide by zero encountered in scalar floor_divide'), ('RuntimeWarning', 'divide by zero encountered in scalar floor_divide'),
    ('RuntimeWarning', 'divide by zero encountered in scalar floor_divide')])),
 (('groupby', 'tuple', 'NoneType', 'None'), ('raises', 'TypeError', "unsupported operand type(s) for //: 'int' and 'NoneType'")),
 (('groupby', 'tuple', 'tuple', '(2,)'), ('raises', 'TypeError', "unsupported operand type(s) for //: 'int' and 'tuple'")),
 (('groupby', 'payloads', 'int', '1'), {0: [None], 1: ['ab'], 2: [[1, 2, 3]], 3: [{'a': 1}]}),
 (('groupby', 'payloads', 'int', '4'), {0: [None, 'ab', [1, 2, 3], {'a': 1}]}),
 (('groupby', 'payloads', 'int', '1024'), {0: [None, 'ab', [1, 2, 3], {'a': 1}]}),
 (('groupby', 'payloads', 'int', '0'), ('raises', 'ZeroDivisionError', 'integer division or modulo by zero')),
 (('groupby', 'payloads', 'float', '2.5'), {0.0: [None, 'ab', [1, 2, 3]], 1.0: [{'a': 1}]}),
 (('groupby', 'payloads', 'int64', 'np.int64(0)'),
  ({('np.int64', 0): [None, 'ab', [1, 2, 3], {'a': 1}]},
   [('RuntimeWarning', 'divide by zero encountered in scalar floor_divide'), ('RuntimeWarning', 'divide by zero encountered in scalar floor_divide'),
    ('RuntimeWarning', 'divide by zero encountered in scalar floor_divide'),
    ('RuntimeWarning', 'divide by zero encountered in scalar floor_divide')])),
 (('groupby', 'payloads', 'NoneType', 'None'), ('raises', 'TypeError', "unsupported operand type(s) for //: 'int' and 'NoneType'")),
 (('groupby', 'payloads', 'tuple', '(2,)'), ('raises', 'TypeError', "unsupported operand type(s) for //: 'int' and 'tuple'")),
 (('groupby', 'triples', 'int', '1'), ('raises', 'ValueError', 'too many values to unpack (expected 2)')),
 (('groupby', 'triples', 'int', '4'), ('raises', 'ValueError', 'too many values to unpack (expected 2)')),
 (('groupby', 'triples', 'int', '1024'), ('raises', 'ValueError', 'too many values to unpack (expected 2)')),
 (('groupby', 'triples', 'int', '0'), ('raises', 'ZeroDivisionError', 'integer division or modulo by zero')),
 (('groupby', 'triples', 'float', '2.5'), ('raises', 'ValueError', 'too many values to unpack (expected 2)')),
 (('groupby', 'triples', 'int64', 'np.int64(0)'),
  (('raises', 'ValueError', 'too many values to unpack (expected 2)'),
   [('RuntimeWarning', 'divide by zero encountered in scalar floor_divide'),
    ('RuntimeWarning', 'divide by zero encountered in scalar floor_divide')])),
 (('groupby', 'triples', 'NoneType', 'None'), ('raises', 'TypeError', "unsupported operand type(s) for //: 'int' and 'NoneType'")),
 (('groupby', 'triples', 'tuple', '(2,)'), ('raises', 'TypeError', "unsupported operand type(s) for //: 'int' and 'tuple'")),
 (('groupby', 'late triple', 'int', '1'), ('raises', 'ValueError', 'too many values to unpack (expected 2)')),
 (('groupby', 'late triple', 'int', '2'), ('raises', 'ValueError', 'too many values to unpack (expected 2)')),
 (('groupby', 'late triple', 'int', '3'), ('raises', 'ValueError', 'too many values to unpack (expected 2)')),
 (('groupby', 'late triple', 'int', '4'), ('raises', 'ValueError', 'too many values to unpack (expected 2)')),
 (('groupby', 'late triple', 'int', '7'), ('raises', 'ValueError', 'too many values to unpack (expected 2)')),
 (('groupby', 'late triple', 'int', '8'), ('raises', 'ValueError', 'too many values to unpack (expected 2)')),
 (('groupby', 'late triple', 'int', '1024'), ('raises', 'ValueError', 'too many values to unpack (expected 2)')),
 (('groupby', 'late triple', 'int', '-1'), ('raises', 'ValueError', 'too many values to unpack (expected 2)')),
 (('groupby', 'late triple', 'int', '-2'), ('raises', 'ValueError', 'too many values to unpack (expected 2)')),
 (('groupby', 'late triple', 'int', '0'), ('raises', 'ZeroDivisionError', 'integer division or modulo by zero')),
 (('groupby', 'late triple', 'bool', 'True'), ('raises', 'ValueError', 'too many values to unpack (expected 2)')),
 (('groupby', 'late triple', 'float', '2.0'), ('raises', 'ValueError', 'too many values to unpack (expected 2)')),
 (('groupby', 'late triple', 'float', '2.5'), ('raises', 'ValueError', 'too many values to unpack (expected 2)')),
 (('groupby', 'late triple', 'float', '0.0'), ('raises', 'ZeroDivisionError', 'float floor division by zero')),
 (('groupby', 'late triple', 'int64', 'np.int64(2)'), ('raises', 'ValueError', 'too many values to unpack (expected 2)')),
 (('groupby', 'late triple', 'int64', 'np.int64(0)'),
  (('raises', 'ValueError', 'too many values to unpack (expected 2)'),
   [('RuntimeWarning', 'divide by zero encountered in scalar floor_divide'), ('RuntimeWarning', 'divide by zero encountered in scalar floor_divide'),
    ('RuntimeWarning', 'divide by zero encountered in scalar floor_divide'),
    ('RuntimeWarning', 'divide by zero encountered in scalar floor_divide')])),
 (('groupby', 'late triple', 'float64', 'np.float64(3.0)'), ('raises', 'ValueError', 'too many values to unpack (expected 2)')),
 (('groupby', 'late triple', 'float', 'inf'), ('raises', 'ValueError', 'too many values to unpack (expected 2)')),
 (('groupby', 'late triple', 'NoneType', 'None'), ('raises', 'TypeError', "unsupported operand type(s) for //: 'int' and 'NoneType'")),
 (('groupby', 'late triple', 'str', "'2'"), ('raises', 'TypeError', "unsupported operand type(s) for //: 'int' and 'str'")),
 (('groupby', 'late triple', 'list', '[2]'), ('raises', 'TypeError', "unsupported operand type(s) for //: 'int' and 'list'")),
 (('groupby', 'late triple', 'tuple', '(2,)'), ('raises', 'TypeError', "unsupported operand type(s) for //: 'int' and 'tuple'")),
 (('groupby', 'late triple', 'complex', '2j'), ('raises', 'TypeError', "unsupported operand type(s) for //: 'int' and 'complex'")),
 (('groupby', 'singles', 'int', '1'), ('raises', 'ValueError', 'not enough values to unpack (expected 2, got 1)')),
 (('groupby', 'singles', 'int', '4'), ('raises', 'ValueError', 'not enough values to unpack (expected 2, got 1)')),
 (('groupby', 'singles', 'int', '1024'), ('raises', 'ValueError', 'not enough values to unpack (expected 2, got 1)')),
 (('groupby', 'singles', 'int', '0'), ('raises', 'ZeroDivisionError', 'integer division or modulo by zero')),
 (('groupby', 'singles', 'float', '2.5'), ('raises', 'ValueError', 'not enough values to unpack (expected 2, got 1)')),
 (('groupby', 'singles', 'int64', 'np.int64(0)'),
  (('raises', 'ValueError', 'not enough values to unpack (expected 2, got 1)'),
   [('RuntimeWarning', 'divide by zero encountered in scalar floor_divide'),
    ('RuntimeWarning', 'divide by zero encountered in scalar floor_divide')])),
 (('groupby', 'singles', 'NoneType', 'None'), ('raises', 'TypeError', "unsupported operand type(s) for //: 'int' and 'NoneType'")),
 (('groupby', 'singles', 'tuple', '(2,)'), ('raises', 'TypeError', "unsupported operand type(s) for //: 'int' and 'tuple'")),
 (('groupby', 'late single', 'int', '1'), ('raises', 'ValueError', 'not enough values to unpack (expected 2, got 1)')),
 (('groupby', 'late single', 'int', '4'), ('raises', 'ValueError', 'not enough values to unpack (expected 2, got 1)')),
 (('groupby', 'late single', 'int', '1024'), ('raises', 'ValueError', 'not enough values to unpack (expected 2, got 1)')),
 (('groupby', 'late single', 'int', '0'), ('raises', 'ZeroDivisionError', 'integer division or modulo by zero')),
 (('groupby', 'late single', 'float', '2.5'), ('raises', 'ValueError', 'not enough values to unpack (expected 2, got 1)')),
 (('groupby', 'late single', 'int64', 'np.int64(0)'),
  (('raises', 'ValueError', 'not enough values to unpack (expected 2, got 1)'),
   [('RuntimeWarning', 'divide by zero encountered in scalar floor_divide'), ('RuntimeWarning', 'divide by zero encountered in scalar floor_divide'),
    ('RuntimeWarning', 'divide by zero encountered in scalar floor_divide')])),
 (('groupby', 'late single', 'NoneType', 'None'), ('raises', 'TypeError', "unsupported operand type(s) for //: 'int' and 'NoneType'")),
 (('groupby', 'late single', 'tuple', '(2,)'), ('raises', 'TypeError', "unsupported operand type(s) for //: 'int' and 'tuple'")),
 (('groupby', 'strings', 'int', '1'), ('raises', 'TypeError', "unsupported operand type(s) for //: 'str' and 'int'")),
 (('groupby', 'strings', 'int', '4'), ('raises', 'TypeError', "unsupported operand type(s) for //: 'str' and 'int'")),
 (('groupby', 'strings', 'int', '1024'), ('raises', 'TypeError', "unsupported operand type(s) for //: 'str' and 'int'")),
 (('groupby', 'strings', 'int', '0'), ('raises', 'TypeError', "unsupported operand type(s) for //: 'str' and 'int'")),
 (('groupby', 'strings', 'float', '2.5'), ('raises', 'TypeError', "unsupported operand type(s) for //: 'str' and 'float'")),
 (('groupby', 'strings', 'int64', 'np.int64(0)'),
  ('raises', 'TypeError',
   "ufunc 'floor_divide' not supported for the input types, and the inputs could not be safely coerced to any supported types according to the "
   "casting rule ''safe''")),
 (('groupby', 'strings', 'NoneType', 'None'), ('raises', 'TypeError', "unsupported operand type(s) for //: 'str' and 'NoneType'")),
 (('groupby', 'strings', 'tuple', '(2,)'), ('raises', 'TypeError', "unsupported operand type(s) for //: 'str' and 'tuple'")),
 (('groupby', 'two-char rows', 'int', '1'), ('raises', 'TypeError', "unsupported operand type(s) for //: 'str' and 'int'")),
 (('groupby', 'two-char rows', 'int', '4'), ('raises', 'TypeError', "unsupported operand type(s) for //: 'str' and 'int'")),
 (('groupby', 'two-char rows', 'int', '1024'), ('raises', 'TypeError', "unsupported operand type(s) for //: 'str' and 'int'")),
 (('groupby', 'two-char rows', 'int', '0'), ('raises', 'TypeError', "unsupported operand type(s) for //: 'str' and 'int'")),
 (('groupby', 'two-char rows', 'float', '2.5'), ('raises', 'TypeError', "unsupported operand type(s) for //: 'str' and 'float'")),
 (('groupby', 'two-char rows', 'int64', 'np.int64(0)'),
  ('raises', 'TypeError',
   "ufunc 'floor_divide' not supported for the input types, and the inputs could not be safely coerced to any supported types according to the "
   "casting rule ''safe''")),
 (('groupby', 'two-char rows', 'NoneType', 'None'), ('raises', 'TypeError', "unsupported operand type(s) for //: 'str' and 'NoneType'")),
 (('groupby', 'two-char rows', 'tuple', '(2,)'), ('raises', 'TypeError', "unsupported operand type(s) for //: 'str' and 'tuple'")),
 (('groupby', 'scalars', 'int', '1'), ('raises', 'TypeError', "'int' object is not subscriptable")),
 (('groupby', 'scalars', 'int', '4'), ('raises', 'TypeError', "'int' object is not subscriptable")),
 (('groupby', 'scalars', 'int', '1024'), ('raises', 'TypeError', "'int' object is not subscriptable")),
 (('groupby', 'scalars', 'int', '0'), ('raises', 'TypeError', "'int' object is not subscriptable")),
 (('groupby', 'scalars', 'float', '2.5'), ('raises', 'TypeError', "'int' object is not subscriptable")),
 (('groupby', 'scalars', 'int64', 'np.int64(0)'), ('raises', 'TypeError', "'int' object is not subscriptable")),
 (('groupby', 'scalars', 'NoneType', 'None'), ('raises', 'TypeError', "'int' object is not subscriptable")),
 (('groupby', 'scalars', 'tuple', '(2,)'), ('raises', 'TypeError', "'int' object is not subscriptable")),
 (('groupby', 'late scalar', 'int', '1'), ('raises', 'TypeError', "'int' object is not subscriptable")),
 (('groupby', 'late scalar', 'int', '4'), ('raises', 'TypeError', "'int' object is not subscriptable")),
 (('groupby', 'late scalar', 'int', '1024'), ('raises', 'TypeError', "'int' object is not subscriptable")),
 (('groupby', 'late scalar', 'int', '0'), ('raises', 'ZeroDivisionError', 'integer division or modulo by zero')),
 (('groupby', 'late scalar', 'float', '2.5'), ('raises', 'TypeError', "'int' object is not subscriptable")),
 (('groupby', 'late scalar', 'int64', 'np.int64(0)'),
  (('raises', 'TypeError', "'int' object is not subscriptable"), [('RuntimeWarning', 'divide by zero encountered in scalar floor_divide')])),
 (('groupby', 'late scalar', 'NoneType', 'None'), ('raises', 'TypeError', "unsupported operand type(s) for //: 'int' and 'NoneType'")),
 (('groupby', 'late scalar', 'tuple', '(2,)'), ('raises', 'TypeError', "unsupported operand type(s) for //: 'int' and 'tuple'")),
 (('groupby', 'late bad row', 'int', '1'), ('raises', 'TypeError', "unsupported operand type(s) for //: 'NoneType' and 'int'")),
 (('groupby', 'late bad row', 'int', '4'), ('raises', 'TypeError', "unsupported operand type(s) for //: 'NoneType' and 'int'")),
 (('groupby', 'late bad row', 'int', '1024'), ('raises', 'TypeError', "unsupported operand type(s) for //: 'NoneType' and 'int'")),
 (('groupby', 'late bad row', 'int', '0'), ('raises', 'ZeroDivisionError', 'integer division or modulo by zero')),
 (('groupby', 'late bad row', 'float', '2.5'), ('raises', 'TypeError', "unsupported operand type(s) for //: 'NoneType' and 'float'")),
 (('groupby', 'late bad row', 'int64', 'np.int64(0)'),
  (('raises', 'TypeError', "unsupported operand type(s) for //: 'NoneType' and 'int'"),
   [('RuntimeWarning', 'divide by zero encountered in scalar floor_divide'),
    ('RuntimeWarning', 'divide by zero encountered in scalar floor_divide')])),
 (('groupby', 'late bad row', 'NoneType', 'None'), ('raises', 'TypeError', "unsupported operand type(s) for //: 'int' and 'NoneType'")),
 (('groupby', 'late bad row', 'tuple', '(2,)'), ('raises', 'TypeError', "unsupported operand type(s) for //: 'int' and 'tuple'")),
 (('groupby', 'bad row then triple', 'int', '1'), ('raises', 'TypeError', "unsupported operand type(s) for //: 'str' and 'int'")),
 (('groupby', 'bad row then triple', 'int', '4'), ('raises', 'TypeError', "unsupported operand type(s) for //: 'str' and 'int'")),
 (('groupby', 'bad row then triple', 'int', '1024'), ('raises', 'TypeError', "unsupported operand type(s) for //: 'str' and 'int'")),
 (('groupby', 'bad row then triple', 'int', '0'), ('raises', 'ZeroDivisionError', 'integer division or modulo by zero')),
 (('groupby', 'bad row then triple', 'float', '2.5'), ('raises', 'TypeError', "unsupported operand type(s) for //: 'str' and 'float'")),
 (('groupby', 'bad row then triple', 'int64', 'np.int64(0)'),
  (('raises', 'TypeError',
    "ufunc 'floor_divide' not supported for the input types, and the inputs could not be safely coerced to any supported types according to the "
    "casting rule ''safe''"),
   [('RuntimeWarning', 'divide by zero encountered in scalar floor_divide')])),
 (('groupby', 'bad row then triple', 'NoneType', 'None'), ('raises', 'TypeError', "unsupported operand type(s) for //: 'int' and 'NoneType'")),
 (('groupby', 'bad row then triple', 'tuple', '(2,)'), ('raises', 'TypeError', "unsupported operand type(s) for //: 'int' and 'tuple'")),
 (('groupby', 'list rows', 'int', '1'), ('raises', 'TypeError', "unsupported operand type(s) for //: 'list' and 'int'")),
 (('groupby', 'list rows', 'int', '4'), ('raises', 'TypeError', "unsupported operand type(s) for //: 'list' and 'int'")),
 (('groupby', 'list rows', 'int', '1024'), ('raises', 'TypeError', "unsupported operand type(s) for //: 'list' and 'int'")),
 (('groupby', 'list rows', 'int', '0'), ('raises', 'TypeError', "unsupported operand type(s) for //: 'list' and 'int'")),
 (('groupby', 'list rows', 'float', '2.5'), ('raises', 'TypeError', "unsupported operand type(s) for //: 'list' and 'float'")),
 (('groupby', 'list rows', 'int64', 'np.int64(0)'),
  (('raises', 'TypeError', "unhashable type: 'numpy.ndarray'"), [('RuntimeWarning', 'divide by zero encountered in floor_divide')])),
 (('groupby', 'list rows', 'NoneType', 'None'), ('raises', 'TypeError', "unsupported operand type(s) for //: 'list' and 'NoneType'")),
 (('groupby', 'list rows', 'tuple', '(2,)'), ('raises', 'TypeError', "unsupported operand type(s) for //: 'list' and 'tuple'")),
 (('groupby', 'dict', 'int', '1'), {0: [(0, 1)], 1: [(1, 2)], 2: [(2, 3)]}), (('groupby', 'dict', 'int', '4'), {0: [(0, 1), (1, 2), (2, 3)]}),
 (('groupby', 'dict', 'int', '1024'), {0: [(0, 1), (1, 2), (2, 3)]}),
 (('groupby', 'dict', 'int', '0'), ('raises', 'ZeroDivisionError', 'integer division or modulo by zero')),
 (('groupby', 'dict', 'float', '2.5'), {0.0: [(0, 1), (1, 2), (2, 3)]}),
 (('groupby', 'dict', 'int64', 'np.int64(0)'),
  ({('np.int64', 0): [(0, 1), (1, 2), (2, 3)]},
   [('RuntimeWarning', 'divide by zero encountered in scalar floor_divide'), ('RuntimeWarning', 'divide by zero encountered in scalar floor_divide'),
    ('RuntimeWarning', 'divide by zero encountered in scalar floor_divide')])),
 (('groupby', 'dict', 'NoneType', 'None'), ('raises', 'TypeError', "unsupported operand type(s) for //: 'int' and 'NoneType'")),
 (('groupby', 'dict', 'tuple', '(2,)'), ('raises', 'TypeError', "unsupported operand type(s) for //: 'int' and 'tuple'")),
 (('groupby', 'none', 'int', '1'), ('raises', 'TypeError', "'NoneType' object is not iterable")),
 (('groupby', 'none', 'int', '4'), ('raises', 'TypeError', "'NoneType' object is not iterable")),
 (('groupby', 'none', 'int', '1024'), ('raises', 'TypeError', "'NoneType' object is not iterable")),
 (('groupby', 'none', 'int', '0'), ('raises', 'TypeError', "'NoneType' object is not iterable")),
 (('groupby', 'none', 'float', '2.5'), ('raises', 'TypeError', "'NoneType' object is not iterable")),
 (('groupby', 'none', 'int64', 'np.int64(0)'), ('raises', 'TypeError', "'NoneType' object is not iterable")),
 (('groupby', 'none', 'NoneType', 'None'), ('raises', 'TypeError', "'NoneType' object is not iterable")),
 (('groupby', 'none', 'tuple', '(2,)'), ('raises', 'TypeError', "'NoneType' object is not iterable")),
 (('groupby', 'int', 'int', '1'), ('raises', 'TypeError', "'int' object is not iterable")),
 (('groupby', 'int', 'int', '4'), ('raises', 'TypeError', "'int' object is not iterable")),
 (('groupby', 'int', 'int', '1024'), ('raises', 'TypeError', "'int' object is not iterable")),
 (('groupby', 'int', 'int', '0'), ('raises', 'TypeError', "'int' object is not iterable")),
 (('groupby', 'int', 'float', '2.5'), ('raises', 'TypeError', "'int' object is not iterable")),
 (('groupby', 'int', 'int64', 'np.int64(0)'), ('raises', 'TypeError', "'int' object is not iterable")),
 (('groupby', 'int', 'NoneType', 'None'), ('raises', 'TypeError', "'int' object is not iterable")),
 (('groupby', 'int', 'tuple', '(2,)'), ('raises', 'TypeError', "'int' object is not iterable")),
 (('groupby', 'iterator', '1'), {4: [(260, 300)], 0: [(20, 60)], 5: [(320, 360)], 1: [(80, 120)], 6: [(380, 420)], 2: [(140, 180)], 3: [(200, 240)]}),
 (('groupby', 'generator, late triple', '1'), ('raises', 'ValueError', 'too many values to unpack (expected 2)')),
 (('groupby', 'keywords', '1'), {0: [(20, 60)], 1: [(80, 120)], 2: [(140, 180)], 3: [(200, 240)], 4: [(260, 300)], 5: [(320, 360)], 6: [(380, 420)]}),
 (('groupby', 'iterator', '2'), {2: [(260, 300), (320, 360)], 0: [(20, 60), (80, 120)], 3: [(380, 420)], 1: [(140, 180), (200, 240)]}),
 (('groupby', 'generator, late triple', '2'), ('raises', 'ValueError', 'too many values to unpack (expected 2)')),
 (('groupby', 'keywords', '2'), {0: [(20, 60), (80, 120)], 1: [(140, 180), (200, 240)], 2: [(260, 300), (320, 360)], 3: [(380, 420)]}),
 (('groupby', 'iterator', '3'), {1: [(260, 300), (320, 360), (200, 240)], 0: [(20, 60), (80, 120), (140, 180)], 2: [(380, 420)]}),
 (('groupby', 'generator, late triple', '3'), ('raises', 'ValueError', 'too many values to unpack (expected 2)')),
 (('groupby', 'keywords', '3'), {0: [(20, 60), (80, 120), (140, 180)], 1: [(200, 240), (260, 300), (320, 360)], 2: [(380, 420)]}),
 (('groupby', 'iterator', '0'), ('raises', 'ZeroDivisionError', 'integer division or modulo by zero')),
 (('groupby', 'generator, late triple', '0'), ('raises', 'ZeroDivisionError', 'integer division or modulo by zero')),
 (('groupby', 'keywords', '0'), ('raises', 'ZeroDivisionError', 'integer division or modulo by zero')),
 (('groupby', 'consumed', 'late triple', 2), (('raises', 'ValueError', 'too many values to unpack (expected 2)'), [0, 1, 2, 3])),
 (('groupby', 'consumed', 'late triple', 0), (('raises', 'ZeroDivisionError', 'integer division or modulo by zero'), [0])),
 (('groupby', 'consumed', 'late single', 2), (('raises', 'ValueError', 'not enough values to unpack (expected 2, got 1)'), [0, 1, 2])),
 (('groupby', 'consumed', 'late single', 0), (('raises', 'ZeroDivisionError', 'integer division or modulo by zero'), [0])),
 (('groupby', 'consumed', 'late scalar', 2), (('raises', 'TypeError', "'int' object is not subscriptable"), [0, 5])),
 (('groupby', 'consumed', 'late scalar', 0), (('raises', 'ZeroDivisionError', 'integer division or modulo by zero'), [0])),
 (('groupby', 'consumed', 'late bad row', 2), (('raises', 'TypeError', "unsupported operand type(s) for //: 'NoneType' and 'int'"), [0, 1, None])),
 (('groupby', 'consumed', 'late bad row', 0), (('raises', 'ZeroDivisionError', 'integer division or modulo by zero'), [0])),
 (('groupby', 'consumed', 'bad row then triple', 2), (('raises', 'TypeError', "unsupported operand type(s) for //: 'str' and 'int'"), [0, 'x'])),
 (('groupby', 'consumed', 'bad row then triple', 0), (('raises', 'ZeroDivisionError', 'integer division or modulo by zero'), [0])),
 (('pipeline', 'slice(None, None, None)', 1),
  {0: [(20, 60)], 1: [(80, 120)], 2: [(140, 180)], 3: [(200, 240)], 4: [(260, 300)], 5: [(320, 360)], 6: [(380, 420)]}),
 (('pipeline', 'slice(None, None, None)', 2), {0: [(20, 60), (80, 120)], 1: [(140, 180), (200, 240)], 2: [(260, 300), (320, 360)], 3: [(380, 420)]}),
 (('pipeline', 'slice(None, None, None)', 3), {0: [(20, 60), (80, 120), (140, 180)], 1: [(200, 240), (260, 300), (320, 360)], 2: [(380, 420)]}),
 (('pipeline', 'slice(None, None, None)', 7), {0: [(20, 60), (80, 120), (140, 180), (200, 240), (260, 300), (320, 360), (380, 420)]}),
 (('pipeline', 'slice(None, None, None)', 1024), {0: [(20, 60), (80, 120), (140, 180), (200, 240), (260, 300), (320, 360), (380, 420)]}),
 (('pipeline', 'slice(None, None, -1)', 1),
  {6: [(380, 420)], 5: [(320, 360)], 4: [(260, 300)], 3: [(200, 240)], 2: [(140, 180)], 1: [(80, 120)], 0: [(20, 60)]}),
 (('pipeline', 'slice(None, None, -1)', 2), {3: [(380, 420)], 2: [(320, 360), (260, 300)], 1: [(200, 240), (140, 180)], 0: [(80, 120), (20, 60)]}),
 (('pipeline', 'slice(None, None, -1)', 3), {2: [(380, 420)], 1: [(320, 360), (260, 300), (200, 240)], 0: [(140, 180), (80, 120), (20, 60)]}),
 (('pipeline', 'slice(None, None, -1)', 7), {0: [(380, 420), (320, 360), (260, 300), (200, 240), (140, 180), (80, 120), (20, 60)]}),
 (('pipeline', 'slice(None, None, -1)', 1024), {0: [(380, 420), (320, 360), (260, 300), (200, 240), (140, 180), (80, 120), (20, 60)]}),
 (('pipeline', 'slice(1, None, 3)', 1), {1: [(80, 120)], 4: [(260, 300)]}), (('pipeline', 'slice(1, None, 3)', 2), {0: [(80, 120)], 2: [(260, 300)]}),
 (('pipeline', 'slice(1, None, 3)', 3), {0: [(80, 120)], 1: [(260, 300)]}), (('pipeline', 'slice(1, None, 3)', 7), {0: [(80, 120), (260, 300)]}),
 (('pipeline', 'slice(1, None, 3)', 1024), {0: [(80, 120), (260, 300)]}), (('pipeline', '5', 1), {5: [(320, 360)]}),
 (('pipeline', '5', 2), {2: [(320, 360)]}), (('pipeline', '5', 3), {1: [(320, 360)]}), (('pipeline', '5', 7), {0: [(320, 360)]}),
 (('pipeline', '5', 1024), {0: [(320, 360)]}), (('pipeline', '-7', 1), {0: [(20, 60)]}), (('pipeline', '-7', 2), {0: [(20, 60)]}),
 (('pipeline', '-7', 3), {0: [(20, 60)]}), (('pipeline', '-7', 7), {0: [(20, 60)]}), (('pipeline', '-7', 1024), {0: [(20, 60)]}),
 (('pipeline', '[6, 0, 3, 3]', 1), {6: [(380, 420)], 0: [(20, 60)], 3: [(200, 240), (200, 240)]}),
 (('pipeline', '[6, 0, 3, 3]', 2), {3: [(380, 420)], 0: [(20, 60)], 1: [(200, 240), (200, 240)]}),
 (('pipeline', '[6, 0, 3, 3]', 3), {2: [(380, 420)], 0: [(20, 60)], 1: [(200, 240), (200, 240)]}),
 (('pipeline', '[6, 0, 3, 3]', 7), {0: [(380, 420), (20, 60), (200, 240), (200, 240)]}),
 (('pipeline', '[6, 0, 3, 3]', 1024), {0: [(380, 420), (20, 60), (200, 240), (200, 240)]}), (('pipeline', '[]', 1), {}), (('pipeline', '[]', 2), {}),
 (('pipeline', '[]', 3), {}), (('pipeline', '[]', 7), {}), (('pipeline', '[]', 1024), {})]
# fmt: on


def test_equivalent():
    observed = observe()
    assert len(observed) == len(EXPECTED)
    for (key, actual), (expected_key, expected) in zip(observed, EXPECTED):
        assert key == expected_key
        assert repr(actual) == repr(expected), f"{key}: {actual!r} != {expected!r}"


if __name__ == "__main__":
    if "--record" in sys.argv[1:]:
        pprint.pprint(observe(), width=150, compact=True, sort_dicts=False)
    else:
        test_equivalent()
        print(f"ok: {len(EXPECTED)} observations identical ({array.__file__})")
