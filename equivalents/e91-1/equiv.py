"""Equivalence check for refactoring 1: ceos_alos2.sar_image.io.read_metadata

Run as a script (`python equiv.py`) or with pytest. `python equiv.py --record` prints the
results of the code that is currently importable; EXPECTED below was recorded that way from
the UNCHANGED code (HEAD). The script passes with and without patch.diff applied.
"""
# ---------------------------------------------------------------------------------------
# shared helpers (copied verbatim into every equiv.py so that each script is self-contained)
# ---------------------------------------------------------------------------------------
import dataclasses
import datetime
import hashlib
import math
import pprint
import struct
import sys

import numpy as np
from construct import Struct as _Struct


def norm(obj):
    """Turn results into plain, deterministic, comparable structures (types are kept)."""
    from ceos_alos2.array import Array
    from ceos_alos2.hierarchy import Group, Variable

    if isinstance(obj, BaseException):
        cause = obj.__cause__
        context = obj.__context__
        return (
            "EXC",
            type(obj).__module__ + "." + type(obj).__qualname__,
            str(obj),
            None if cause is None else norm(cause),
            None if context is None else norm(context),
            obj.__suppress_context__,
        )
    if isinstance(obj, Group):
        return (
            "Group",
            obj.path,
            obj.url,
            [(k, norm(v)) for k, v in obj.data.items()],
            norm(obj.attrs),
        )
    if isinstance(obj, Variable):
        return ("Variable", norm(obj.dims), norm(obj.data), norm(obj.attrs))
    if isinstance(obj, Array):
        return (
            "Array",
            type(obj.fs).__name__,
            getattr(obj.fs, "path", None),
            obj.url,
            norm(obj.byte_ranges),
            norm(obj.shape),
            norm(obj.dtype),
            obj.type_code,
            norm(obj.records_per_chunk),
            norm(obj.chunk_offsets),
        )
    if isinstance(obj, np.ndarray):
        return ("ndarray", str(obj.dtype), obj.shape, norm(obj.tolist()))
    if isinstance(obj, np.generic):
        return ("npscalar", str(obj.dtype), norm(obj.item()))
    if isinstance(obj, np.dtype):
        return ("dtype", str(obj))
    if isinstance(obj, dict):
        return (type(obj).__name__, [(norm(k), norm(v)) for k, v in obj.items()])
    if isinstance(obj, (list, tuple)):
        return (type(obj).__name__, [norm(v) for v in obj])
    if isinstance(obj, (set, frozenset)):
        return (type(obj).__name__, sorted(norm(v) for v in obj))
    if isinstance(obj, float):
        return ("float", "nan" if math.isnan(obj) else repr(obj))
    if isinstance(obj, bool) or obj is None:
        return obj
    if isinstance(obj, (int, str, bytes, complex)):
        return (type(obj).__name__, obj)
    if isinstance(obj, (datetime.datetime, datetime.date)):
        return ("datetime", obj.isoformat())
    if dataclasses.is_dataclass(obj):
        return (type(obj).__name__, norm(dataclasses.asdict(obj)))
    return ("repr", type(obj).__name__, repr(obj))


def outcome(func, *args, **kwargs):
    """Result or exception of a call, normalized."""
    try:
        result = func(*args, **kwargs)
    except BaseException as e:  # noqa: B902
        return norm(e)
    return ("OK", norm(result))


class Recorder:
    """Collects named outcomes and compares them with the recorded ones."""

    def __init__(self):
        self.results = {}

    def add(self, name, value):
        assert name not in self.results, name
        text = repr(value)
        if len(text) > 500:
            # long results are compared through a digest (keep the script at a readable size)
            digest = hashlib.sha256(text.encode()).hexdigest()
            text = f"sha256:{digest} length:{len(text)} start:{text[:160]}"
        self.results[name] = text

    def finish(self, expected):
        if "--record" in sys.argv:
            pprint.pprint(self.results, width=100, sort_dicts=False)
            return 0

        missing = set(expected) ^ set(self.results)
        assert not missing, f"cases differ: {sorted(missing)}"
        failed = [name for name, value in self.results.items() if expected[name] != value]
        for name in failed:
            print(f"MISMATCH in {name}:\n  expected: {expected[name]}\n  actual:   {self.results[name]}")
        assert not failed, f"{len(failed)} of {len(expected)} cases differ"
        print(f"all {len(expected)} cases identical to the recorded behaviour")
        return 0


class LoggingFile:
    """File object wrapper that records every request made to the underlying file."""

    def __init__(self, f, log):
        self._f = f
        self._log = log

    def read(self, *args):
        position = self._f.tell()
        data = self._f.read(*args)
        self._log.append(("read", position, args, len(data)))
        return data

    def seek(self, *args):
        self._log.append(("seek", args))
        return self._f.seek(*args)

    def tell(self):
        return self._f.tell()

    def __enter__(self):
        self._log.append(("enter",))
        self._f.__enter__()
        return self

    def __exit__(self, *args):
        self._log.append(("exit", None if args[0] is None else args[0].__name__))
        return self._f.__exit__(*args)


# -- synthetic ALOS-2 image files --------------------------------------------------------


def _walk(struct_, prefix=()):
    """Yield (path, size) of the fixed-size leaves of a construct Struct, in order."""
    for sub in struct_.subcons:
        inner = sub
        while hasattr(inner, "subcon") and not isinstance(inner, _Struct):
            inner = inner.subcon
        if isinstance(inner, _Struct):
            try:
                inner.sizeof()
            except Exception:
                return
            yield from _walk(inner, prefix + (sub.name,))
            continue
        yield prefix + (sub.name,), sub.sizeof()


def field_offsets(struct_):
    offsets = {}
    position = 0
    for path, size in _walk(struct_):
        offsets[".".join(path)] = (position, size)
        position += size
    return offsets, position


def make_file_descriptor(**fields):
    """720 bytes of file descriptor: blank ASCII fields, except those given."""
    from ceos_alos2.sar_image.file_descriptor import file_descriptor_record

    offsets, total = field_offsets(file_descriptor_record)
    assert total == 720, total
    buffer = bytearray(b" " * 720)
    buffer[:12] = struct.pack(">IBBBBI", 1, 50, 192, 18, 18, 720)
    for name, value in fields.items():
        start, size = offsets[name]
        text = str(value).encode("ascii")
        assert len(text) <= size, (name, value)
        buffer[start : start + size] = text.rjust(size) if isinstance(value, int) else text.ljust(size)
    return bytes(buffer)


def make_data_record(kind, sequence_number, record_length, *, record_type=None, seed=0, **fields):
    """A signal (kind=10) or processed (kind=11) data record of `record_length` bytes."""
    from ceos_alos2.sar_image.processed_data import processed_data_record
    from ceos_alos2.sar_image.signal_data import signal_data_record

    record = {10: signal_data_record, 11: processed_data_record}[kind]
    offsets, header_size = field_offsets(record)
    assert record_length >= header_size, header_size

    header_rng = np.random.default_rng(seed)
    data_rng = np.random.default_rng(seed * 1000 + sequence_number)
    buffer = bytearray(record_length)
    # small big-endian numbers everywhere, the same for all the records of a file
    for name, (start, size) in offsets.items():
        if "blanks" in name or name == "palsar_auxiliary_data":
            continue
        buffer[start + size - 1] = int(header_rng.integers(0, 4))
    n_data = record_length - header_size
    buffer[header_size:] = bytes(data_rng.integers(0, 256, n_data, dtype="uint8"))

    defaults = {
        "preamble.record_sequence_number": sequence_number,
        "preamble.first_record_subtype": 50,
        "preamble.record_type": kind if record_type is None else record_type,
        "preamble.second_record_subtype": 18,
        "preamble.third_record_subtype": 20,
        "preamble.record_length": record_length,
        "sar_image_data_line_number": sequence_number - 1,
        "sensor_acquisition_date.year": 2020,
        "sensor_acquisition_date.day_of_year": 123,
        "sensor_acquisition_date.milliseconds": 45_000_000 + 7 * sequence_number,
        "scan_id": 2,
    }
    if kind == 10:
        defaults["sensor_acquisition_date_microseconds"] = 45_000_000_000 + 7000 * sequence_number
    for name, value in (defaults | fields).items():
        start, size = offsets[name]
        buffer[start : start + size] = int(value).to_bytes(size, "big")
    return bytes(buffer), header_size


def make_image_file(kind, n_records, record_length, *, seed=0, descriptor=None, record_fields=None):
    descriptor_fields = {
        "number_of_sar_data_records": n_records,
        "sar_data_record_length": record_length,
        "sar_related_data_in_the_record.number_of_lines_per_dataset": n_records,
        "sar_related_data_in_the_record.number_of_data_groups_per_line": 4,
        "sar_related_data_in_the_record.interleaving_id": "BSQ",
        "prefix_suffix_data_locators.sar_data_format_type_code": "C*8" if kind == 10 else "IU2",
    } | (descriptor or {})
    records = [
        make_data_record(kind, index + 1, record_length, seed=seed, **(record_fields or {}))[0]
        for index in range(n_records)
    ]
    return make_file_descriptor(**descriptor_fields) + b"".join(records)


# ---------------------------------------------------------------------------------------
# the cases
# ---------------------------------------------------------------------------------------
import io as _stdio

import fsspec
from construct import Int8ub, Seek, Tell, this
from construct import Struct as CStruct


def _read(content, *args, patches=None, **kwargs):
    """read_metadata on in-memory bytes: outcome, requests made to the file, final position"""
    from ceos_alos2.sar_image import io

    log = []
    raw = _stdio.BytesIO(content)
    f = LoggingFile(raw, log)

    saved = {}
    for name, value in (patches or {}).items():
        saved[name] = getattr(io, name)
        setattr(io, name, value)
    try:
        result = outcome(io.read_metadata, f, *args, **kwargs)
    finally:
        for name, value in saved.items():
            setattr(io, name, value)
    return result, log, raw.tell()


def run(rec):
    from ceos_alos2.sar_image import io
    from ceos_alos2.sar_image.processed_data import processed_data_record
    from ceos_alos2.sar_image.signal_data import signal_data_record

    processed_header = field_offsets(processed_data_record)[1]
    signal_header = field_offsets(signal_data_record)[1]

    # --- real records, all the ways of splitting them into chunks -------------------------
    for kind, header_size in ((11, processed_header), (10, signal_header)):
        for n_records in (0, 1, 2, 3, 5):
            content = make_image_file(kind, n_records, header_size + 24, seed=kind + n_records)
            for rpc in (1, 2, 3, 4, 5, 6, 1024):
                rec.add(f"real-{kind}-n{n_records}-rpc{rpc}", _read(content, rpc))
            rec.add(f"real-{kind}-n{n_records}-default", _read(content))
            rec.add(f"real-{kind}-n{n_records}-kw", _read(content, records_per_chunk=2))

    # data-less records (the record is only the header)
    content = make_image_file(11, 3, processed_header)
    rec.add("real-no-data", _read(content, 2))

    # --- unusual chunk sizes -------------------------------------------------------------
    content = make_image_file(11, 3, processed_header + 8, seed=3)
    for rpc in (None, 0, -1, -2, 1.5, 2.0, 3.0, 0.5, "2", True, float("inf"), float("nan")):
        rec.add(f"odd-rpc-{rpc!r}", _read(content, rpc))

    # --- broken files --------------------------------------------------------------------
    rec.add("short-descriptor", _read(content[:300], 2))
    rec.add("empty-file", _read(b"", 2))
    rec.add("descriptor-only", _read(content[:720], 2))
    for cut in (1, 8, processed_header + 8, processed_header + 9, 2 * (processed_header + 8)):
        rec.add(f"truncated-{cut}-rpc2", _read(content[:-cut], 2))
        rec.add(f"truncated-{cut}-rpc1", _read(content[:-cut], 1))
        rec.add(f"truncated-{cut}-rpc3", _read(content[:-cut], 3))

    # more records announced than present, fewer than present, blank counts (decoded as -1)
    length = processed_header + 8
    records = make_image_file(11, 4, length, seed=5)[720:]
    for announced in (6, 2, 0):
        descriptor = make_file_descriptor(
            number_of_sar_data_records=announced, sar_data_record_length=length
        )
        rec.add(f"announced-{announced}-of-4", _read(descriptor + records, 3))
    rec.add("blank-counts", _read(make_file_descriptor() + records, 3))
    rec.add(
        "blank-length",
        _read(make_file_descriptor(number_of_sar_data_records=4) + records, 3),
    )
    rec.add(
        "zero-length",
        _read(
            make_file_descriptor(number_of_sar_data_records=4, sar_data_record_length=0) + records,
            3,
        ),
    )
    rec.add(
        "wrong-length",
        _read(
            make_file_descriptor(number_of_sar_data_records=4, sar_data_record_length=length + 1)
            + records,
            3,
        ),
    )

    # unknown record type: in the first record of the first / of the second chunk
    good = [make_data_record(11, i + 1, length, seed=9)[0] for i in range(4)]
    bad = make_data_record(11, 3, length, seed=9, record_type=12)[0]
    descriptor = make_file_descriptor(number_of_sar_data_records=4, sar_data_record_length=length)
    rec.add("unknown-type-chunk2", _read(descriptor + b"".join(good[:2] + [bad] + good[3:]), 2))
    rec.add("unknown-type-chunk1", _read(descriptor + bad + b"".join(good[1:]), 2))
    # only the first record of a chunk decides
    rec.add("unknown-type-inside", _read(descriptor + b"".join(good[:1] + [bad] + good[2:]), 2))
    # mixed record types: the chunk is parsed with the type of its first record
    signal = make_data_record(10, 3, signal_header + 8, seed=9)[0]
    descriptor2 = make_file_descriptor(
        number_of_sar_data_records=2, sar_data_record_length=signal_header + 8
    )
    rec.add("signal-as-processed", _read(descriptor2 + signal + signal, 1))

    # --- the dummy records of the test suite, and the order of the calls ------------------
    dummy_header = {"number_of_sar_data_records": 3, "sar_data_record_length": 17}
    dummy_content = (
        b"\x03\x0E"
        + b"\x00\x00\x00\x01\x00\x0B\x00\x00\x00\x00\x00\x11\x03\x00\x00\x00\x00"
        + b"\x00\x00\x00\x02\x00\x0B\x00\x00\x00\x00\x00\x11\x04\x00\x00\x00\x00"
        + b"\x00\x00\x00\x03\x00\x0B\x00\x00\x00\x00\x00\x11\x05\x00\x00\x00\x00"
    )
    dummy_record_types = {
        11: CStruct(
            "preamble" / io.record_preamble,
            "record_start" / Tell,
            "a" / Int8ub,
            "data" / CStruct("start" / Tell, "stop" / Seek(this.start + 4)),
        ),
    }

    def dummy_read_file_descriptor(f):
        f.read(2)

        return dummy_header

    for rpc in (1, 2, 3, 5):
        rec.add(
            f"dummy-rpc{rpc}",
            _read(
                dummy_content,
                rpc,
                patches={
                    "read_file_descriptor": dummy_read_file_descriptor,
                    "record_types": dummy_record_types,
                },
            ),
        )

    for missing in ("number_of_sar_data_records", "sar_data_record_length"):
        header = {k: v for k, v in dummy_header.items() if k != missing}

        def broken_descriptor(f, header=header):
            f.read(2)

            return header

        rec.add(
            f"dummy-missing-{missing}",
            _read(dummy_content, 2, patches={"read_file_descriptor": broken_descriptor}),
        )

    # the helpers are looked up in the module when they are needed, and called in this order
    content = make_image_file(11, 5, processed_header + 8, seed=21)
    for rpc in (2, 5, 7):
        log_ = []
        original_parse_chunk = io.parse_chunk
        original_adjust_offsets = io.adjust_offsets
        original_to_dict = io.to_dict

        def parse_chunk(content, element_size):
            log_.append(("parse_chunk", len(content), element_size))
            return original_parse_chunk(content, element_size)

        def adjust_offsets(records, offset):
            log_.append(("adjust_offsets", len(records), offset, records[0].record_start))
            return original_adjust_offsets(records, offset)

        def to_dict(container):
            log_.append(("to_dict", type(container).__name__, len(container)))
            return original_to_dict(container)

        raw = _stdio.BytesIO(content)
        f = LoggingFile(raw, log_)
        io.parse_chunk, io.adjust_offsets, io.to_dict = parse_chunk, adjust_offsets, to_dict
        try:
            result = outcome(io.read_metadata, f, rpc)
        finally:
            io.parse_chunk = original_parse_chunk
            io.adjust_offsets = original_adjust_offsets
            io.to_dict = original_to_dict
        rec.add(f"call-order-rpc{rpc}", (result, log_))

    # a failing chunk: nothing is requested after it
    def failing_parse_chunk(content, element_size, state={"n": 0}):
        state["n"] += 1
        if state["n"] == 2:
            raise RuntimeError("second chunk")
        return io_parse_chunk(content, element_size)

    io_parse_chunk = io.parse_chunk
    rec.add("failing-chunk", _read(content, 2, patches={"parse_chunk": failing_parse_chunk}))

    # --- the memory file system, as used by the test suite -------------------------------
    mapper = fsspec.get_mapper("memory://equiv1")
    mapper["image"] = make_image_file(10, 3, signal_header + 16, seed=4)
    with mapper.fs.open("equiv1/image", mode="rb") as f:
        rec.add("memory-fs", (outcome(io.read_metadata, f, 2), f.tell()))

    # --- read_file_descriptor --------------------------------------------------------------
    for size in (0, 719, 720, 800):
        log = []
        raw = _stdio.BytesIO(content[:size])
        result = outcome(io.read_file_descriptor, LoggingFile(raw, log))
        if result[0] == "OK":
            result = ("OK", outcome(io.to_dict, io.read_file_descriptor(_stdio.BytesIO(content))))
        rec.add(f"read_file_descriptor-{size}", (result, log, raw.tell()))

    # --- public names -------------------------------------------------------------------
    import inspect

    rec.add(
        "names",
        sorted(
            name
            for name in (
                "parse_chunk adjust_offsets read_file_descriptor read_metadata record_types concat"
                " record_preamble file_descriptor_record to_dict itertools math"
            ).split()
            if hasattr(io, name)
        ),
    )
    rec.add(
        "signatures",
        [
            (name, [(p.name, str(p.kind), repr(p.default)) for p in
                    inspect.signature(getattr(io, name)).parameters.values()])
            for name in ("parse_chunk", "adjust_offsets", "read_file_descriptor", "read_metadata")
        ],
    )


# recorded with the UNCHANGED code (python equiv.py --record)
EXPECTED = {'real-11-n0-rpc1': 'sha256:92bfe070c0779e1129b402ce02f3de0dbf180e1b15935a02f3e4647902dbb9b8 '
                    "length:4096 start:(('OK', ('tuple', [('dict', [(('str', 'preamble'), ('dict', "
                    "[(('str', 'record_sequence_number'), ('int', 1)), (('str', "
                    "'first_record_subtype'), ('int', 50)), ((",
 'real-11-n0-rpc2': 'sha256:92bfe070c0779e1129b402ce02f3de0dbf180e1b15935a02f3e4647902dbb9b8 '
                    "length:4096 start:(('OK', ('tuple', [('dict', [(('str', 'preamble'), ('dict', "
                    "[(('str', 'record_sequence_number'), ('int', 1)), (('str', "
                    "'first_record_subtype'), ('int', 50)), ((",
 'real-11-n0-rpc3': 'sha256:92bfe070c0779e1129b402ce02f3de0dbf180e1b15935a02f3e4647902dbb9b8 '
                    "length:4096 start:(('OK', ('tuple', [('dict', [(('str', 'preamble'), ('dict', "
                    "[(('str', 'record_sequence_number'), ('int', 1)), (('str', "
                    "'first_record_subtype'), ('int', 50)), ((",
 'real-11-n0-rpc4': 'sha256:92bfe070c0779e1129b402ce02f3de0dbf180e1b15935a02f3e4647902dbb9b8 '
                    "length:4096 start:(('OK', ('tuple', [('dict', [(('str', 'preamble'), ('dict', "
                    "[(('str', 'record_sequence_number'), ('int', 1)), (('str', "
                    "'first_record_subtype'), ('int', 50)), ((",
 'real-11-n0-rpc5': 'sha256:92bfe070c0779e1129b402ce02f3de0dbf180e1b15935a02f3e4647902dbb9b8 '
                    "length:4096 start:(('OK', ('tuple', [('dict', [(('str', 'preamble'), ('dict', "
                    "[(('str', 'record_sequence_number'), ('int', 1)), (('str', "
                    "'first_record_subtype'), ('int', 50)), ((",
 'real-11-n0-rpc6': 'sha256:92bfe070c0779e1129b402ce02f3de0dbf180e1b15935a02f3e4647902dbb9b8 '
                    "length:4096 start:(('OK', ('tuple', [('dict', [(('str', 'preamble'), ('dict', "
                    "[(('str', 'record_sequence_number'), ('int', 1)), (('str', "
                    "'first_record_subtype'), ('int', 50)), ((",
 'real-11-n0-rpc1024': 'sha256:92bfe070c0779e1129b402ce02f3de0dbf180e1b15935a02f3e4647902dbb9b8 '
                       "length:4096 start:(('OK', ('tuple', [('dict', [(('str', 'preamble'), "
                       "('dict', [(('str', 'record_sequence_number'), ('int', 1)), (('str', "
                       "'first_record_subtype'), ('int', 50)), ((",
 'real-11-n0-default': 'sha256:92bfe070c0779e1129b402ce02f3de0dbf180e1b15935a02f3e4647902dbb9b8 '
                       "length:4096 start:(('OK', ('tuple', [('dict', [(('str', 'preamble'), "
                       "('dict', [(('str', 'record_sequence_number'), ('int', 1)), (('str', "
                       "'first_record_subtype'), ('int', 50)), ((",
 'real-11-n0-kw': 'sha256:92bfe070c0779e1129b402ce02f3de0dbf180e1b15935a02f3e4647902dbb9b8 '
                  "length:4096 start:(('OK', ('tuple', [('dict', [(('str', 'preamble'), ('dict', "
                  "[(('str', 'record_sequence_number'), ('int', 1)), (('str', "
                  "'first_record_subtype'), ('int', 50)), ((",
 'real-11-n1-rpc1': 'sha256:0becee59d1e0ffe33bf2de63195e79a3d38c4661f09371d7ea130369424f4afa '
                    "length:8166 start:(('OK', ('tuple', [('dict', [(('str', 'preamble'), ('dict', "
                    "[(('str', 'record_sequence_number'), ('int', 1)), (('str', "
                    "'first_record_subtype'), ('int', 50)), ((",
 'real-11-n1-rpc2': 'sha256:0becee59d1e0ffe33bf2de63195e79a3d38c4661f09371d7ea130369424f4afa '
                    "length:8166 start:(('OK', ('tuple', [('dict', [(('str', 'preamble'), ('dict', "
                    "[(('str', 'record_sequence_number'), ('int', 1)), (('str', "
                    "'first_record_subtype'), ('int', 50)), ((",
 'real-11-n1-rpc3': 'sha256:0becee59d1e0ffe33bf2de63195e79a3d38c4661f09371d7ea130369424f4afa '
                    "length:8166 start:(('OK', ('tuple', [('dict', [(('str', 'preamble'), ('dict', "
                    "[(('str', 'record_sequence_number'), ('int', 1)), (('str', "
                    "'first_record_subtype'), ('int', 50)), ((",
 'real-11-n1-rpc4': 'sha256:0becee59d1e0ffe33bf2de63195e79a3d38c4661f09371d7ea130369424f4afa '
                    "length:8166 start:(('OK', ('tuple', [('dict', [(('str', 'preamble'), ('dict', "
                    "[(('str', 'record_sequence_number'), ('int', 1)), (('str', "
                    "'first_record_subtype'), ('int', 50)), ((",
 'real-11-n1-rpc5': 'sha256:0becee59d1e0ffe33bf2de63195e79a3d38c4661f09371d7ea130369424f4afa '
                    "length:8166 start:(('OK', ('tuple', [('dict', [(('str', 'preamble'), ('dict', "
                    "[(('str', 'record_sequence_number'), ('int', 1)), (('str', "
                    "'first_record_subtype'), ('int', 50)), ((",
 'real-11-n1-rpc6': 'sha256:0becee59d1e0ffe33bf2de63195e79a3d38c4661f09371d7ea130369424f4afa '
                    "length:8166 start:(('OK', ('tuple', [('dict', [(('str', 'preamble'), ('dict', "
                    "[(('str', 'record_sequence_number'), ('int', 1)), (('str', "
                    "'first_record_subtype'), ('int', 50)), ((",
 'real-11-n1-rpc1024': 'sha256:0becee59d1e0ffe33bf2de63195e79a3d38c4661f09371d7ea130369424f4afa '
                       "length:8166 start:(('OK', ('tuple', [('dict', [(('str', 'preamble'), "
                       "('dict', [(('str', 'record_sequence_number'), ('int', 1)), (('str', "
                       "'first_record_subtype'), ('int', 50)), ((",
 'real-11-n1-default': 'sha256:0becee59d1e0ffe33bf2de63195e79a3d38c4661f09371d7ea130369424f4afa '
                       "length:8166 start:(('OK', ('tuple', [('dict', [(('str', 'preamble'), "
                       "('dict', [(('str', 'record_sequence_number'), ('int', 1)), (('str', "
                       "'first_record_subtype'), ('int', 50)), ((",
 'real-11-n1-kw': 'sha256:0becee59d1e0ffe33bf2de63195e79a3d38c4661f09371d7ea130369424f4afa '
                  "length:8166 start:(('OK', ('tuple', [('dict', [(('str', 'preamble'), ('dict', "
                  "[(('str', 'record_sequence_number'), ('int', 1)), (('str', "
                  "'first_record_subtype'), ('int', 50)), ((",
 'real-11-n2-rpc1': 'sha256:e20621cbe8f0ab4186a482c0a29cde8019d54c3fbe4507e3adf166abc2c31f87 '
                    "length:12249 start:(('OK', ('tuple', [('dict', [(('str', 'preamble'), "
                    "('dict', [(('str', 'record_sequence_number'), ('int', 1)), (('str', "
                    "'first_record_subtype'), ('int', 50)), ((",
 'real-11-n2-rpc2': 'sha256:d5e189271a58c469abe54bedf394bf19ce69018022da9402ee10180d62992487 '
                    "length:12221 start:(('OK', ('tuple', [('dict', [(('str', 'preamble'), "
                    "('dict', [(('str', 'record_sequence_number'), ('int', 1)), (('str', "
                    "'first_record_subtype'), ('int', 50)), ((",
 'real-11-n2-rpc3': 'sha256:d5e189271a58c469abe54bedf394bf19ce69018022da9402ee10180d62992487 '
                    "length:12221 start:(('OK', ('tuple', [('dict', [(('str', 'preamble'), "
                    "('dict', [(('str', 'record_sequence_number'), ('int', 1)), (('str', "
                    "'first_record_subtype'), ('int', 50)), ((",
 'real-11-n2-rpc4': 'sha256:d5e189271a58c469abe54bedf394bf19ce69018022da9402ee10180d62992487 '
                    "length:12221 start:(('OK', ('tuple', [('dict', [(('str', 'preamble'), "
                    "('dict', [(('str', 'record_sequence_number'), ('int', 1)), (('str', "
                    "'first_record_subtype'), ('int', 50)), ((",
 'real-11-n2-rpc5': 'sha256:d5e189271a58c469abe54bedf394bf19ce69018022da9402ee10180d62992487 '
                    "length:12221 start:(('OK', ('tuple', [('dict', [(('str', 'preamble'), "
                    "('dict', [(('str', 'record_sequence_number'), ('int', 1)), (('str', "
                    "'first_record_subtype'), ('int', 50)), ((",
 'real-11-n2-rpc6': 'sha256:d5e189271a58c469abe54bedf394bf19ce69018022da9402ee10180d62992487 '
                    "length:12221 start:(('OK', ('tuple', [('dict', [(('str', 'preamble'), "
                    "('dict', [(('str', 'record_sequence_number'), ('int', 1)), (('str', "
                    "'first_record_subtype'), ('int', 50)), ((",
 'real-11-n2-rpc1024': 'sha256:d5e189271a58c469abe54bedf394bf19ce69018022da9402ee10180d62992487 '
                       "length:12221 start:(('OK', ('tuple', [('dict', [(('str', 'preamble'), "
                       "('dict', [(('str', 'record_sequence_number'), ('int', 1)), (('str', "
                       "'first_record_subtype'), ('int', 50)), ((",
 'real-11-n2-default': 'sha256:d5e189271a58c469abe54bedf394bf19ce69018022da9402ee10180d62992487 '
                       "length:12221 start:(('OK', ('tuple', [('dict', [(('str', 'preamble'), "
                       "('dict', [(('str', 'record_sequence_number'), ('int', 1)), (('str', "
                       "'first_record_subtype'), ('int', 50)), ((",
 'real-11-n2-kw': 'sha256:d5e189271a58c469abe54bedf394bf19ce69018022da9402ee10180d62992487 '
                  "length:12221 start:(('OK', ('tuple', [('dict', [(('str', 'preamble'), ('dict', "
                  "[(('str', 'record_sequence_number'), ('int', 1)), (('str', "
                  "'first_record_subtype'), ('int', 50)), ((",
 'real-11-n3-rpc1': 'sha256:ca0d77ea06884deb85a9901bd2dacde0675e2f0058c3f025ac23936ac44122c1 '
                    "length:16326 start:(('OK', ('tuple', [('dict', [(('str', 'preamble'), "
                    "('dict', [(('str', 'record_sequence_number'), ('int', 1)), (('str', "
                    "'first_record_subtype'), ('int', 50)), ((",
 'real-11-n3-rpc2': 'sha256:54623465c8ddd23763c91dfe914652c5c4652d9e5b3c1d9b0bb2dcc896ca236e '
                    "length:16298 start:(('OK', ('tuple', [('dict', [(('str', 'preamble'), "
                    "('dict', [(('str', 'record_sequence_number'), ('int', 1)), (('str', "
                    "'first_record_subtype'), ('int', 50)), ((",
 'real-11-n3-rpc3': 'sha256:0c9227bc01e4479e0d593ad01775a64be735fc204ea3198aa5682950eb3041c4 '
                    "length:16269 start:(('OK', ('tuple', [('dict', [(('str', 'preamble'), "
                    "('dict', [(('str', 'record_sequence_number'), ('int', 1)), (('str', "
                    "'first_record_subtype'), ('int', 50)), ((",
 'real-11-n3-rpc4': 'sha256:0c9227bc01e4479e0d593ad01775a64be735fc204ea3198aa5682950eb3041c4 '
                    "length:16269 start:(('OK', ('tuple', [('dict', [(('str', 'preamble'), "
                    "('dict', [(('str', 'record_sequence_number'), ('int', 1)), (('str', "
                    "'first_record_subtype'), ('int', 50)), ((",
 'real-11-n3-rpc5': 'sha256:0c9227bc01e4479e0d593ad01775a64be735fc204ea3198aa5682950eb3041c4 '
                    "length:16269 start:(('OK', ('tuple', [('dict', [(('str', 'preamble'), "
                    "('dict', [(('str', 'record_sequence_number'), ('int', 1)), (('str', "
                    "'first_record_subtype'), ('int', 50)), ((",
 'real-11-n3-rpc6': 'sha256:0c9227bc01e4479e0d593ad01775a64be735fc204ea3198aa5682950eb3041c4 '
                    "length:16269 start:(('OK', ('tuple', [('dict', [(('str', 'preamble'), "
                    "('dict', [(('str', 'record_sequence_number'), ('int', 1)), (('str', "
                    "'first_record_subtype'), ('int', 50)), ((",
 'real-11-n3-rpc1024': 'sha256:0c9227bc01e4479e0d593ad01775a64be735fc204ea3198aa5682950eb3041c4 '
                       "length:16269 start:(('OK', ('tuple', [('dict', [(('str', 'preamble'), "
                       "('dict', [(('str', 'record_sequence_number'), ('int', 1)), (('str', "
                       "'first_record_subtype'), ('int', 50)), ((",
 'real-11-n3-default': 'sha256:0c9227bc01e4479e0d593ad01775a64be735fc204ea3198aa5682950eb3041c4 '
                       "length:16269 start:(('OK', ('tuple', [('dict', [(('str', 'preamble'), "
                       "('dict', [(('str', 'record_sequence_number'), ('int', 1)), (('str', "
                       "'first_record_subtype'), ('int', 50)), ((",
 'real-11-n3-kw': 'sha256:54623465c8ddd23763c91dfe914652c5c4652d9e5b3c1d9b0bb2dcc896ca236e '
                  "length:16298 start:(('OK', ('tuple', [('dict', [(('str', 'preamble'), ('dict', "
                  "[(('str', 'record_sequence_number'), ('int', 1)), (('str', "
                  "'first_record_subtype'), ('int', 50)), ((",
 'real-11-n5-rpc1': 'sha256:09f798f661a06912eb3b696e5e16ef7b9381a6bc6556fdcaa599afcf776a3ecd '
                    "length:24469 start:(('OK', ('tuple', [('dict', [(('str', 'preamble'), "
                    "('dict', [(('str', 'record_sequence_number'), ('int', 1)), (('str', "
                    "'first_record_subtype'), ('int', 50)), ((",
 'real-11-n5-rpc2': 'sha256:280c2a82da8ef7b16682e8a39e784758a29f4f10e3849715125dc298dcc2fcd1 '
                    "length:24412 start:(('OK', ('tuple', [('dict', [(('str', 'preamble'), "
                    "('dict', [(('str', 'record_sequence_number'), ('int', 1)), (('str', "
                    "'first_record_subtype'), ('int', 50)), ((",
 'real-11-n5-rpc3': 'sha256:1f47579bcaffd71ad033a21f47faefdcb20c0e0659722d538f6f886656c12822 '
                    "length:24383 start:(('OK', ('tuple', [('dict', [(('str', 'preamble'), "
                    "('dict', [(('str', 'record_sequence_number'), ('int', 1)), (('str', "
                    "'first_record_subtype'), ('int', 50)), ((",
 'real-11-n5-rpc4': 'sha256:0ea9ea7b6b3f0f3f3b96e013dacfba4cd6aa5c5d59f4edee209bbb26861583e8 '
                    "length:24383 start:(('OK', ('tuple', [('dict', [(('str', 'preamble'), "
                    "('dict', [(('str', 'record_sequence_number'), ('int', 1)), (('str', "
                    "'first_record_subtype'), ('int', 50)), ((",
 'real-11-n5-rpc5': 'sha256:8b551470365fbb3db0c2c59e00dd0c20c022375ee9914bb7cae6f5a83793b408 '
                    "length:24356 start:(('OK', ('tuple', [('dict', [(('str', 'preamble'), "
                    "('dict', [(('str', 'record_sequence_number'), ('int', 1)), (('str', "
                    "'first_record_subtype'), ('int', 50)), ((",
 'real-11-n5-rpc6': 'sha256:8b551470365fbb3db0c2c59e00dd0c20c022375ee9914bb7cae6f5a83793b408 '
                    "length:24356 start:(('OK', ('tuple', [('dict', [(('str', 'preamble'), "
                    "('dict', [(('str', 'record_sequence_number'), ('int', 1)), (('str', "
                    "'first_record_subtype'), ('int', 50)), ((",
 'real-11-n5-rpc1024': 'sha256:8b551470365fbb3db0c2c59e00dd0c20c022375ee9914bb7cae6f5a83793b408 '
                       "length:24356 start:(('OK', ('tuple', [('dict', [(('str', 'preamble'), "
                       "('dict', [(('str', 'record_sequence_number'), ('int', 1)), (('str', "
                       "'first_record_subtype'), ('int', 50)), ((",
 'real-11-n5-default': 'sha256:8b551470365fbb3db0c2c59e00dd0c20c022375ee9914bb7cae6f5a83793b408 '
                       "length:24356 start:(('OK', ('tuple', [('dict', [(('str', 'preamble'), "
                       "('dict', [(('str', 'record_sequence_number'), ('int', 1)), (('str', "
                       "'first_record_subtype'), ('int', 50)), ((",
 'real-11-n5-kw': 'sha256:280c2a82da8ef7b16682e8a39e784758a29f4f10e3849715125dc298dcc2fcd1 '
                  "length:24412 start:(('OK', ('tuple', [('dict', [(('str', 'preamble'), ('dict', "
                  "[(('str', 'record_sequence_number'), ('int', 1)), (('str', "
                  "'first_record_subtype'), ('int', 50)), ((",
 'real-10-n0-rpc1': 'sha256:f34e4d2a6436d6d87adfbe9489e5b5a673289e7fef5c1f1aaae45e6d66ae273c '
                    "length:4096 start:(('OK', ('tuple', [('dict', [(('str', 'preamble'), ('dict', "
                    "[(('str', 'record_sequence_number'), ('int', 1)), (('str', "
                    "'first_record_subtype'), ('int', 50)), ((",
 'real-10-n0-rpc2': 'sha256:f34e4d2a6436d6d87adfbe9489e5b5a673289e7fef5c1f1aaae45e6d66ae273c '
                    "length:4096 start:(('OK', ('tuple', [('dict', [(('str', 'preamble'), ('dict', "
                    "[(('str', 'record_sequence_number'), ('int', 1)), (('str', "
                    "'first_record_subtype'), ('int', 50)), ((",
 'real-10-n0-rpc3': 'sha256:f34e4d2a6436d6d87adfbe9489e5b5a673289e7fef5c1f1aaae45e6d66ae273c '
                    "length:4096 start:(('OK', ('tuple', [('dict', [(('str', 'preamble'), ('dict', "
                    "[(('str', 'record_sequence_number'), ('int', 1)), (('str', "
                    "'first_record_subtype'), ('int', 50)), ((",
 'real-10-n0-rpc4': 'sha256:f34e4d2a6436d6d87adfbe9489e5b5a673289e7fef5c1f1aaae45e6d66ae273c '
                    "length:4096 start:(('OK', ('tuple', [('dict', [(('str', 'preamble'), ('dict', "
                    "[(('str', 'record_sequence_number'), ('int', 1)), (('str', "
                    "'first_record_subtype'), ('int', 50)), ((",
 'real-10-n0-rpc5': 'sha256:f34e4d2a6436d6d87adfbe9489e5b5a673289e7fef5c1f1aaae45e6d66ae273c '
                    "length:4096 start:(('OK', ('tuple', [('dict', [(('str', 'preamble'), ('dict', "
                    "[(('str', 'record_sequence_number'), ('int', 1)), (('str', "
                    "'first_record_subtype'), ('int', 50)), ((",
 'real-10-n0-rpc6': 'sha256:f34e4d2a6436d6d87adfbe9489e5b5a673289e7fef5c1f1aaae45e6d66ae273c '
                    "length:4096 start:(('OK', ('tuple', [('dict', [(('str', 'preamble'), ('dict', "
                    "[(('str', 'record_sequence_number'), ('int', 1)), (('str', "
                    "'first_record_subtype'), ('int', 50)), ((",
 'real-10-n0-rpc1024': 'sha256:f34e4d2a6436d6d87adfbe9489e5b5a673289e7fef5c1f1aaae45e6d66ae273c '
                       "length:4096 start:(('OK', ('tuple', [('dict', [(('str', 'preamble'), "
                       "('dict', [(('str', 'record_sequence_number'), ('int', 1)), (('str', "
                       "'first_record_subtype'), ('int', 50)), ((",
 'real-10-n0-default': 'sha256:f34e4d2a6436d6d87adfbe9489e5b5a673289e7fef5c1f1aaae45e6d66ae273c '
                       "length:4096 start:(('OK', ('tuple', [('dict', [(('str', 'preamble'), "
                       "('dict', [(('str', 'record_sequence_number'), ('int', 1)), (('str', "
                       "'first_record_subtype'), ('int', 50)), ((",
 'real-10-n0-kw': 'sha256:f34e4d2a6436d6d87adfbe9489e5b5a673289e7fef5c1f1aaae45e6d66ae273c '
                  "length:4096 start:(('OK', ('tuple', [('dict', [(('str', 'preamble'), ('dict', "
                  "[(('str', 'record_sequence_number'), ('int', 1)), (('str', "
                  "'first_record_subtype'), ('int', 50)), ((",
 'real-10-n1-rpc1': 'sha256:9bec9475178d609c9eadabe59b921dff70114453d16c8063900a5c78be96daa4 '
                    "length:9607 start:(('OK', ('tuple', [('dict', [(('str', 'preamble'), ('dict', "
                    "[(('str', 'record_sequence_number'), ('int', 1)), (('str', "
                    "'first_record_subtype'), ('int', 50)), ((",
 'real-10-n1-rpc2': 'sha256:9bec9475178d609c9eadabe59b921dff70114453d16c8063900a5c78be96daa4 '
                    "length:9607 start:(('OK', ('tuple', [('dict', [(('str', 'preamble'), ('dict', "
                    "[(('str', 'record_sequence_number'), ('int', 1)), (('str', "
                    "'first_record_subtype'), ('int', 50)), ((",
 'real-10-n1-rpc3': 'sha256:9bec9475178d609c9eadabe59b921dff70114453d16c8063900a5c78be96daa4 '
                    "length:9607 start:(('OK', ('tuple', [('dict', [(('str', 'preamble'), ('dict', "
                    "[(('str', 'record_sequence_number'), ('int', 1)), (('str', "
                    "'first_record_subtype'), ('int', 50)), ((",
 'real-10-n1-rpc4': 'sha256:9bec9475178d609c9eadabe59b921dff70114453d16c8063900a5c78be96daa4 '
                    "length:9607 start:(('OK', ('tuple', [('dict', [(('str', 'preamble'), ('dict', "
                    "[(('str', 'record_sequence_number'), ('int', 1)), (('str', "
                    "'first_record_subtype'), ('int', 50)), ((",
 'real-10-n1-rpc5': 'sha256:9bec9475178d609c9eadabe59b921dff70114453d16c8063900a5c78be96daa4 '
                    "length:9607 start:(('OK', ('tuple', [('dict', [(('str', 'preamble'), ('dict', "
                    "[(('str', 'record_sequence_number'), ('int', 1)), (('str', "
                    "'first_record_subtype'), ('int', 50)), ((",
 'real-10-n1-rpc6': 'sha256:9bec9475178d609c9eadabe59b921dff70114453d16c8063900a5c78be96daa4 '
                    "length:9607 start:(('OK', ('tuple', [('dict', [(('str', 'preamble'), ('dict', "
                    "[(('str', 'record_sequence_number'), ('int', 1)), (('str', "
                    "'first_record_subtype'), ('int', 50)), ((",
 'real-10-n1-rpc1024': 'sha256:9bec9475178d609c9eadabe59b921dff70114453d16c8063900a5c78be96daa4 '
                       "length:9607 start:(('OK', ('tuple', [('dict', [(('str', 'preamble'), "
                       "('dict', [(('str', 'record_sequence_number'), ('int', 1)), (('str', "
                       "'first_record_subtype'), ('int', 50)), ((",
 'real-10-n1-default': 'sha256:9bec9475178d609c9eadabe59b921dff70114453d16c8063900a5c78be96daa4 '
                       "length:9607 start:(('OK', ('tuple', [('dict', [(('str', 'preamble'), "
                       "('dict', [(('str', 'record_sequence_number'), ('int', 1)), (('str', "
                       "'first_record_subtype'), ('int', 50)), ((",
 'real-10-n1-kw': 'sha256:9bec9475178d609c9eadabe59b921dff70114453d16c8063900a5c78be96daa4 '
                  "length:9607 start:(('OK', ('tuple', [('dict', [(('str', 'preamble'), ('dict', "
                  "[(('str', 'record_sequence_number'), ('int', 1)), (('str', "
                  "'first_record_subtype'), ('int', 50)), ((",
 'real-10-n2-rpc1': 'sha256:3beab42745a9f6ac65e05b3ffedb6fb6583eae9347c070f8684d6e7f5548d606 '
                    "length:15111 start:(('OK', ('tuple', [('dict', [(('str', 'preamble'), "
                    "('dict', [(('str', 'record_sequence_number'), ('int', 1)), (('str', "
                    "'first_record_subtype'), ('int', 50)), ((",
 'real-10-n2-rpc2': 'sha256:ce26e5b4c2008d714f0b4646f65d7f5bc62f1eeab7f8c155f350a00b23f1608c '
                    "length:15084 start:(('OK', ('tuple', [('dict', [(('str', 'preamble'), "
                    "('dict', [(('str', 'record_sequence_number'), ('int', 1)), (('str', "
                    "'first_record_subtype'), ('int', 50)), ((",
 'real-10-n2-rpc3': 'sha256:ce26e5b4c2008d714f0b4646f65d7f5bc62f1eeab7f8c155f350a00b23f1608c '
                    "length:15084 start:(('OK', ('tuple', [('dict', [(('str', 'preamble'), "
                    "('dict', [(('str', 'record_sequence_number'), ('int', 1)), (('str', "
                    "'first_record_subtype'), ('int', 50)), ((",
 'real-10-n2-rpc4': 'sha256:ce26e5b4c2008d714f0b4646f65d7f5bc62f1eeab7f8c155f350a00b23f1608c '
                    "length:15084 start:(('OK', ('tuple', [('dict', [(('str', 'preamble'), "
                    "('dict', [(('str', 'record_sequence_number'), ('int', 1)), (('str', "
                    "'first_record_subtype'), ('int', 50)), ((",
 'real-10-n2-rpc5': 'sha256:ce26e5b4c2008d714f0b4646f65d7f5bc62f1eeab7f8c155f350a00b23f1608c '
                    "length:15084 start:(('OK', ('tuple', [('dict', [(('str', 'preamble'), "
                    "('dict', [(('str', 'record_sequence_number'), ('int', 1)), (('str', "
                    "'first_record_subtype'), ('int', 50)), ((",
 'real-10-n2-rpc6': 'sha256:ce26e5b4c2008d714f0b4646f65d7f5bc62f1eeab7f8c155f350a00b23f1608c '
                    "length:15084 start:(('OK', ('tuple', [('dict', [(('str', 'preamble'), "
                    "('dict', [(('str', 'record_sequence_number'), ('int', 1)), (('str', "
                    "'first_record_subtype'), ('int', 50)), ((",
 'real-10-n2-rpc1024': 'sha256:ce26e5b4c2008d714f0b4646f65d7f5bc62f1eeab7f8c155f350a00b23f1608c '
                       "length:15084 start:(('OK', ('tuple', [('dict', [(('str', 'preamble'), "
                       "('dict', [(('str', 'record_sequence_number'), ('int', 1)), (('str', "
                       "'first_record_subtype'), ('int', 50)), ((",
 'real-10-n2-default': 'sha256:ce26e5b4c2008d714f0b4646f65d7f5bc62f1eeab7f8c155f350a00b23f1608c '
                       "length:15084 start:(('OK', ('tuple', [('dict', [(('str', 'preamble'), "
                       "('dict', [(('str', 'record_sequence_number'), ('int', 1)), (('str', "
                       "'first_record_subtype'), ('int', 50)), ((",
 'real-10-n2-kw': 'sha256:ce26e5b4c2008d714f0b4646f65d7f5bc62f1eeab7f8c155f350a00b23f1608c '
                  "length:15084 start:(('OK', ('tuple', [('dict', [(('str', 'preamble'), ('dict', "
                  "[(('str', 'record_sequence_number'), ('int', 1)), (('str', "
                  "'first_record_subtype'), ('int', 50)), ((",
 'real-10-n3-rpc1': 'sha256:104001e0312b7e15aa7b6ed7b27005fa6b48d7e1739fbd4b2d8582e78e1aa0d6 '
                    "length:20641 start:(('OK', ('tuple', [('dict', [(('str', 'preamble'), "
                    "('dict', [(('str', 'record_sequence_number'), ('int', 1)), (('str', "
                    "'first_record_subtype'), ('int', 50)), ((",
 'real-10-n3-rpc2': 'sha256:c192983fcfd76178c934cad00b1b20ef39489b1fd930c976b5e4d3236933733c '
                    "length:20614 start:(('OK', ('tuple', [('dict', [(('str', 'preamble'), "
                    "('dict', [(('str', 'record_sequence_number'), ('int', 1)), (('str', "
                    "'first_record_subtype'), ('int', 50)), ((",
 'real-10-n3-rpc3': 'sha256:14dfea382ac662ab0ca65416860fc85601411ff4d3cc115adc4a054bee90eb7e '
                    "length:20585 start:(('OK', ('tuple', [('dict', [(('str', 'preamble'), "
                    "('dict', [(('str', 'record_sequence_number'), ('int', 1)), (('str', "
                    "'first_record_subtype'), ('int', 50)), ((",
 'real-10-n3-rpc4': 'sha256:14dfea382ac662ab0ca65416860fc85601411ff4d3cc115adc4a054bee90eb7e '
                    "length:20585 start:(('OK', ('tuple', [('dict', [(('str', 'preamble'), "
                    "('dict', [(('str', 'record_sequence_number'), ('int', 1)), (('str', "
                    "'first_record_subtype'), ('int', 50)), ((",
 'real-10-n3-rpc5': 'sha256:14dfea382ac662ab0ca65416860fc85601411ff4d3cc115adc4a054bee90eb7e '
                    "length:20585 start:(('OK', ('tuple', [('dict', [(('str', 'preamble'), "
                    "('dict', [(('str', 'record_sequence_number'), ('int', 1)), (('str', "
                    "'first_record_subtype'), ('int', 50)), ((",
 'real-10-n3-rpc6': 'sha256:14dfea382ac662ab0ca65416860fc85601411ff4d3cc115adc4a054bee90eb7e '
                    "length:20585 start:(('OK', ('tuple', [('dict', [(('str', 'preamble'), "
                    "('dict', [(('str', 'record_sequence_number'), ('int', 1)), (('str', "
                    "'first_record_subtype'), ('int', 50)), ((",
 'real-10-n3-rpc1024': 'sha256:14dfea382ac662ab0ca65416860fc85601411ff4d3cc115adc4a054bee90eb7e '
                       "length:20585 start:(('OK', ('tuple', [('dict', [(('str', 'preamble'), "
                       "('dict', [(('str', 'record_sequence_number'), ('int', 1)), (('str', "
                       "'first_record_subtype'), ('int', 50)), ((",
 'real-10-n3-default': 'sha256:14dfea382ac662ab0ca65416860fc85601411ff4d3cc115adc4a054bee90eb7e '
                       "length:20585 start:(('OK', ('tuple', [('dict', [(('str', 'preamble'), "
                       "('dict', [(('str', 'record_sequence_number'), ('int', 1)), (('str', "
                       "'first_record_subtype'), ('int', 50)), ((",
 'real-10-n3-kw': 'sha256:c192983fcfd76178c934cad00b1b20ef39489b1fd930c976b5e4d3236933733c '
                  "length:20614 start:(('OK', ('tuple', [('dict', [(('str', 'preamble'), ('dict', "
                  "[(('str', 'record_sequence_number'), ('int', 1)), (('str', "
                  "'first_record_subtype'), ('int', 50)), ((",
 'real-10-n5-rpc1': 'sha256:c330d8271cb1f9bb5981772c60ecb650cbbae69a30a2f900b30c65ad3f474a57 '
                    "length:31708 start:(('OK', ('tuple', [('dict', [(('str', 'preamble'), "
                    "('dict', [(('str', 'record_sequence_number'), ('int', 1)), (('str', "
                    "'first_record_subtype'), ('int', 50)), ((",
 'real-10-n5-rpc2': 'sha256:97ca0f0136e9b12fae236ad7834410a0ee82f7dd20dcac7f000b56498a408b10 '
                    "length:31654 start:(('OK', ('tuple', [('dict', [(('str', 'preamble'), "
                    "('dict', [(('str', 'record_sequence_number'), ('int', 1)), (('str', "
                    "'first_record_subtype'), ('int', 50)), ((",
 'real-10-n5-rpc3': 'sha256:3ad156c19dcd8c6e07f1a604c3bc9c9765ccfb001b1528a47ef3747a60a06f7d '
                    "length:31625 start:(('OK', ('tuple', [('dict', [(('str', 'preamble'), "
                    "('dict', [(('str', 'record_sequence_number'), ('int', 1)), (('str', "
                    "'first_record_subtype'), ('int', 50)), ((",
 'real-10-n5-rpc4': 'sha256:19e0b9cb569d5d49cff1d858f9c03e0c32b2ba9396d40edfa48c54099ecb8faf '
                    "length:31623 start:(('OK', ('tuple', [('dict', [(('str', 'preamble'), "
                    "('dict', [(('str', 'record_sequence_number'), ('int', 1)), (('str', "
                    "'first_record_subtype'), ('int', 50)), ((",
 'real-10-n5-rpc5': 'sha256:9245cb487e76f1a79bdcfbc7021dad6b5ab03f2bb601668cdb17b0d4996d073e '
                    "length:31594 start:(('OK', ('tuple', [('dict', [(('str', 'preamble'), "
                    "('dict', [(('str', 'record_sequence_number'), ('int', 1)), (('str', "
                    "'first_record_subtype'), ('int', 50)), ((",
 'real-10-n5-rpc6': 'sha256:9245cb487e76f1a79bdcfbc7021dad6b5ab03f2bb601668cdb17b0d4996d073e '
                    "length:31594 start:(('OK', ('tuple', [('dict', [(('str', 'preamble'), "
                    "('dict', [(('str', 'record_sequence_number'), ('int', 1)), (('str', "
                    "'first_record_subtype'), ('int', 50)), ((",
 'real-10-n5-rpc1024': 'sha256:9245cb487e76f1a79bdcfbc7021dad6b5ab03f2bb601668cdb17b0d4996d073e '
                       "length:31594 start:(('OK', ('tuple', [('dict', [(('str', 'preamble'), "
                       "('dict', [(('str', 'record_sequence_number'), ('int', 1)), (('str', "
                       "'first_record_subtype'), ('int', 50)), ((",
 'real-10-n5-default': 'sha256:9245cb487e76f1a79bdcfbc7021dad6b5ab03f2bb601668cdb17b0d4996d073e '
                       "length:31594 start:(('OK', ('tuple', [('dict', [(('str', 'preamble'), "
                       "('dict', [(('str', 'record_sequence_number'), ('int', 1)), (('str', "
                       "'first_record_subtype'), ('int', 50)), ((",
 'real-10-n5-kw': 'sha256:97ca0f0136e9b12fae236ad7834410a0ee82f7dd20dcac7f000b56498a408b10 '
                  "length:31654 start:(('OK', ('tuple', [('dict', [(('str', 'preamble'), ('dict', "
                  "[(('str', 'record_sequence_number'), ('int', 1)), (('str', "
                  "'first_record_subtype'), ('int', 50)), ((",
 'real-no-data': 'sha256:fc96fa6796f5dc025c09bbe848d6c1af649943fc5e9bb3a9448d7ff18416695e '
                 "length:16307 start:(('OK', ('tuple', [('dict', [(('str', 'preamble'), ('dict', "
                 "[(('str', 'record_sequence_number'), ('int', 1)), (('str', "
                 "'first_record_subtype'), ('int', 50)), ((",
 'odd-rpc-None': '((\'EXC\', \'builtins.TypeError\', "unsupported operand type(s) for /: \'int\' '
                 'and \'NoneType\'", None, None, False), [(\'read\', 0, (720,), 720)], 720)',
 'odd-rpc-0': "(('EXC', 'builtins.ZeroDivisionError', 'division by zero', None, None, False), "
              "[('read', 0, (720,), 720)], 720)",
 'odd-rpc--1': 'sha256:72632637009b66165b2d6ef8b82f2701fcbf3c7263236e0d15fc20f0ef1974ae '
               "length:4096 start:(('OK', ('tuple', [('dict', [(('str', 'preamble'), ('dict', "
               "[(('str', 'record_sequence_number'), ('int', 1)), (('str', "
               "'first_record_subtype'), ('int', 50)), ((",
 'odd-rpc--2': 'sha256:72632637009b66165b2d6ef8b82f2701fcbf3c7263236e0d15fc20f0ef1974ae '
               "length:4096 start:(('OK', ('tuple', [('dict', [(('str', 'preamble'), ('dict', "
               "[(('str', 'record_sequence_number'), ('int', 1)), (('str', "
               "'first_record_subtype'), ('int', 50)), ((",
 'odd-rpc-1.5': '((\'EXC\', \'builtins.TypeError\', "argument should be integer or None, not '
                '\'float\'", None, None, False), [(\'read\', 0, (720,), 720)], 720)',
 'odd-rpc-2.0': '((\'EXC\', \'builtins.TypeError\', "argument should be integer or None, not '
                '\'float\'", None, None, False), [(\'read\', 0, (720,), 720)], 720)',
 'odd-rpc-3.0': '((\'EXC\', \'builtins.TypeError\', "argument should be integer or None, not '
                '\'float\'", None, None, False), [(\'read\', 0, (720,), 720)], 720)',
 'odd-rpc-0.5': '((\'EXC\', \'builtins.TypeError\', "argument should be integer or None, not '
                '\'float\'", None, None, False), [(\'read\', 0, (720,), 720)], 720)',
 "odd-rpc-'2'": '((\'EXC\', \'builtins.TypeError\', "unsupported operand type(s) for /: \'int\' '
                'and \'str\'", None, None, False), [(\'read\', 0, (720,), 720)], 720)',
 'odd-rpc-True': 'sha256:772786ade85c7015a2e1515c11956e1fd71b089cbe3f84cb3fc3ede0a508930d '
                 "length:16377 start:(('OK', ('tuple', [('dict', [(('str', 'preamble'), ('dict', "
                 "[(('str', 'record_sequence_number'), ('int', 1)), (('str', "
                 "'first_record_subtype'), ('int', 50)), ((",
 'odd-rpc-inf': 'sha256:72632637009b66165b2d6ef8b82f2701fcbf3c7263236e0d15fc20f0ef1974ae '
                "length:4096 start:(('OK', ('tuple', [('dict', [(('str', 'preamble'), ('dict', "
                "[(('str', 'record_sequence_number'), ('int', 1)), (('str', "
                "'first_record_subtype'), ('int', 50)), ((",
 'odd-rpc-nan': "(('EXC', 'builtins.ValueError', 'cannot convert float NaN to integer', None, "
                "None, False), [('read', 0, (720,), 720)], 720)",
 'short-descriptor': "(('EXC', 'construct.core.StreamError', 'Error in path (parsing) -> "
                     'prefix_suffix_data_locators -> sample_data_line_number_locator\\nstream read '
                     "less than specified amount, expected 8, found 4', None, None, False), "
                     "[('read', 0, (720,), 300)], 300)",
 'empty-file': "(('EXC', 'construct.core.StreamError', 'Error in path (parsing) -> preamble -> "
               'record_sequence_number\\nstream read less than specified amount, expected 4, found '
               "0', None, None, False), [('read', 0, (720,), 0)], 0)",
 'descriptor-only': "(('EXC', 'construct.core.StreamError', 'Error in path (parsing) -> "
                    'record_sequence_number\\nstream read less than specified amount, expected 4, '
                    "found 0', None, None, False), [('read', 0, (720,), 720), ('read', 720, "
                    '(400,), 0)], 720)',
 'truncated-1-rpc2': "(('EXC', 'builtins.ValueError', 'sizes mismatch: chunksize is 0 but got 199 "
                     "bytes', None, None, False), [('read', 0, (720,), 720), ('read', 720, (400,), "
                     "400), ('read', 1120, (200,), 199)], 1319)",
 'truncated-1-rpc1': "(('EXC', 'builtins.ValueError', 'sizes mismatch: chunksize is 0 but got 199 "
                     "bytes', None, None, False), [('read', 0, (720,), 720), ('read', 720, (200,), "
                     "200), ('read', 920, (200,), 200), ('read', 1120, (200,), 199)], 1319)",
 'truncated-1-rpc3': "(('EXC', 'builtins.ValueError', 'sizes mismatch: chunksize is 400 but got "
                     "599 bytes', None, None, False), [('read', 0, (720,), 720), ('read', 720, "
                     '(600,), 599)], 1319)',
 'truncated-8-rpc2': "(('EXC', 'builtins.ValueError', 'sizes mismatch: chunksize is 0 but got 192 "
                     "bytes', None, None, False), [('read', 0, (720,), 720), ('read', 720, (400,), "
                     "400), ('read', 1120, (200,), 192)], 1312)",
 'truncated-8-rpc1': "(('EXC', 'builtins.ValueError', 'sizes mismatch: chunksize is 0 but got 192 "
                     "bytes', None, None, False), [('read', 0, (720,), 720), ('read', 720, (200,), "
                     "200), ('read', 920, (200,), 200), ('read', 1120, (200,), 192)], 1312)",
 'truncated-8-rpc3': "(('EXC', 'builtins.ValueError', 'sizes mismatch: chunksize is 400 but got "
                     "592 bytes', None, None, False), [('read', 0, (720,), 720), ('read', 720, "
                     '(600,), 592)], 1312)',
 'truncated-200-rpc2': "(('EXC', 'construct.core.StreamError', 'Error in path (parsing) -> "
                       'record_sequence_number\\nstream read less than specified amount, expected '
                       "4, found 0', None, None, False), [('read', 0, (720,), 720), ('read', 720, "
                       "(400,), 400), ('read', 1120, (200,), 0)], 1120)",
 'truncated-200-rpc1': "(('EXC', 'construct.core.StreamError', 'Error in path (parsing) -> "
                       'record_sequence_number\\nstream read less than specified amount, expected '
                       "4, found 0', None, None, False), [('read', 0, (720,), 720), ('read', 720, "
                       "(200,), 200), ('read', 920, (200,), 200), ('read', 1120, (200,), 0)], "
                       '1120)',
 'truncated-200-rpc3': 'sha256:35cff2a9a1dd453477d4828669cd4b6f7603ecd3fbaaeec34ad2f2c081444cd6 '
                       "length:12253 start:(('OK', ('tuple', [('dict', [(('str', 'preamble'), "
                       "('dict', [(('str', 'record_sequence_number'), ('int', 1)), (('str', "
                       "'first_record_subtype'), ('int', 50)), ((",
 'truncated-201-rpc2': "(('EXC', 'builtins.ValueError', 'sizes mismatch: chunksize is 200 but got "
                       "399 bytes', None, None, False), [('read', 0, (720,), 720), ('read', 720, "
                       '(400,), 399)], 1119)',
 'truncated-201-rpc1': "(('EXC', 'builtins.ValueError', 'sizes mismatch: chunksize is 0 but got "
                       "199 bytes', None, None, False), [('read', 0, (720,), 720), ('read', 720, "
                       "(200,), 200), ('read', 920, (200,), 199)], 1119)",
 'truncated-201-rpc3': "(('EXC', 'builtins.ValueError', 'sizes mismatch: chunksize is 200 but got "
                       "399 bytes', None, None, False), [('read', 0, (720,), 720), ('read', 720, "
                       '(600,), 399)], 1119)',
 'truncated-400-rpc2': "(('EXC', 'construct.core.StreamError', 'Error in path (parsing) -> "
                       'record_sequence_number\\nstream read less than specified amount, expected '
                       "4, found 0', None, None, False), [('read', 0, (720,), 720), ('read', 720, "
                       "(400,), 200), ('read', 920, (200,), 0)], 920)",
 'truncated-400-rpc1': "(('EXC', 'construct.core.StreamError', 'Error in path (parsing) -> "
                       'record_sequence_number\\nstream read less than specified amount, expected '
                       "4, found 0', None, None, False), [('read', 0, (720,), 720), ('read', 720, "
                       "(200,), 200), ('read', 920, (200,), 0)], 920)",
 'truncated-400-rpc3': 'sha256:d35de934240eb4fe5e999191a551034bcb77d2706212e881fc84f22bae0f5be9 '
                       "length:8186 start:(('OK', ('tuple', [('dict', [(('str', 'preamble'), "
                       "('dict', [(('str', 'record_sequence_number'), ('int', 1)), (('str', "
                       "'first_record_subtype'), ('int', 50)), ((",
 'announced-6-of-4': 'sha256:518aabf62136b8cf07b616d14963e8c760047507195da8c7e2e0b4a6b56aeedf '
                     "length:20344 start:(('OK', ('tuple', [('dict', [(('str', 'preamble'), "
                     "('dict', [(('str', 'record_sequence_number'), ('int', 1)), (('str', "
                     "'first_record_subtype'), ('int', 50)), ((",
 'announced-2-of-4': 'sha256:b99263eaa371df0053947db783f9d6c04dd50c1910ccb4f26f040a0c4edb8610 '
                     "length:12215 start:(('OK', ('tuple', [('dict', [(('str', 'preamble'), "
                     "('dict', [(('str', 'record_sequence_number'), ('int', 1)), (('str', "
                     "'first_record_subtype'), ('int', 50)), ((",
 'announced-0-of-4': 'sha256:9aafa49043750835ace972814a0c940ea729f275aae02d587c41bffbde83ce10 '
                     "length:4092 start:(('OK', ('tuple', [('dict', [(('str', 'preamble'), "
                     "('dict', [(('str', 'record_sequence_number'), ('int', 1)), (('str', "
                     "'first_record_subtype'), ('int', 50)), ((",
 'blank-counts': 'sha256:6ad80fc3232606230594b1331875f9cd40031d8e0424e6107ebe0cd92c1ac529 '
                 "length:4092 start:(('OK', ('tuple', [('dict', [(('str', 'preamble'), ('dict', "
                 "[(('str', 'record_sequence_number'), ('int', 1)), (('str', "
                 "'first_record_subtype'), ('int', 50)), ((",
 'blank-length': "(('EXC', 'construct.core.RangeError', 'Error in path (parsing)\\ninvalid count "
                 "-800', None, None, False), [('read', 0, (720,), 720), ('read', 720, (-3,), "
                 '800)], 1520)',
 'zero-length': "(('EXC', 'builtins.ZeroDivisionError', 'integer division or modulo by zero', "
                "None, None, False), [('read', 0, (720,), 720), ('read', 720, (0,), 0)], 720)",
 'wrong-length': "(('EXC', 'builtins.ValueError', 'sizes mismatch: chunksize is 0 but got 197 "
                 "bytes', None, None, False), [('read', 0, (720,), 720), ('read', 720, (603,), "
                 "603), ('read', 1323, (201,), 197)], 1520)",
 'unknown-type-chunk2': "(('EXC', 'builtins.ValueError', 'unknown record type code: 12', None, "
                        "None, False), [('read', 0, (720,), 720), ('read', 720, (400,), 400), "
                        "('read', 1120, (400,), 400)], 1520)",
 'unknown-type-chunk1': "(('EXC', 'builtins.ValueError', 'unknown record type code: 12', None, "
                        "None, False), [('read', 0, (720,), 720), ('read', 720, (400,), 400)], "
                        '1120)',
 'unknown-type-inside': 'sha256:f8655d0b732b9493e38d05d6670b9663564bd6f2e4527a43f76f993f988bad10 '
                        "length:20336 start:(('OK', ('tuple', [('dict', [(('str', 'preamble'), "
                        "('dict', [(('str', 'record_sequence_number'), ('int', 1)), (('str', "
                        "'first_record_subtype'), ('int', 50)), ((",
 'signal-as-processed': 'sha256:c84660cbc43f0930a3b706ed885d62108b5e547df5e159baefe7032d7f7f7250 '
                        "length:15125 start:(('OK', ('tuple', [('dict', [(('str', 'preamble'), "
                        "('dict', [(('str', 'record_sequence_number'), ('int', 1)), (('str', "
                        "'first_record_subtype'), ('int', 50)), ((",
 'dummy-rpc1': 'sha256:8cc4085e75b01db0a458ea28de99b03c85d15b118ce3fc9a8dacf127620dc43a '
               "length:1705 start:(('OK', ('tuple', [('dict', [(('str', "
               "'number_of_sar_data_records'), ('int', 3)), (('str', 'sar_data_record_length'), "
               "('int', 17))]), ('list', [('dict', [(('str",
 'dummy-rpc2': 'sha256:5d5f7d30e95746b4ff7b5862b1fd39157dc3d8b940661c45e995d399a7897439 '
               "length:1680 start:(('OK', ('tuple', [('dict', [(('str', "
               "'number_of_sar_data_records'), ('int', 3)), (('str', 'sar_data_record_length'), "
               "('int', 17))]), ('list', [('dict', [(('str",
 'dummy-rpc3': 'sha256:771cf595a8e3c0e51ff17ef7a048377ae94e695f345baf98c4e13aa200bf14b0 '
               "length:1655 start:(('OK', ('tuple', [('dict', [(('str', "
               "'number_of_sar_data_records'), ('int', 3)), (('str', 'sar_data_record_length'), "
               "('int', 17))]), ('list', [('dict', [(('str",
 'dummy-rpc5': 'sha256:771cf595a8e3c0e51ff17ef7a048377ae94e695f345baf98c4e13aa200bf14b0 '
               "length:1655 start:(('OK', ('tuple', [('dict', [(('str', "
               "'number_of_sar_data_records'), ('int', 3)), (('str', 'sar_data_record_length'), "
               "('int', 17))]), ('list', [('dict', [(('str",
 'dummy-missing-number_of_sar_data_records': "(('EXC', 'builtins.KeyError', "
                                             '"\'number_of_sar_data_records\'", None, None, '
                                             "False), [('read', 0, (2,), 2)], 2)",
 'dummy-missing-sar_data_record_length': "(('EXC', 'builtins.KeyError', "
                                         '"\'sar_data_record_length\'", None, None, False), '
                                         "[('read', 0, (2,), 2)], 2)",
 'call-order-rpc2': 'sha256:4196c588f8bb2eab2afd68db4c67bdaa3b9e3df3eec49e6245c27d34635e8271 '
                    "length:24686 start:(('OK', ('tuple', [('dict', [(('str', 'preamble'), "
                    "('dict', [(('str', 'record_sequence_number'), ('int', 1)), (('str', "
                    "'first_record_subtype'), ('int', 50)), ((",
 'call-order-rpc5': 'sha256:63b5cf0d7bd2ea7a0428b3d04d9435fb8aa418d85a55892a1644737122632ced '
                    "length:24513 start:(('OK', ('tuple', [('dict', [(('str', 'preamble'), "
                    "('dict', [(('str', 'record_sequence_number'), ('int', 1)), (('str', "
                    "'first_record_subtype'), ('int', 50)), ((",
 'call-order-rpc7': 'sha256:63b5cf0d7bd2ea7a0428b3d04d9435fb8aa418d85a55892a1644737122632ced '
                    "length:24513 start:(('OK', ('tuple', [('dict', [(('str', 'preamble'), "
                    "('dict', [(('str', 'record_sequence_number'), ('int', 1)), (('str', "
                    "'first_record_subtype'), ('int', 50)), ((",
 'failing-chunk': "(('EXC', 'builtins.RuntimeError', 'second chunk', None, None, False), [('read', "
                  "0, (720,), 720), ('read', 720, (400,), 400), ('read', 1120, (400,), 400)], "
                  '1520)',
 'memory-fs': 'sha256:96f132a5273ee6ce1dea4e73d4a243560ecda9b770a726e842a438903d554a7a '
              "length:20584 start:(('OK', ('tuple', [('dict', [(('str', 'preamble'), ('dict', "
              "[(('str', 'record_sequence_number'), ('int', 1)), (('str', 'first_record_subtype'), "
              "('int', 50)), ((",
 'read_file_descriptor-0': "(('EXC', 'construct.core.StreamError', 'Error in path (parsing) -> "
                           'preamble -> record_sequence_number\\nstream read less than specified '
                           "amount, expected 4, found 0', None, None, False), [('read', 0, (720,), "
                           '0)], 0)',
 'read_file_descriptor-719': "(('EXC', 'construct.core.StreamError', 'Error in path (parsing) -> "
                             'scansar_burst_data_information -> blanks\\nstream read less than '
                             "specified amount, expected 260, found 259', None, None, False), "
                             "[('read', 0, (720,), 719)], 719)",
 'read_file_descriptor-720': 'sha256:d13e25397f3c0a2b3827c5bc2c475a01f2d655bd681fafd56cf5015a0b1b7718 '
                             "length:4077 start:(('OK', ('OK', ('dict', [(('str', 'preamble'), "
                             "('dict', [(('str', 'record_sequence_number'), ('int', 1)), (('str', "
                             "'first_record_subtype'), ('int', 50)), (('str",
 'read_file_descriptor-800': 'sha256:d13e25397f3c0a2b3827c5bc2c475a01f2d655bd681fafd56cf5015a0b1b7718 '
                             "length:4077 start:(('OK', ('OK', ('dict', [(('str', 'preamble'), "
                             "('dict', [(('str', 'record_sequence_number'), ('int', 1)), (('str', "
                             "'first_record_subtype'), ('int', 50)), (('str",
 'names': "['adjust_offsets', 'concat', 'file_descriptor_record', 'itertools', 'math', "
          "'parse_chunk', 'read_file_descriptor', 'read_metadata', 'record_preamble', "
          "'record_types', 'to_dict']",
 'signatures': 'sha256:7671149cfa9f9e409be18f43a8ca9cae3685c84561364e9c48a519fb211522b6 length:534 '
               'start:[(\'parse_chunk\', [(\'content\', \'POSITIONAL_OR_KEYWORD\', "<class '
               '\'inspect._empty\'>"), (\'element_size\', \'POSITIONAL_OR_KEYWORD\', "<class '
               '\'inspect._empty\'>")]), (\'a'}

if __name__ == "__main__":
    recorder = Recorder()
    run(recorder)
    sys.exit(recorder.finish(EXPECTED))


def test_equivalence():
    recorder = Recorder()
    run(recorder)
    recorder.finish(EXPECTED)
